#!/bin/bash
# usage: try_all.sh <patch>  -- apply a patch to the scratch worktree, run ALL quick checks there, print one line per property
p=$1
W=${TRY_WT:-/tmp/mut/detect2}
git -C $W checkout -q -- . ; git -C $W apply $p || { echo "APPLY FAILED $p"; exit 2; }
for prop in C01 C02 C03 C04 C05 C06 C07 C08 C09 C10 C11 C12 C13 C14 C15 C16 C17 C18; do
  out=$(PYP0F_REPO=$W VERIF_EVIDENCE_DIR=/verif/work/evidence-seeded VERIF_JOBS=8 /verif/check $prop 2>&1)
  v=$(echo "$out" | grep -c '^VIOLATION')
  nf=$(echo "$out" | grep '^VIOLATION' | grep -c 'no-failing-input-found')
  [ "$v" != "0" ] && echo "$prop violations=$v no-failing-input=$nf :: $(echo "$out" | grep -- '-> ' | sort -u | head -2 | tr '\n' ' ' | cut -c1-260)"
done
git -C $W checkout -q -- .
echo "done $p"
