#!/venv/bin/python
"""Diagnostic: distribution of C05 failures by structural class of signature/base (not part of any check)."""
import sys, os, json, collections
sys.path.insert(0, os.path.dirname(os.path.dirname(os.path.abspath(__file__))))
os.chdir(os.path.dirname(os.path.dirname(os.path.abspath(__file__))))
from harness import core
from harness.props import c05
from harness import findings
core.build()
R = core.Rng("diag/%s" % (sys.argv[1] if len(sys.argv) > 1 else "1"))
cases = []
for c in c05.generate(R, "quick"):
    cases.append(c)
    if len(cases) >= int(sys.argv[2] if len(sys.argv) > 2 else 3000):
        break
ir = core.run_impl("C05", cases)
mr = c05.model_cases(cases, ir, core.run_model)
cnt = collections.Counter(); ex = {}
for c, i, m in zip(cases, ir, mr):
    v = c05.judge(c, i, m)
    if v is None:
        cnt["OK"] += 1; continue
    cl = findings.c05_class(c, i, m, v) or ("UNCLASSIFIED:" + v["kind"][:40])
    cnt[cl] += 1
    ex.setdefault(cl, (c["sig"], v["why"][:200]))
for k, n in cnt.most_common():
    print(n, k, ex.get(k, ""))
if len(sys.argv) > 3:
    wit = {}
    for c, i, m in zip(cases, ir, mr):
        v = c05.judge(c, i, m)
        if v is None:
            continue
        cl = findings.c05_class(c, i, m, v)
        if cl and cl not in wit and not c["ether"] and c["uptime"] is None and c["policy"] == "min":
            wit[cl] = {k: v for k, v in c.items() if k != "stream"}
    json.dump(wit, open(sys.argv[3], "w"), indent=1)
