#!/bin/bash
# usage: try_patch.sh <patch> <prop>...   -- apply a patch to the scratch worktree /tmp/mut/detect, run quick checks there, undo
p=$1; shift
W=${TRY_WT:-/tmp/mut/detect2}
git -C $W checkout -q -- . ; git -C $W apply $p || { echo "APPLY FAILED $p"; exit 2; }
for prop in "$@"; do
  PYP0F_REPO=$W VERIF_EVIDENCE_DIR=/verif/work/evidence-seeded VERIF_JOBS=8 /verif/check $prop 2>&1 | grep -E '^\[|-> ' | sort | uniq -c | cut -c1-230
done
git -C $W checkout -q -- . ; git -C $W clean -fdq
