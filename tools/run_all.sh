#!/bin/bash
# Runs every registered quick (or $1 = thorough) check on /repo as it is and validates the evidence files.
cd "$(dirname "$0")/.."
tier=${1:-quick}
[ -n "$(git -C /repo status --porcelain)" ] && echo "WARNING: /repo has uncommitted changes"
rc=0
for i in $(seq -w 1 18); do ./check C$i --tier $tier 2>&1 | grep -E '^\[|^VIOL|^KNOWN' | cut -c1-200; [ ${PIPESTATUS[0]} -ne 0 ] && rc=1; done
/opt/veriftools/pyvenv/bin/python - <<'PY'
import json, jsonschema, glob
sch = json.load(open('/root/.vp/EVIDENCE.schema.json'))
for f in sorted(glob.glob('evidence/*.json')):
    e = json.load(open(f)); jsonschema.validate(e, sch)
    c = e['coverage']; assert c['obligations'] == c['discharged'], (f, c['obligations'], c['discharged'])
print('evidence: all valid')
PY
exit $rc
