#!/usr/bin/env python3
"""Writes seeded/<id>/meta.json from confirm.json, notes.md and seeded/matrix.json, and prints the detection table for DESIGN.md."""
import json, os, glob, re
HERE = os.path.dirname(os.path.dirname(os.path.abspath(__file__)))
matrix = json.load(open(HERE + "/seeded/matrix.json")) if os.path.exists(HERE + "/seeded/matrix.json") else {}
# the first 36 changes were also run against ALL eighteen checks (early in the build, with the checks of that time): kept for the cross-property columns
if os.path.exists(HERE + "/seeded/matrix-wave1-all.json"):
    for i, v in json.load(open(HERE + "/seeded/matrix-wave1-all.json")).items():
        for p, r in v.items():
            if p != i.split("-")[0] and isinstance(r, dict):
                matrix.setdefault(i, {}).setdefault(p, dict(r, early_all_checks_run=True))
rows = []
for d in sorted(glob.glob(HERE + "/seeded/*/")):
    i = os.path.basename(d.rstrip("/"))
    if not os.path.exists(d + "confirm.json"):
        continue
    c = json.load(open(d + "confirm.json"))
    notes = open(d + "notes.md").read() if os.path.exists(d + "notes.md") else ""
    needs = ""
    m = re.search(r"(?is)(what (it|exactly) (needs|is needed)[^\n]*\n.*?)(\n\s*\n|\Z)", notes)
    lines = [l.strip("-* ").strip() for l in notes.split("\n") if l.strip()]
    title = lines[0] if lines else ""
    need_lines = [l for l in lines if re.search(r"(?i)\b(needs?|manifest|only shows|only when|requires?|trigger)", l)]
    det = matrix.get(i, {})
    caught_by = sorted(p for p, r in det.items() if isinstance(r, dict) and r.get("violations"))
    ran = sorted(p for p, r in det.items() if isinstance(r, dict))
    meta = {"id": i, "breaks_property": c["property"], "summary": title[:300],
            "needs_to_manifest": " ".join(need_lines)[:900] or "see notes.md",
            "confirmed_by_us": {"scratch_worktree": "git worktree of /repo HEAD under /tmp/mut/verify-" + i + " (removed afterwards)",
                                "pytest_with_change": c["pytest_with_change"], "demo_exit_unchanged_tree": c["demo_rc_unchanged"],
                                "demo_exit_changed_tree": c["demo_rc_changed"], "confirmed": c["confirmed"],
                                "command": "tools/seed_confirm.sh %s <dir> <n> %s" % (c["property"], i)},
            "checks_run_against_it": ran, "caught_by": caught_by,
            "first_report": (det.get(c["property"]) or {}).get("first") if isinstance(det.get(c["property"]), dict) else None,
            "how_checks_were_run": "tools/seed_matrix.py: git apply patch.diff on a scratch worktree of /repo HEAD (PYP0F_REPO), ./check <prop> --tier quick, git checkout -- . (own property's check with the final machinery; for the first 36 changes also every other check, early in the build)"}
    json.dump(meta, open(d + "meta.json", "w"), indent=1)
    rows.append((i, c["property"], c["confirmed"], caught_by, title[:90]))
table = ["| change | breaks | confirmed | caught by (quick tier) | what it is |", "|---|---|---|---|---|"]
for i, p, ok, cb, t in rows:
    table.append("| %s | %s | %s | %s | %s |" % (i, p, "yes" if ok else "NO", ", ".join(cb) or "-", t.replace("|", "/")))
print("\n".join(table))
# splice the table into DESIGN.md between the markers
dp = HERE + "/DESIGN.md"
d = open(dp).read()
a, b = "<!-- SEED-TABLE-BEGIN -->", "<!-- SEED-TABLE-END -->"
if a in d and b in d:
    d = d[:d.index(a) + len(a)] + "\n" + "\n".join(table) + "\n" + d[d.index(b):]
    open(dp, "w").write(d)
