#!/usr/bin/env python3
"""Regenerates MANIFEST.json from the table below (keeps it schema-valid at all times)."""
import json, os
HERE = os.path.dirname(os.path.dirname(os.path.abspath(__file__)))
ALL = ["C%02d" % i for i in range(1, 19)]
GEN = (" Second tie (regenerated on every run): translate/py2coq.py translates the public wrappers fingerprint_tcp / fingerprint_mtu / fingerprint_http (gate, direction -> section, result), tcp_signatures_match, calculate_window_multiplier, find_tcp_match, the "
       "TCPResult distance, round_frequency, guess_distance, should_fingerprint, the three valid_for_*_fingerprint gates, MTUPacketSignature.from_mss, impersonate/mtu.py's option-list rewrite, "
       "mtu_signatures_match, find_mtu_match, find_http_match, http_signatures_match (with the two header_names sets), headers_match, HTTP.software, the dishonest flag, TCPOptions.parse (the option walker) and - translate/lay2coq.py - the whole extraction layer (IP._from_ipv4/_from_ipv6, TCP.from_packet, Packet.from_packet, TCPPacketSignature.from_packet over Scapy's fields) from /repo's CURRENT source to Gallina (fail-closed "
       "subset incl. for/while loops, early return, optional values), one generated file per group of functions (match / select / uptime / mtu / options / http / layers, and api = their end-to-end composition, Gen/GenApiC.v), "
       "and coq/Gen/GenP_<group>.v (GenOptP.v, GenHdrP.v) prove the generated definitions equal to the hand-written models "
       "for all inputs, so for these functions the theorems are re-checked against what the code says now; a property only depends on its own groups.")
GENIMP = (" Second tie (regenerated on every run): translate/imp2coq.py translates the five helpers of pyp0f/impersonate/tcp.py (_impersonate_ip, _impersonate_options, "
          "_impersonate_window, _impersonate_tcp, _impersonate_payload) and of impersonate() itself (which signature is used, the IP version check, the order of the three layers) from /repo's CURRENT source into the random-tape monad, draws in the source's evaluation order; "
          "coq/Gen/GenImpP.v proves them equal to the hand-written impersonation model for every tape, and coq/Gen/GenImpC.v restates the C05/C14 theorems for the "
          "translated code on parsed signatures.")
GENSIG = (" Further tie (regenerated on every run): translate/sig2coq.py translates parse/utils.py, wildcard.py, signatures/tcp.py (TCPSignature.parse and its field "
          "parsers), signatures/mtu.py and the printers TCPOptions.dump / dump_quirks from /repo's CURRENT source; coq/Gen/GenSigP.v proves them equal to the model, GenSigC.v restates the range / round-trip theorems "
          "for the translated code.")
GENFILE = (" Further tie (regenerated on every run): translate/file2coq.py translates the line loop of _parse_file, _parse_section, the label classes, the record "
           "classes' label / signature dispatch, RecordsDatabase.create / add / iter_values / get_random / __len__ / _replace and Database.load from /repo's CURRENT source; coq/Gen/GenFileP.v proves that the translated loop body simulates "
           "the model's step from every reachable state, GenFileC.v that the translated parser of a file TEXT equals the model's for every text and restates the file-level "
           "theorems for it; GenDbP.v / GenDbC.v: the translated get_random is the model's lookup for every pick, the translated load refines the atomic load specification "
           "(HTTPSignature.parse is bound to the model's here and proved equal to its own translation by the http2coq tie).")
GENH11 = (" Further tie (regenerated on every run): translate/h112coq.py translates h11's ReceiveBuffer (__init__, __iadd__, _extract, maybe_extract_lines) AS INSTALLED and pyp0f's copy_buffer; "
          "coq/Gen/GenH11P.v proves the translation equal to the model's extract_lines for EVERY byte string (the assert in the library is unreachable, the copy is consumed by exactly the head, a refusal keeps the data) "
          "and composes it with the translated read_payload (C07_translated_read_payload_h11); what stays assumed is the meaning of the one regular expression b'\\n\\r?\\n'.")
GENRE = (" Further tie (regenerated on every run): translate/re2coq.py reads the regular expressions the code uses from the CURRENT sources, has CPython's own re._parser parse them and emits them as terms of a small generic regex AST; "
         "coq/Gen/GenReP.v proves against the generic relational semantics of Gen/GenReLib.v that the recognisers the other ties bind them to are exactly what .match / .split / .search denote (and that the match is unique), so those bindings are theorems, not assumptions.")
GENEFF = (" Further tie (regenerated on every run): translate/eff2coq.py derives from ALL modules of /repo's CURRENT source which caller-owned and module-level objects each public call may "
          "write (fail-closed may-write analysis); coq/Gen/GenEffP.v proves from the emitted data that the fingerprint calls write nothing, that no call writes a module-level object other than the "
          "random generator, that Database.load writes only its own object and the database readers nothing (section 16g of DESIGN.md).")
GENHTTPX = (" Further tie (regenerated on every run): translate/http2coq.py translates read.py (first line, header lines with continuations, read_payload), header.py / http.py "
            "(lower_name, _get_header_value, software, from_buffer) and signatures/http.py (HTTPSignature.parse, _parse_headers, header_names) from /repo's CURRENT source; "
            "coq/Gen/GenHttpP.v proves them equal to the model for all payloads / signature texts (the two regexes and h11's line extraction are primitives of THIS tie, read literally; the ties h112coq and re2coq - attached to C04, C07, C09 - prove them: sections 16h, 16i of DESIGN.md), "
            "GenHttpC.v restates the C07 / C09 theorems for the translated code.")
TIE = ("Tie to /repo: the hand-written Gallina model is extracted (ExtrOcamlBasic) and run against the working tree's pyp0f on "
       "boundary-directed generated cases plus exhaustive sweeps of the small sub-domains; every disagreement is a replayable "
       "failing input. Assurance = the weaker of proof and tie.")
CLAIMED = {
 "C01": dict(text="Coq theorems for ALL signatures x packet signatures x max_dist: tcp_match <> None <-> Matches (declarative rule set incl. "
                  "version, wildcards, window forms, quirk sets as SETS), exact/fuzzy characterisation, ttl- rule, mask<->set bridge. " + TIE + GEN,
             note="Trusted: Coq kernel; extraction+driver; generator/worker; hand-written model of tcp_signatures_match/calculate_window_multiplier "
                  "(tied twice: by the differential run incl. TCPSignature.parse of the printed text, and by translate/py2coq.py, which regenerates both functions from /repo's source on every run and whose output is proved equal to the model: Gen/GenP_match.v - the translator's reading of the Python subset is trusted). No axioms.",
             tech="Coq proof (model = declarative spec) + source-to-Gallina translation proved equal to the model + extracted-model differential correspondence", ref="DESIGN.md section 4 C01, section 12"),
 "C17": dict(text="Coq theorems for all packet signatures: the multiplier is window/d for the FIRST dividing entry of the documented divisor list "
                  "(both directions), none iff zero window / MSS<100 / no divisor, the list equals the documented sequence, and no multiplier "
                  "=> mss*N / mtu*N cannot match. " + TIE + GEN,
             note="Trusted: Coq kernel; extraction+driver; generator/worker; hand-written model of calculate_window_multiplier (tied twice: differential run, and translate/py2coq.py group match regenerated from /repo's source on every run and proved equal to the model; the translator's reading of the Python subset is trusted). No axioms.",
             tech="Coq proof (first-divisor characterisation) + source-to-Gallina translation proved equal to the model + extracted-model differential correspondence", ref="DESIGN.md section 4 C17, section 12"),
 "C02": dict(text="Coq theorems for all databases x packets: the single-pass loop with its two accumulators equals the three 'earliest such record' "
                  "searches (specific exact, generic exact, first fuzzy unless class '!'), the result is a matching member of the consulted list, only "
                  "the packet direction's section is read, distance formula and 0..255 range (via the C01 type theorem), packet gate, unloaded "
                  "database -> DatabaseError. " + TIE + GEN,
             note="Trusted: as C01; the model side extracts the packet signature from the wire bytes itself (C03's verified extractor) - nothing the implementation extracted "
                  "is given to the model. No axioms.",
             tech="Coq proof (loop = declarative selection) + extracted-model differential correspondence through fingerprint_tcp", ref="DESIGN.md section 4 C02"),
 "C13": dict(text="Coq theorems: verdict iff the gate (both timestamps non-zero, wait window, >= 5 ticks mod 2^32, not the grace case); inside the gate "
                  "in-scale -> rounded tps + uptime fields, out-of-scale -> tps -1 (no verdict on a pure SYN); forward progress by d ticks reads d*1000/ms "
                  "also across the 2^32 wrap, a backward step reads non-positive; the rounding table, positivity, monotonicity and idempotence for EVERY "
                  "integer frequency >= 0 (no bound); packet gate. " + TIE + GEN,
             note="Trusted: as C01; floats are replaced by exact rationals (argument in DESIGN.md C13; raw_frequency is compared bit-for-bit with the "
                  "correctly rounded quotient); thresholds assumed sane (0 < min scale, min wait >= 1, grace > 0); clock replaced via time.time_ns. No axioms.",
             tech="Coq proof (mod 2^32 arithmetic, rounding over all Z) + extracted-model differential correspondence", ref="DESIGN.md section 4 C13"),
 "C08": dict(text="Coq theorems: MTU = MSS+40/60 and the earliest record with exactly that MTU (first-occurrence characterisation), exact packet gate, "
                  "impersonation round trip (the MSS a dissector reads from the new option list gives back m), other options and their order untouched, "
                  "every former MSS position still an MSS. " + TIE + GEN + " The impersonated packet is re-fingerprinted by the real code and all non-option "
                  "header fields are compared.",
             note="Trusted: as C01; options of the base packet are abstracted to MSS / opaque-other by the harness; (fragment,type,version,MSS) given to "
                  "the fingerprint model come from the model's own extractor for sniffed packets and from how the packet was built for constructed ones. No axioms.",
             tech="Coq proof (first-equal record, option-list invariants) + extracted-model differential correspondence", ref="DESIGN.md section 4 C08"),
 "C03": dict(text="Coq theorems: the IPv4 (IHL 5..15, all field values), IPv6 and TCP (all 9 flag bits) dissectors invert the header encoders and yield "
                  "exactly the documented quirk sets; whole-packet composition for both versions (every packet-signature field equals the header "
                  "field); on option areas made of well-formed options the walker reports kinds in wire order, last MSS/scale/timestamp, EOL padding, "
                  "opt+/exws/ts1-/ts2+ in the documented wording; 'bad' is set EXACTLY for the areas that are not well-formed (both directions), and a "
                  "wrong-length fixed-format option is never turned into a value. " + TIE + GEN + " Packets are built by a Scapy-free byte builder; Scapy "
                  "dissection sits on the implementation side of the tie.",
             note="Trusted: as C01; Scapy is not modelled (the model answers only for well-framed IPv4/IPv6+TCP datagrams, which the harness builds); IPv6 "
                  "extension headers are outside the model (bytes after the end of the datagram - link-layer trailers - are covered: C03_trailer_ignored). No axioms.",
             tech="Coq proof (codec inversion, TLV walker soundness+completeness) + extracted-model differential correspondence on raw bytes", ref="DESIGN.md section 4 C03"),
 "C04": dict(text="Coq theorems: the option walker terminates within one iteration per byte for EVERY byte string and its layout never exceeds the number "
                  "of option bytes; the dissector model yields a packet or PacketError; the tcp/mtu/uptime fingerprint models yield a result, PacketError or "
                  "DatabaseError only; the HTTP reader returns a result or PacketError for EVERY byte string (no Crash constructor reachable). " + TIE + GEN + GENHTTPX + GENH11 + GENRE +
                  " The implementation is run under a per-call alarm and address-space limit on mutated packets/payloads (hostile options, inconsistent "
                  "lengths, truncations, leading CR/LF, non-ASCII) and must answer ok or PacketError.",
             note="Trusted: as C01; byte strings Scapy itself refuses to dissect are outside the quantifier (counted as dissect-failed); work/memory "
                  "proportionality is proved on the model only (fuel / length bounds), on the implementation only hangs are detectable. No axioms.",
             tech="Coq proof (termination by fuel, totality) + mutation-based differential/robustness run with hang detection", ref="DESIGN.md section 4 C04"),
 "C06": dict(text="Coq theorems: headers_match's index loop <-> the inductive ordered Walk of the statement (first occurrence at/after the cursor, substring "
                  "inside that occurrence, optional header only if it occurs nowhere); http_signatures_match <-> version/required/absent/walk; selection = "
                  "earliest non-generic else earliest generic; software = first non-empty User-Agent else Server; dishonest iff; section by first line. " + TIE + GEN + GENHTTPX,
             note="Trusted: as C01; the database text is parsed by the model's parser (tied to the implementation's by C09/C10). No axioms.",
             tech="Coq proof (loop = inductive walk, selection) + extracted-model differential correspondence through fingerprint_http", ref="DESIGN.md section 4 C06"),
 "C07": dict(text="Coq theorems: for every head written as lines with CRLF or bare LF per line followed by a blank line and arbitrary body bytes the lines are "
                  "recovered; request/status line -> direction and minor digit; header fields (names as sent, values stripped, any number of folded "
                  "continuation lines appended) are recovered in order; whole-message round trip; rejections: unterminated head, other method, other "
                  "version (exact characterisation of accepted version tokens), no colon, empty name. " + TIE + GENHTTPX + GENH11 + GENRE,
             note="Trusted: as C01; h11's maybe_extract_lines: the hand model ('lines before the first LF-terminated blank piece') is proved equal to a translation of the INSTALLED "
                  "library source (translate/h112coq.py, Gen/GenH11P.v) - assumed: the translator's reading; the regular expression b'\\n\\r?\\n' is tied to its recogniser by Gen/GenReP.v over the generic regex semantics of Gen/GenReLib.v - and exercised "
                  "by the correspondence on every run. No axioms.",
             tech="Coq proof (render/read round trip, rejection lemmas) + extracted-model differential correspondence incl. single-defect corruptions", ref="DESIGN.md section 4 C07"),
 "C09": dict(text="Coq theorems: after a successful load each section holds, in file order, exactly the sig lines a state-free scanner attributes to it "
                  "(line number, most recent label with sys, raw text, parsed signature), len(db) = number of sig lines, also with repeated section headers "
                  "(induction over lines); accepted TCP signatures lie in the documented ranges; layout / quirk / label texts denote what they say "
                  "(printer-parser round trips). " + TIE + GENSIG + GENFILE + GENHTTPX + GENRE + " The shipped p0f.fp is one of the cases.",
             note="Trusted: as C01; Python string primitives (split/partition/strip/int/encode) are modelled over code points (Unicode 15.0 white-space / digit tables) and exercised by the correspondence; the print/parse round trips of "
                  "whole TCP and HTTP signature texts are proved for printable signatures (C09_sig_roundtrip, C09_http_sig_roundtrip). No axioms.",
             tech="Coq proof (parser = scanner refinement by induction) + extracted-model differential correspondence on generated files", ref="DESIGN.md section 4 C09"),
 "C10": dict(text="Coq theorems: parse_file ends in a database or ParsingError(n) for EVERY line list (no other outcome constructor reachable: the partial "
                  "operations of the code are modelled as partial and proved safe); n is the 1-based number of the first offending line (the prefix parses, "
                  "that line fails); accepted tcp/mtu/http signatures are within the documented ranges, quirks legal for the version; skipped lines leave the "
                  "state unchanged. " + TIE + GENSIG + GENFILE + GENHTTPX + " Single-fault corruptions, a per-field boundary catalogue and all short line-kind sequences are run.",
             note="Trusted: as C09; an unreadable path is checked on the implementation only (open() is not modelled). No axioms.",
             tech="Coq proof (outcome classes, first-error line, range lemmas) + extracted-model differential correspondence on corrupted files", ref="DESIGN.md section 4 C10"),
 "C15": dict(text="Coq theorems: type:class:name:flavour with colon-free parts parses to its components and dumps back to the same text; sys does not "
                  "affect the text; lookup returns only records of the requested list whose dumped label equals the text exactly, can return every such "
                  "record, DatabaseError when none / unloaded. " + TIE + GENFILE + " random.choice is driven over every candidate index; label-based impersonation "
                  "is checked to draw from that label's records of the packet's direction.",
             note="Trusted: as C09; random.choice replaced by an indexable stub. No axioms.",
             tech="Coq proof (label round trip, lookup soundness/completeness) + extracted-model differential correspondence", ref="DESIGN.md section 4 C15"),
 "C18": dict(text="Coq theorems: parse_layout (dump_layout l pad) = (l, pad if EOL present) for every layout over kinds 0..255 and padding 0..255; "
                  "parse_quirks (dump_quirks q) = q for all 2^17 quirk sets legal for the version; int(str(n)) = n. " + TIE + GEN + GENSIG + " Real packets are dumped, "
                  "parsed back and matched against themselves by the real code.",
             note="Trusted: as C09. 'A signature written from a packet matches it exactly' is the theorem C18_written_matches (print, parse back, match: Exact) and is also "
                  "checked on the implementation, from the packet signature and from the parsed packet's own option object. No axioms.",
             tech="Coq proof (printer/parser round trips) + differential correspondence, quirk sweep (thorough: all 2^17)", ref="DESIGN.md section 4 C18"),
 "C11": dict(text="Coq theorems: the line-by-line load (local database, commit after the last line) refines the atomic specification "
                  "load_spec; at EVERY line-read point the visible version is the one installed before the load, only the observation after the last line "
                  "shows the new one; failed load preserves, no accumulation, idempotence, never-loaded = no section. " + TIE + GENFILE + GENEFF + " A wrapped file iterator "
                  "snapshots the whole shared database at every line read of every load in histories of good/bad/unreadable files (fault at every line).",
             note="Trusted: as C09; observation granularity = line-read point (as the property states); unreadable paths are checked on the "
                  "implementation only. No axioms.",
             tech="Coq proof (small-step loader refines atomic spec) + runtime observer at every line-read point compared with the model trace", ref="DESIGN.md section 4 C11"),
 "C12": dict(text="PARTIAL. Coq: frame theorem over a heap model of which objects each public call allocates, reads and writes (copies for fingerprinting, "
                  "copy_buffer before extract_lines, new layers for impersonate_tcp, impersonate_mtu writes its argument only), and no non-load call changes "
                  "the database. Tie regenerated on every run: translate/eff2coq.py derives from /repo's CURRENT source (all modules; a fail-closed, flow-insensitive, "
                  "interprocedural may-write analysis over the AST: parameters and what is reachable from them, module-level objects, fresh allocations; which caller "
                  "objects are handed to library code; what the result may alias) the effect summary of fingerprint_tcp / mtu / uptime / http, parse_packet, read_payload, "
                  "impersonate_tcp, impersonate_mtu, Database.load, get_random, iter_values as Gallina data; coq/Gen/GenEffP.v proves from that data: the fingerprint "
                  "calls write nothing and hand their input to library code only for bytes() / .copy() / __class__, impersonate_tcp writes only the random generator "
                  "and its result aliases no parameter, impersonate_mtu writes exactly its packet (and the generator), the database readers write nothing, no module-level "
                  "object but the generator is ever written, the summaries agree with the model's write set (gen_model_agrees) and hence the frame theorem holds for the "
                  "calls as summarised from the code (C12_translated_frame). Still partial: that bytes(packet), Packet.copy(), Scapy's '/', FlagValue operators and h11 buffers "
                  "do not touch their operands is library behaviour, listed as assumed externals in the generated file and covered by the decisive run-time half: before/after "
                  "snapshots (bytes, command(), explicit-field maps per layer, buffer bytes/length/cursors, deep database dump) around every call of random call sequences on "
                  "sniffed and constructed packets and all three buffer types.",
             note="Trusted: Coq kernel; translate/eff2coq.py (abstract domain, call resolution, tables of assumed-pure / mutating externals - printed into Gen/GeneratedEff.v; three facts "
                  "re-checked on the installed Scapy / h11 sources on every run); the runtime monitor (harness/props/c12.py), CPython/Scapy/h11 object semantics. No axioms.",
             tech="Coq frame lemma over a heap model + effect summaries regenerated from the source and proved to agree with it (partial) + runtime before/after object monitor", ref="DESIGN.md section 4 C12, section 7, section 16g"),
 "C16": dict(text="Coq theorems over the API state machine (state = loaded database): the output of a call after ANY history equals its history-free value "
                  "on the database of the last successful load; histories with the same last load agree; non-load calls preserve the database; repeating a "
                  "call repeats its result. " + TIE + GEN + GENEFF + " For C16 the translated pieces are composed end to end (Gen/GenApiC.v: gen_run_ops_eq, C16_translated_history). Histories of 30 interleaved calls (reloads, raw / freshly parsed / REUSED parsed packets with "
                  "varying syn_mss and max_dist, three buffer types, impersonation by label with extra_hops, sibling packets, probe records that force lazy "
                  "state) run in one process and every result is compared with the model's pure value.",
             note="Trusted: as C01/C03/C09 (the machine composes those models); module-level state of the Python runtime is only observable through the "
                  "tie; uptime excluded as the property allows. No axioms.",
             tech="Coq proof (history independence of the API machine) + extracted-machine differential correspondence on call histories", ref="DESIGN.md section 4 C16"),
 "C14": dict(text="Coq theorems about the impersonation model, for EVERY random tape: addresses, ports, IP version and TTL = signature TTL - extra_hops; SYN bit "
                  "kept, ACK bit kept unless ack+/ack-; sequence number zero iff seq-, the base's own when non-zero; per wildcardable field (MSS with the "
                  "mss*N bounds, window scale vs exws, own/peer timestamp vs ts1-/ts2+ and SYN vs SYN+ACK, window for '*' and literal, IPv4 id in the four "
                  "df/id cases, payload by class): fixed value overrides, admissible hint kept, inadmissible/missing hint replaced by an admissible value. "
                  + TIE + " Tie here = the model reproduces bytes(out) of the real impersonate_tcp byte for byte under the recorded random tape; in addition "
                  "an admissibility predicate written from the property text (not from the code) judges every output field by field." + GENIMP,
             note="Trusted: as C01/C03; random.* replaced by a recording stub; MSS hints under mtu*N are not judged (they depend on the divisor search of "
                  "known finding KF-window-search); calls with an explicit uptime argument are excluded from the own-timestamp check. No axioms.",
             tech="Coq proof (per-field hint theorems over a tape-driven model) + byte-exact tape replay against impersonate_tcp + property-text oracle", ref="DESIGN.md sections 4 C14, 10"),
 "C05": dict(text="Coq: (1) C05_supported_sound - for every signature in the decidable class Supported (no IP options, option kinds NOP/MSS/WS/SACKOK/TS plus an "
                  "optional final EOL with its natural padding, no opt+/bad, window literal / * / %N / mss*N when MSS*N fits) that is satisfiable by some real packet of the base's IP version and SYN/SYN+ACK type (quirk coherence is proved to follow from that: C05_coherence_from_satisfiability), "
                  "every admissible base packet (IPv4/IPv6, SYN/SYN+ACK, any hints and extra flag bits), every extra_hops below TTL and within max distance and EVERY "
                  "random tape, the packet the impersonator builds - encoded as Scapy does, dissected as pyp0f does - is matched by the requested signature EXACTLY "
                  "at distance extra_hops (1472-line proof over the models of impersonator, encoder, dissector, option walker and matcher); (2) "
                  "C05_supported_no_raise; (3) one machine-checked C05_refuted_<class> per known finding: a concrete satisfiable signature, admissible base and tape "
                  "on which the output fails. The full statement is false of the code (8 known-finding classes, listed in known_findings.json). " + TIE +
                  " Signatures are generated from witnesses (real packets), the oracle is the verified extractor+matcher applied to bytes(out), the model must "
                  "reproduce bytes(out) byte for byte under the recorded tape (on EVERY case, also inside the known-finding classes), and every case inside the theorem's domain "
                  "is checked to pass; a failure is a KNOWN-FINDING only when the model of the unchanged code fails on that very case and tape too." + GENIMP,
             note="Trusted: as C01/C03; 'satisfiable' is read relative to the base's type and IP version; Scapy's option padding and field packing are modelled in enc_out and exercised by the byte-exact "
                  "tie; failures on signatures inside a known-finding class are reported as KNOWN-FINDING, anything else as VIOLATION. No axioms.",
             tech="Coq proof (impersonate -> encode -> dissect -> match = Exact on Supported; refutations by vm_compute elsewhere) + witness-derived differential run with verified oracle and byte-exact tape replay", ref="DESIGN.md sections 4 C05, 10"),
}
def main():
    checks = []
    for pid in ALL:
        if pid in CLAIMED:
            c = CLAIMED[pid]
            checks.append({"property_id": pid, "quick_cmd": "./check %s --tier quick" % pid,
                           "thorough_cmd": "./check %s --tier thorough" % pid,
                           "evidence_file": "/verif/evidence/%s.json" % pid,
                           "replay_cmd_template": "./check %s --replay {path}" % pid,
                           "engine": "coq-model+correspondence",
                           "level_claimed": {"category": "proof", "text": c["text"], "design_ref": c["ref"]},
                           "level_note": c["note"], "technique": c["tech"]})
    m = {"version": 1,
         "setup_cmd": "cd coq && coq_makefile -f _CoqProject -o Makefile && timeout 3000 make -j16 && cd ../ocaml && make && cd .. && /venv/bin/python -c \"from harness import core; print(core.gen_tie()['ok'], core.gen_tie_imp()['ok'], core.gen_tie_sig()['ok'], core.gen_tie_file()['ok'], core.gen_tie_httpx()['ok'], core.gen_tie_eff()['ok'], core.gen_tie_h11()['ok'], core.gen_tie_re()['ok'])\"",
         "hooks": {"guard": "PYP0F_VERIF",
                   "enable": "no source hooks: harness/worker.py replaces time.time_ns / random.* / builtins.open before importing pyp0f; PYTHONPATH=/repo",
                   "baseline_off_cmd": "cd /repo && /venv/bin/python -m pytest -q -p no:cacheprovider --timeout=900",
                   "source_commits": [], "add_only": True},
         "engines": [{"name": "coq-model+correspondence", "path": "/verif/check", "serves_properties": sorted(CLAIMED),
                      "kind_free_text": "Coq 8.16 theorems about hand-written Gallina models; models extracted to OCaml and run differentially against /repo"}],
         "checks": checks,
         "not_applicable": [{"property_id": p, "reason": "check not built yet (work in progress; DESIGN.md section 8 build order)"} for p in ALL if p not in CLAIMED],
         "notes": "See DESIGN.md. known_findings.json lists repaired ('fixed') and recorded defects."}
    json.dump(m, open(os.path.join(HERE, "MANIFEST.json"), "w"), indent=1)
if __name__ == "__main__":
    main()
