#!/usr/bin/env python3
"""Regenerates MANIFEST.json from the table below (keeps it schema-valid at all times)."""
import json, os
HERE = os.path.dirname(os.path.dirname(os.path.abspath(__file__)))
ALL = ["C%02d" % i for i in range(1, 19)]
TIE = ("Tie to /repo: the hand-written Gallina model is extracted (ExtrOcamlBasic) and run against the working tree's pyp0f on "
       "boundary-directed generated cases plus exhaustive sweeps of the small sub-domains; every disagreement is a replayable "
       "failing input. Assurance = the weaker of proof and tie.")
CLAIMED = {
 "C01": dict(text="Coq theorems for ALL signatures x packet signatures x max_dist: tcp_match <> None <-> Matches (declarative rule set incl. "
                  "version, wildcards, window forms, quirk sets as SETS), exact/fuzzy characterisation, ttl- rule, mask<->set bridge. " + TIE,
             note="Trusted: Coq kernel; extraction+driver; generator/worker; hand-written model of tcp_signatures_match/calculate_window_multiplier "
                  "(tied by differential run incl. TCPSignature.parse of the printed text). No axioms.",
             tech="Coq proof (model = declarative spec) + extracted-model differential correspondence", ref="DESIGN.md section 4 C01"),
 "C17": dict(text="Coq theorems for all packet signatures: the multiplier is window/d for the FIRST dividing entry of the documented divisor list "
                  "(both directions), none iff zero window / MSS<100 / no divisor, the list equals the documented sequence, and no multiplier "
                  "=> mss*N / mtu*N cannot match. " + TIE,
             note="Trusted: Coq kernel; extraction+driver; generator/worker; hand-written model of calculate_window_multiplier. No axioms.",
             tech="Coq proof (first-divisor characterisation) + extracted-model differential correspondence", ref="DESIGN.md section 4 C17"),
 "C02": dict(text="Coq theorems for all databases x packets: the single-pass loop with its two accumulators equals the three 'earliest such record' "
                  "searches (specific exact, generic exact, first fuzzy unless class '!'), the result is a matching member of the consulted list, only "
                  "the packet direction's section is read, distance formula and 0..255 range (via the C01 type theorem), packet gate, unloaded "
                  "database -> DatabaseError. " + TIE,
             note="Trusted: as C01; the packet signature given to the model is the one the implementation extracted from the same bytes "
                  "(extraction is C03's tie). No axioms.",
             tech="Coq proof (loop = declarative selection) + extracted-model differential correspondence through fingerprint_tcp", ref="DESIGN.md section 4 C02"),
 "C13": dict(text="Coq theorems: verdict iff the gate (both timestamps non-zero, wait window, >= 5 ticks mod 2^32, not the grace case); inside the gate "
                  "in-scale -> rounded tps + uptime fields, out-of-scale -> tps -1 (no verdict on a pure SYN); forward progress by d ticks reads d*1000/ms "
                  "also across the 2^32 wrap, a backward step reads non-positive; the rounding table, positivity, monotonicity and idempotence for EVERY "
                  "integer frequency >= 0 (no bound); packet gate. " + TIE,
             note="Trusted: as C01; floats are replaced by exact rationals (argument in DESIGN.md C13; raw_frequency is compared bit-for-bit with the "
                  "correctly rounded quotient); thresholds assumed sane (0 < min scale, min wait >= 1, grace > 0); clock replaced via time.time_ns. No axioms.",
             tech="Coq proof (mod 2^32 arithmetic, rounding over all Z) + extracted-model differential correspondence", ref="DESIGN.md section 4 C13"),
 "C08": dict(text="Coq theorems: MTU = MSS+40/60 and the earliest record with exactly that MTU (first-occurrence characterisation), exact packet gate, "
                  "impersonation round trip (the MSS a dissector reads from the new option list gives back m), other options and their order untouched, "
                  "every former MSS position still an MSS. " + TIE + " The impersonated packet is re-fingerprinted by the real code and all non-option "
                  "header fields are compared.",
             note="Trusted: as C01; options of the base packet are abstracted to MSS / opaque-other by the harness; (fragment,type,version,MSS) given to "
                  "the fingerprint model are those the implementation extracted (C03's tie). No axioms.",
             tech="Coq proof (first-equal record, option-list invariants) + extracted-model differential correspondence", ref="DESIGN.md section 4 C08"),
 "C03": dict(text="Coq theorems: the IPv4 (IHL 5..15, all field values), IPv6 and TCP (all 9 flag bits) dissectors invert the header encoders and yield "
                  "exactly the documented quirk sets; whole-packet composition for both versions (every packet-signature field equals the header "
                  "field); on option areas made of well-formed options the walker reports kinds in wire order, last MSS/scale/timestamp, EOL padding, "
                  "opt+/exws/ts1-/ts2+ in the documented wording; 'bad' is set EXACTLY for the areas that are not well-formed (both directions), and a "
                  "wrong-length fixed-format option is never turned into a value. " + TIE + " Packets are built by a Scapy-free byte builder; Scapy "
                  "dissection sits on the implementation side of the tie.",
             note="Trusted: as C01; Scapy is not modelled (the model answers only for well-framed IPv4/IPv6+TCP datagrams, which the harness builds); IPv6 "
                  "extension headers and link-layer trailers are outside the demand. No axioms.",
             tech="Coq proof (codec inversion, TLV walker soundness+completeness) + extracted-model differential correspondence on raw bytes", ref="DESIGN.md section 4 C03"),
}
def main():
    checks = []
    for pid in ALL:
        if pid in CLAIMED:
            c = CLAIMED[pid]
            checks.append({"property_id": pid, "quick_cmd": "./check %s --tier quick" % pid,
                           "thorough_cmd": "./check %s --tier thorough" % pid,
                           "evidence_file": "/verif/evidence/%s.json" % pid,
                           "replay_cmd_template": "./check %s --replay {path}" % pid,
                           "engine": "coq-model+correspondence",
                           "level_claimed": {"category": "proof", "text": c["text"], "design_ref": c["ref"]},
                           "level_note": c["note"], "technique": c["tech"]})
    m = {"version": 1,
         "setup_cmd": "cd coq && coq_makefile -f _CoqProject -o Makefile && timeout 3000 make -j16 && cd ../ocaml && make",
         "hooks": {"guard": "PYP0F_VERIF",
                   "enable": "no source hooks: harness/worker.py replaces time.time_ns / random.* / builtins.open before importing pyp0f; PYTHONPATH=/repo",
                   "baseline_off_cmd": "cd /repo && /venv/bin/python -m pytest -q -p no:cacheprovider --timeout=900",
                   "source_commits": [], "add_only": True},
         "engines": [{"name": "coq-model+correspondence", "path": "/verif/check", "serves_properties": sorted(CLAIMED),
                      "kind_free_text": "Coq 8.16 theorems about hand-written Gallina models; models extracted to OCaml and run differentially against /repo"}],
         "checks": checks,
         "not_applicable": [{"property_id": p, "reason": "check not built yet (work in progress; DESIGN.md section 8 build order)"} for p in ALL if p not in CLAIMED],
         "notes": "See DESIGN.md. known_findings.json lists repaired ('fixed') and recorded defects."}
    json.dump(m, open(os.path.join(HERE, "MANIFEST.json"), "w"), indent=1)
if __name__ == "__main__":
    main()
