#!/bin/bash
# usage: seed_detect.sh <id> [props...]  -- apply seeded/<id>/patch.diff to /repo, run the quick checks, undo.
set -u
id=$1; shift
d=/verif/seeded/$id
props="$@"
[ -z "$props" ] && props=$(python3 -c "import json;print(json.load(open('$d/confirm.json'))['property'])")
cd /verif
[ -n "$(git -C /repo status --porcelain)" ] && { echo "/repo not clean"; exit 2; }
mkdir -p /tmp/evsave && cp -r evidence /tmp/evsave/ 2>/dev/null
git -C /repo apply $d/patch.diff || exit 3
res=""
for p in $props; do
  out=$(./check $p --tier quick 2>&1); rc=$?
  v=$(echo "$out" | grep -c '^VIOLATION')
  echo "$out" | grep -E '^VIOLATION|^\[' | head -4
  res="$res $p:rc=$rc:violations=$v"
  mkdir -p $d/replays; for f in $(echo "$out" | grep '^VIOLATION' | sed 's/.*replay=\([^ ]*\).*/\1/' | head -2); do cp $f $d/replays/ 2>/dev/null; done
done
git -C /repo checkout -- .
cp -r /tmp/evsave/evidence/* evidence/ 2>/dev/null
echo "DETECT $id:$res"
python3 - <<PY
import json,os
p="$d/detect.json"
json.dump({"id":"$id","results":"$res".split()}, open(p,"w"), indent=1)
PY
