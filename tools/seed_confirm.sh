#!/bin/bash
# usage: seed_confirm.sh <prop> <srcdir> <i> <id>   -- confirm a seeded change in a scratch worktree
# (tests pass with it, demo fails with it and passes without), then store it under /verif/seeded/<id>/
set -u
prop=$1; src=$2; i=$3; id=$4
wt=/tmp/mut/verify-$id
out=/verif/seeded/$id
mkdir -p $out
git -C /repo worktree remove --force $wt >/dev/null 2>&1
git -C /repo worktree add -q --detach $wt HEAD || exit 2
cp $src/patch$i.diff $out/patch.diff; cp $src/demo$i.py $out/demo.py; cp $src/notes$i.md $out/notes.md 2>/dev/null
cd $wt
PYTHONPATH=$wt /venv/bin/python $out/demo.py > $out/demo_clean.log 2>&1; clean_rc=$?
git apply $out/patch.diff || { echo "patch does not apply" > $out/confirm.log; git -C /repo worktree remove --force $wt; exit 3; }
PYTHONPATH=$wt /venv/bin/python $out/demo.py > $out/demo_changed.log 2>&1; changed_rc=$?
PYTHONPATH=$wt /venv/bin/python -m pytest -q -p no:cacheprovider --timeout=900 2>&1 | tail -1 > $out/pytest.log
tests=$(cat $out/pytest.log)
cd /; git -C /repo worktree remove --force $wt
python3 - <<PY
import json
json.dump({"property":"$prop","id":"$id","demo_rc_unchanged":$clean_rc,"demo_rc_changed":$changed_rc,"pytest_with_change":"""$tests""".strip(),
  "confirmed": $clean_rc==0 and $changed_rc!=0 and " passed" in """$tests""" and "failed" not in """$tests"""}, open("$out/confirm.json","w"), indent=1)
PY
cat $out/confirm.json
