#!/usr/bin/env python3
"""For every seeded change: apply it to the repository copy in $PYP0F_REPO, run the quick checks, undo it.
Writes seeded/matrix.json {id: {prop: {"rc":..,"violations":..,"first":..}}}.  usage: seed_matrix.py [all|own] [ids...]"""
import json, os, subprocess, sys, glob, time
HERE = os.path.dirname(os.path.dirname(os.path.abspath(__file__)))
REPO = os.environ.get("PYP0F_REPO", "/repo")
mode = sys.argv[1] if len(sys.argv) > 1 else "own"
ids = sys.argv[2:] or sorted(os.path.basename(d.rstrip("/")) for d in glob.glob(HERE + "/seeded/*/") if os.path.exists(d + "patch.diff"))
PROPS = ["C%02d" % i for i in range(1, 19)]
out_path = HERE + "/seeded/matrix.json"
matrix = json.load(open(out_path)) if os.path.exists(out_path) else {}
assert not subprocess.run("git -C %s status --porcelain" % REPO, shell=True, capture_output=True, text=True).stdout.strip(), "repo copy not clean"
for i in ids:
    d = HERE + "/seeded/" + i
    own = i.split("-")[0]
    props = PROPS if mode == "all" else [own]
    if subprocess.run("git -C %s apply %s/patch.diff" % (REPO, d), shell=True).returncode:
        matrix.setdefault(i, {})["_apply"] = "FAILED"
        continue
    try:
        for p in props:
            t0 = time.time()
            r = subprocess.run(["./check", p, "--tier", "quick"], cwd=HERE, capture_output=True, text=True, env=dict(os.environ, PYP0F_REPO=REPO, VERIF_EVIDENCE_DIR=HERE + "/work/evidence-seeded"))
            viol = [l for l in r.stdout.split("\n") if l.startswith("VIOLATION")]
            kinds = [l.strip()[3:] for l in r.stderr.split("\n") if l.strip().startswith("-> ")]
            matrix.setdefault(i, {})[p] = {"rc": r.returncode, "violations": len(viol), "first": kinds[0] if kinds else None, "s": round(time.time() - t0, 1)}
            print(i, p, r.returncode, len(viol), kinds[:1], flush=True)
    finally:
        subprocess.run("git -C %s checkout -- . && git -C %s clean -fdq" % (REPO, REPO), shell=True)
    json.dump(matrix, open(out_path, "w"), indent=1, sort_keys=True)
