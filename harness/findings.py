"""Class predicates for known findings (keyed by call site + a predicate on the INPUT, so that a different
failure of the same property is still reported)."""
from harness import tcpgen as G

KNOWN_KINDS = {0, 1, 2, 3, 4, 5, 8}
SIZES = {1: 1, 2: 4, 3: 3, 4: 2, 8: 10}


def parse_sig_text(t):
    """Light structural reading of a signature text (harness side; used only for classification)."""
    p = t.split(":")
    lay = p[5].split(",") if p[5] else []
    kinds, eol = [], None
    for o in lay:
        if o.startswith("eol+"):
            kinds.append(0)
            eol = int(o[4:])
        elif o.startswith("?"):
            kinds.append(int(o[1:]))
        else:
            kinds.append({"nop": 1, "mss": 2, "ws": 3, "sok": 4, "sack": 5, "ts": 8}[o])
    w, _, sc = p[4].partition(",")
    return {"ver": p[0], "ttl": p[1], "olen": int(p[2]), "mss": p[3], "win": w, "scale": sc, "kinds": kinds, "eol": eol,
            "quirks": p[6].split(",") if p[6] else [], "pay": p[7]}


def c05_class(c, ir, mr, verdict):
    s = parse_sig_text(c["sig"])
    q = s["quirks"]
    if s["olen"] != 0:
        return "KF-olen"
    if any(k not in KNOWN_KINDS for k in s["kinds"]):
        return "KF-unknown-kind"
    if "bad" in q:
        return "KF-bad"
    if "opt+" in q:
        return "KF-opt+"
    if 0 in s["kinds"]:
        if s["kinds"].index(0) != len(s["kinds"]) - 1:
            return None
        L = sum(SIZES.get(k, 0) for k in s["kinds"] if k not in (0, 5)) + 12 * s["kinds"].count(5)   # sack sizes are all = 2 mod 4 -> same residue as 12
        L = sum(SIZES[k] for k in s["kinds"] if k in SIZES) + 10 * s["kinds"].count(5)
        if s["eol"] != (-(L + 1)) % 4:
            return "KF-eol-pad"
    if 5 in s["kinds"]:
        return "KF-sack"
    if any(s["kinds"].count(k) > 1 for k in (2, 3, 8)):
        return "KF-repeated-option"
    if s["win"].startswith("mtu*"):
        return "KF-window-search"
    if s["win"].startswith("mss*"):
        n = int(s["win"][4:])
        # free MSS: the code draws it from [100, 65535 // N] and writes MSS*N, which p0f reads back as mss*N through the first
        # divisor; only when that range is empty (N > 655) would a satisfying packet have to be searched via the other divisors
        if (s["mss"] == "*" and 65535 // n < 100) or (s["mss"] != "*" and (int(s["mss"]) * n > 65535 or int(s["mss"]) < 100)):
            return "KF-window-search"
    return None


def scapy_ao_short(opt_area):
    """Scapy 2.7 cannot dissect a TCP segment whose option walk (scapy.layers.inet.TCPOptionsField.m2i) reaches option kind 29
    (TCP-AO) with length byte 3: TCPAOValue needs two bytes.  The TCP layer is then missing altogether and pyp0f answers
    PacketError.  This mirrors Scapy's walk (not p0f's) to decide whether a given option area is in that class."""
    x = bytes(opt_area)
    while x:
        k = x[0]
        if k == 0:
            return False
        if k == 1:
            x = x[1:]
            continue
        olen = x[1] if len(x) > 1 else 0
        if olen < 2:
            olen = 2
        if k == 29 and len(x[2:olen]) == 1:
            return True
        x = x[olen:]
    return False


def spec_opt_area(spec):
    return bytes.fromhex(spec.get("opts", ""))


def raw_opt_area(raw, v):
    """TCP option area of a raw datagram the way the model frames it (best effort; used for classification only)."""
    try:
        t = (raw[0] & 15) * 4 if v == 4 else 40
        doff = (raw[t + 12] >> 4) * 4
        return raw[t + 20:t + doff]
    except Exception:
        return b""
