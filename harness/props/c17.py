"""C17: window multiplier by the documented divisor order."""
from harness import tcpgen as G

RULE = ("packet signatures with windows built as k*d for each candidate divisor d (so every position of the divisor "
        "list is the first hit somewhere, with deliberate collisions), MSS around 100, both IP versions, header "
        "lengths 40..120, peer MSS incl. <12; plus SYN / SYN+ACK wire packets whose signature is built by from_packet() with the peer MSS "
        "passed as fingerprint_tcp passes it, and signatures that match the packet in everything but carry mss*N / mtu*N with N the packet's multiplier or one off (peer MSS equal to / 12 above the own MSS, windows k*peer, k*(peer-12)); non-trivial = the model finds a multiplier (value != -1); distinct by input")
GEN_TIE = ['match']     # the anchored decision functions are also TRANSLATED from /repo's source on every run and proved equal to the model
ASSUMPTIONS = ["'timestamp present' is read as ts1 != 0 (p0f's and the code's rule)"]
EXHAUSTIVE = {"mss 95..105 x win in {k*mss, k*(mss-12)} small grid": True}


def generate(R, tier):
    n = 20000 if tier == "quick" else 2000000
    for mss in range(95, 106):
        for ver in (4, 6):
            for ts1 in (0, 7):
                for win in (0, mss, 2 * mss, 3 * (mss - 12), mss + 40, 2 * (mss + 60), 1460, 1448 * 2, 1440, 1428 * 3, 3000):
                    yield {"stream": "grid", "pkt": {"ver": ver, "olen": 0, "ttl": 64, "win": win, "layout": [2], "mss": mss, "ws": 0,
                                                     "ts1": ts1, "eol": 0, "hdr": 60 if ver == 4 else 80, "pay": False, "quirks": 0, "syn_mss": 0}}
    for _ in range(n // 4):
        p = G.rand_pkt(R)
        yield {"stream": "aimed", "pkt": p}
        # siblings differing in exactly one input of the rule, evaluated right after (same process):
        # a result remembered under too coarse a key shows up here
        for _ in range(3):
            k = R.choice(["ts1", "hdr", "syn_mss", "ver", "mss", "win"])
            q = dict(p)
            if k == "ts1":
                q["ts1"] = 0 if p["ts1"] else 12345
            elif k == "hdr":
                q["hdr"] = R.choice([x for x in (40, 44, 52, 60, 64, 80) if x != p["hdr"]])
            elif k == "syn_mss":
                q["syn_mss"] = R.choice([0, 1380, 536, 1460, p["win"] // 3 or 7, p["win"] // 5 or 9])
            elif k == "ver":
                q["ver"] = 10 - p["ver"]
            elif k == "mss":
                q["mss"] = R.choice([p["mss"] + 12, max(0, p["mss"] - 12), 1460])
            else:
                q["win"] = R.choice([(p["mss"] - 12) * 4 % 65536 if p["mss"] > 12 else 0, (p["mss"] + p["hdr"]) * 2 % 65536, p["win"] // 2])
            yield {"stream": "sibling-" + k, "pkt": q}
    # the last sentence of the property: which of mss*N / mtu*N signatures can match (everything else in the signature matches)
    for _ in range(n // 8):
        p = G.rand_pkt(R)
        sg = G.matching_sig(R, p, 35)
        wm = G.model_win_multi(p)
        sg["wtype"] = R.choice([3, 4])
        sg["wsize"] = max(1, min(1000, (wm[0] if wm else R.choice([1, 2, 4])) + R.choice([0, 0, 0, 1])))
        G.legal_quirks(sg)
        yield {"stream": "match-mss*N" if sg["wtype"] == 3 else "match-mtu*N", "pkt": p, "sig": sg, "md": 35}
    # through fingerprint_tcp itself (C02's case format): divisors below 100 (MSS-12 for MSS 100..111 with a timestamp, a small peer MSS
    # on a SYN+ACK) still give a multiplier, and the mss*N record must be found
    for _ in range(n // 40):
        ty = R.choice([2, 0x12])
        spec, p, ty = G.rand_wire_pkt(R, flags=ty)
        spec["mf"], spec["frag"] = False, 0
        k = R.choice([1, 2, 3, 4, 5, 7])
        if ty == 0x12 and R.random() < 0.6:
            syn_mss = R.choice([13, 24, 64, 99, 100, 111, 112])
            d = R.choice([syn_mss, syn_mss - 12])
        else:
            syn_mss = 0
            d = None
        p["syn_mss"] = syn_mss if ty == 0x12 else 0
        if d is None or d <= 0:
            d = p["mss"] - 12 if (p["ts1"] and 100 <= p["mss"] <= 140) else p["mss"]
        p["win"] = spec["win"] = max(0, min(65535, d * k))
        sg = G.matching_sig(R, p, 35)
        wm = G.model_win_multi(p)
        if wm and 1 <= wm[0] <= 1000:
            sg["wtype"], sg["wsize"] = 3 + wm[1], wm[0]
        G.legal_quirks(sg)
        sg["dist"] = 0
        sec = "request" if ty == 2 else "response"
        lines = ["[tcp:%s]" % sec, "label = s:unix:X:y", "sig = " + G.sig_text(sg)]
        yield {"stream": "api-small-divisor", "api": True, "md": 35, "syn_mss": syn_mss, "spec": spec, "lines": lines, "pkt": p,
               "secs": {sec: [{"line": 3, "generic": False, "userapp": False, "sig": sg}]}}
    # through the packet path: the signature is built by from_packet() from real bytes, the peer MSS is passed as fingerprint_tcp does
    for _ in range(n // 8):
        ty = R.choice([2, 0x12, 0x12, 0x12])
        spec, p, ty = G.rand_wire_pkt(R, flags=ty)
        if p["mss"] < 100 and R.random() < 0.7:
            continue
        syn_mss = min(65535, R.choice([0, p["mss"], p["mss"], p["mss"] + 12, 1380, 536, 1460, 1400, R.randrange(0, 65536)]))
        p["syn_mss"] = syn_mss if ty == 0x12 else 0
        if ty == 0x12 and syn_mss > 12 and R.random() < 0.6:
            d = R.choice([syn_mss, syn_mss - 12])
            k = R.choice([1, 2, 3, 4, 5, 10, 44])
            p["win"] = spec["win"] = d * k if d * k <= 65535 else d
        else:
            p["win"] = spec["win"] = G.aim_window(R, p)
        spec["mf"] = False
        spec["frag"] = 0
        old = "0204%04x" % p["mss"]
        if p["mss"] > 0 and spec["opts"].count(old) == 1 and spec["opts"].index(old) % 2 == 0 and R.random() < 0.04:
            # an MSS too large for any datagram (Linux over IPv6 loopback announces 65476 with window 65476): a value like any other for the divisor rule
            big = R.choice([65535, 65496, 65495, 65476, 65475, 65500])
            spec["opts"] = spec["opts"].replace(old, "0204%04x" % big, 1)
            p["mss"] = big
            p["win"] = spec["win"] = R.choice([big, big, (big + p["hdr"]) if big + p["hdr"] <= 65535 else big, big - 12])
        yield {"stream": "wire-syn" if ty == 2 else "wire-synack", "pkt": p, "spec": spec, "syn_mss": syn_mss}


def model_cases(cases, impl_res, run_model):
    from harness.props import c02
    out = [None] * len(cases)
    api = [i for i, c in enumerate(cases) if c.get("api")]
    for i, r in zip(api, c02.model_cases([cases[i] for i in api], [impl_res[i] for i in api], run_model)):
        out[i] = r
    rest = [i for i, c in enumerate(cases) if not c.get("api")]
    for i, r in zip(rest, run_model([model_line(cases[i]) for i in rest])):
        out[i] = r
    return out


def model_line(c):
    if "sig" in c:
        return "tcp_match %d %s %s" % (c["md"], G.enc_sig(c["sig"]), G.enc_pkt(c["pkt"]))
    return "win_multi " + G.enc_pkt(c["pkt"])


def impl_init():
    from pyp0f.net.layers.tcp import TCPOptions
    from pyp0f.net.quirks import Quirk
    from pyp0f.net.signatures import TCPPacketSignature

    from harness.props import c02
    api_impl = c02.impl_init()

    from harness import implutil as _U
    MTU_DB = _U.load_db("[mtu]\nlabel = Ethernet\nsig = 1500\n")

    def impl(c):
        p = c["pkt"]
        if c.get("api"):
            return api_impl(c)
        if "spec" in c:
            from pyp0f.net.packet import parse_packet
            from harness import implutil as U
            from harness.props import c16
            sp = c["spec"]
            if c16.simple_opts(sp.get("opts", "")) and not sp.get("ipopts") and (sp.get("win", 0) + c["syn_mss"]) % 3 == 0:
                # the caller's ONE Scapy object, parsed before with another window, then updated in place: the multiplier follows the window it has now
                obj = U.scapy_reused_window(sp, parse_packet)
            else:
                obj = U.scapy_from_spec(sp)
            k = parse_packet(obj)
            if (sp.get("win", 0) // 3 + c["syn_mss"]) % 2 == 0:
                # the parsed Packet has been through fingerprint_mtu first (an unloaded database: the call raises after looking at the packet, or not): same packet afterwards
                from pyp0f.exceptions import DatabaseError, PacketError
                from pyp0f.fingerprint import fingerprint_mtu
                from pyp0f.options import Options
                try:
                    fingerprint_mtu(k, options=Options(database=MTU_DB))
                except (DatabaseError, PacketError):
                    pass
            ps = TCPPacketSignature.from_packet(k, c["syn_mss"])
            if (sp.get("win", 0) // 7 + c["syn_mss"]) % 3 == 0:
                # the signature has served as the REFERENCE of an uptime measurement in between (a later ACK of the same host, one second on, whose timestamp
                # has jumped out of every plausible range): it still describes its packet, and so does the multiplier computed from it afterwards
                import time
                from pyp0f.exceptions import PacketError
                from pyp0f.fingerprint import fingerprint_uptime
                from harness import wire as W
                real = time.time_ns
                try:
                    time.time_ns = lambda: ps.received * 10 ** 6 + 10 ** 9
                    later = U.scapy_from_spec({"v": W.full(sp)["v"], "flags": 0x10, "ack": 1, "seq": 5, "opts": "0101" + W.o_ts((ps.options.timestamp + 10 ** 7) % 2 ** 32 or 1, 1)})
                    fingerprint_uptime(later, ps)
                except PacketError:
                    pass
                finally:
                    time.time_ns = real
            wm = ps.window_multiplier
            return [wm.value, bool(wm.is_mtu)]
        ps = TCPPacketSignature(ip_version=p["ver"], ip_options_length=p["olen"], ttl=p["ttl"], window_size=p["win"],
                                options=TCPOptions(layout=list(p["layout"]), quirks=Quirk(0), mss=p["mss"], timestamp=p["ts1"],
                                                   window_scale=p["ws"], eol_padding_length=p["eol"]),
                                headers_length=p["hdr"], has_payload=bool(p["pay"]), quirks=Quirk(p["quirks"]), syn_mss=p["syn_mss"])
        if "sig" in c:
            from pyp0f.database.signatures.tcp import TCPSignature
            from pyp0f.fingerprint.tcp import tcp_signatures_match
            from pyp0f.options import Options
            r = tcp_signatures_match(TCPSignature.parse(G.sig_text(c["sig"])), ps, Options(max_dist=c["md"]))
            wm = ps.window_multiplier
            return [None if r is None else r.name, [wm.value, bool(wm.is_mtu)]]
        wm = ps.window_multiplier
        wm2 = ps.calculate_window_multiplier()
        if (wm.value, wm.is_mtu) != (wm2.value, wm2.is_mtu):
            return {"exc": "cache-mismatch"}
        return [wm.value, bool(wm.is_mtu)]
    return impl


def outcome(c, ir, mr):
    if c.get("api"):
        from harness.props import c02
        return "api:" + c02.outcome(c, ir, mr)
    if "sig" in c:
        return "sig:" + (str(mr[0]) if isinstance(mr, list) else "model-error")
    if isinstance(mr, list):
        return "none" if mr[0] == -1 else ("mtu" if mr[1] else "mss")
    return "model-error"


def nontrivial(c, ir, mr):
    if c.get("api"):
        return isinstance(mr, dict) and "ok" in mr and mr["ok"][0] is not None
    if "sig" in c:
        return isinstance(mr, list) and mr[0] is not None
    return isinstance(mr, list) and mr[0] != -1


def judge(c, ir, mr):
    if ir == mr:
        return None
    if c.get("api"):
        from harness.props import c02
        v = c02.judge(c, ir, mr)
        if v:
            v["kind"] = "fingerprint_tcp does not find the mss*N / mtu*N record although the window is that multiple (or finds one although it is not)"
        return v
    if "sig" in c:
        return {"kind": "an mss*N / mtu*N signature matches although the window is not that multiple (or fails to match although it is)",
                "why": "sig %r: impl %s, verified model %s" % (G.sig_text(c["sig"]), ir, mr), "judged_by": "C17_no_match / C01_match_iff"}
    return {"kind": "multiplier differs from the first-dividing-divisor rule", "why": "impl %s, verified model %s" % (ir, mr),
            "judged_by": "C17_first / C17_first_inv / C17_none (the model is proved to follow the documented order)"}


def shrink(c):
    p = c["pkt"]
    for k, v in (("quirks", 0), ("layout", [2]), ("olen", 0), ("ttl", 64), ("ws", 0), ("eol", 0), ("pay", False), ("syn_mss", 0), ("ts1", 0)):
        if p[k] != v:
            yield dict(c, pkt=dict(p, **{k: v}))


COQ_CHECKER = "check_wm"


def coq_case(c, mr):
    return "(%s, %s)" % (G.coq_pkt(c["pkt"]), G.coq_wm(mr)) if isinstance(mr, list) else None
