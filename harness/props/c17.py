"""C17: window multiplier by the documented divisor order."""
from harness import tcpgen as G

RULE = ("packet signatures with windows built as k*d for each candidate divisor d (so every position of the divisor "
        "list is the first hit somewhere, with deliberate collisions), MSS around 100, both IP versions, header "
        "lengths 40..120, peer MSS incl. <12; non-trivial = the model finds a multiplier (value != -1); distinct by input")
GEN_TIE = True     # the anchored decision functions are also TRANSLATED from /repo's source on every run and proved equal to the model
ASSUMPTIONS = ["'timestamp present' is read as ts1 != 0 (p0f's and the code's rule)"]
EXHAUSTIVE = {"mss 95..105 x win in {k*mss, k*(mss-12)} small grid": True}


def generate(R, tier):
    n = 20000 if tier == "quick" else 2000000
    for mss in range(95, 106):
        for ver in (4, 6):
            for ts1 in (0, 7):
                for win in (0, mss, 2 * mss, 3 * (mss - 12), mss + 40, 2 * (mss + 60), 1460, 1448 * 2, 1440, 1428 * 3, 3000):
                    yield {"stream": "grid", "pkt": {"ver": ver, "olen": 0, "ttl": 64, "win": win, "layout": [2], "mss": mss, "ws": 0,
                                                     "ts1": ts1, "eol": 0, "hdr": 60 if ver == 4 else 80, "pay": False, "quirks": 0, "syn_mss": 0}}
    for _ in range(n // 4):
        p = G.rand_pkt(R)
        yield {"stream": "aimed", "pkt": p}
        # siblings differing in exactly one input of the rule, evaluated right after (same process):
        # a result remembered under too coarse a key shows up here
        for _ in range(3):
            k = R.choice(["ts1", "hdr", "syn_mss", "ver", "mss", "win"])
            q = dict(p)
            if k == "ts1":
                q["ts1"] = 0 if p["ts1"] else 12345
            elif k == "hdr":
                q["hdr"] = R.choice([x for x in (40, 44, 52, 60, 64, 80) if x != p["hdr"]])
            elif k == "syn_mss":
                q["syn_mss"] = R.choice([0, 1380, 536, 1460, p["win"] // 3 or 7, p["win"] // 5 or 9])
            elif k == "ver":
                q["ver"] = 10 - p["ver"]
            elif k == "mss":
                q["mss"] = R.choice([p["mss"] + 12, max(0, p["mss"] - 12), 1460])
            else:
                q["win"] = R.choice([(p["mss"] - 12) * 4 % 65536 if p["mss"] > 12 else 0, (p["mss"] + p["hdr"]) * 2 % 65536, p["win"] // 2])
            yield {"stream": "sibling-" + k, "pkt": q}


def model_line(c):
    return "win_multi " + G.enc_pkt(c["pkt"])


def impl_init():
    from pyp0f.net.layers.tcp import TCPOptions
    from pyp0f.net.quirks import Quirk
    from pyp0f.net.signatures import TCPPacketSignature

    def impl(c):
        p = c["pkt"]
        ps = TCPPacketSignature(ip_version=p["ver"], ip_options_length=p["olen"], ttl=p["ttl"], window_size=p["win"],
                                options=TCPOptions(layout=list(p["layout"]), quirks=Quirk(0), mss=p["mss"], timestamp=p["ts1"],
                                                   window_scale=p["ws"], eol_padding_length=p["eol"]),
                                headers_length=p["hdr"], has_payload=bool(p["pay"]), quirks=Quirk(p["quirks"]), syn_mss=p["syn_mss"])
        wm = ps.window_multiplier
        wm2 = ps.calculate_window_multiplier()
        if (wm.value, wm.is_mtu) != (wm2.value, wm2.is_mtu):
            return {"exc": "cache-mismatch"}
        return [wm.value, bool(wm.is_mtu)]
    return impl


def outcome(c, ir, mr):
    if isinstance(mr, list):
        return "none" if mr[0] == -1 else ("mtu" if mr[1] else "mss")
    return "model-error"


def nontrivial(c, ir, mr):
    return isinstance(mr, list) and mr[0] != -1


def judge(c, ir, mr):
    if ir == mr:
        return None
    return {"kind": "multiplier differs from the first-dividing-divisor rule", "why": "impl %s, verified model %s" % (ir, mr),
            "judged_by": "C17_first / C17_first_inv / C17_none (the model is proved to follow the documented order)"}


def shrink(c):
    p = c["pkt"]
    for k, v in (("quirks", 0), ("layout", [2]), ("olen", 0), ("ttl", 64), ("ws", 0), ("eol", 0), ("pay", False), ("syn_mss", 0), ("ts1", 0)):
        if p[k] != v:
            yield dict(c, pkt=dict(p, **{k: v}))


COQ_CHECKER = "check_wm"


def coq_case(c, mr):
    return "(%s, %s)" % (G.coq_pkt(c["pkt"]), G.coq_wm(mr)) if isinstance(mr, list) else None
