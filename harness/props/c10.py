"""C10: malformed databases are rejected with a line-numbered DatabaseError."""
import os
from harness import dbgen as D
from harness.props import c09

RULE = ("single-fault corruptions of generated valid files (per sig field: empty, out-of-range low/high, non-numeric, unknown keyword, "
        "stray separators; per line: delete, duplicate, move, unknown parameter, bad section/direction, bad label, out-of-place "
        "sig/label/sys), loaded alternately into a fresh and into ONE long-lived Database through one path, all sequences of <= 3 line kinds from a 19-kind alphabet (thorough: <= 4), unreadable paths; observable = "
        "exception class and .line_number, or the loaded database; non-trivial = the model rejects the file")
ASSUMPTIONS = ["'comment line' = ';' in column 0 (the code's own rule); int() leniency ('+5', ' 5', '6_4') is not an error"]
GEN_TIE = ["sig", "file", "httpx"]   # TCPSignature.parse / MTUSignature.parse and their field parsers are also TRANSLATED (translate/sig2coq.py) on every run and proved equal to the model (Gen/GenSigP.v); so are the line loop of _parse_file, _parse_section, labels and RecordsDatabase.create/add (translate/file2coq.py, Gen/GenFileP.v)
EXHAUSTIVE = {"all sequences of <= 3 line kinds over 19 kinds": True,
              "every value of the per-field boundary catalogue (dbgen.*_FAULTS) in an otherwise valid one-record file": True}
OK_EXC = {"ParsingError", "DatabaseError"}


def generate(R, tier):
    n = 10000 if tier == "quick" else 1000000
    K = D.KIND_LINES
    depth = 3 if tier == "quick" else 4

    def seqs(prefix, d):
        yield prefix
        if d:
            for k in K:
                yield from seqs(prefix + [k], d - 1)
    for s in seqs([], depth):
        yield {"stream": "kind-sequences", "lines": s}
    base = "*:64:0:*:mss*20,7:mss,sok,ts,nop,ws:df,id+:0".split(":")
    def tcp_file(parts):
        return ["[tcp:request]", "label = s:unix:Linux:3.x", "sig = " + ":".join(parts)]
    for j, vals in D.TCP_FIELD_FAULTS.items():
        for v in vals:
            for ver in ("*", "4", "6"):
                p = list(base); p[0] = ver; p[j] = v
                yield {"stream": "boundary-catalogue", "lines": tcp_file(p), "fault": "tcp field %d := %r" % (j, v)}
    for v in D.WIN_FAULTS:
        for sc in ("7", "*"):
            p = list(base); p[4] = v + "," + sc
            yield {"stream": "boundary-catalogue", "lines": tcp_file(p), "fault": "window := %r" % v}
    for v in D.SCALE_FAULTS:
        p = list(base); p[4] = "8192," + v
        yield {"stream": "boundary-catalogue", "lines": tcp_file(p), "fault": "scale := %r" % v}
    for v in D.OPT_FAULTS:
        for lay in (v, "mss," + v, v + ",nop", "mss," + v + ",ws"):
            p = list(base); p[5] = lay
            yield {"stream": "boundary-catalogue", "lines": tcp_file(p), "fault": "option := %r" % v}
    for v in D.MTU_FAULTS:
        yield {"stream": "boundary-catalogue", "lines": ["[mtu]", "label = X", "sig = " + v], "fault": "mtu := %r" % v}
    for v in D.HTTP_VER_FAULTS:
        yield {"stream": "boundary-catalogue", "lines": ["[http:request]", "label = s:!:curl:", "sys = Linux", "sig = %s:Host,?Accept=[x]:Via:curl" % v], "fault": "http version := %r" % v}
    yield {"stream": "unreadable", "path": "missing"}
    yield {"stream": "unreadable", "path": "directory"}
    yield {"stream": "unreadable", "path": "invalid-utf8-first-line"}
    yield {"stream": "unreadable", "path": "invalid-utf8-late"}
    # path strings that cannot be opened at all
    for q in ("nul-in-path", "unknown-user-home", "empty", "too-long", "not-a-directory-component"):
        yield {"stream": "unreadable", "path": q}
    for _ in range(n):
        base = D.valid_file(R, small=R.random() < 0.7)
        lines, what = D.corrupt(R, base)
        if R.random() < 0.1:
            lines, w2 = D.corrupt(R, lines)
            what += "; " + w2
        c = {"stream": "corrupted", "lines": lines, "fault": what}
        if R.random() < 0.4:          # the same fault in a file that also carries exotic whitespace, non-ASCII comments and \r\n / \r line ends
            c["stream"] = "corrupted-exotic"
            c["lines"] = lines = c09.decorate(R, lines)
            c["terms"] = [R.choice(["\n"] * 6 + ["\r\n", "\r"]) for _ in lines]
        yield c


def model_cases(cases, impl_res, run_model):
    out = [None] * len(cases)
    idx = [i for i, c in enumerate(cases) if "path" not in c]
    for i, r in zip(idx, run_model([c09.model_line(cases[i]) for i in idx])):
        out[i] = r
    for i, c in enumerate(cases):
        if "path" in c:
            out[i] = {"err": "DatabaseError"}     # property text: an unreadable file raises DatabaseError (open() is not modelled)
    return out


def impl_init():
    from pyp0f.database import Database
    from harness import implutil as U

    kept = [Database(), 0]

    def impl(c):
        if "path" in c and c["path"].startswith("invalid-utf8"):
            # not text at all: bytes that are not UTF-8 (in the first line / only after valid records)
            p = os.path.join(U._TMP, "c10-bin-%d.fp" % os.getpid())
            os.makedirs(U._TMP, exist_ok=True)
            body = b"\xff\xfe[mtu]\n" if c["path"].endswith("first-line") else b"[mtu]\nlabel = A\nsig = 1500\n" + b"x" * 20000 + b"\nlabel = \xc3\x28\nsig = 1400\n"
            with open(p, "wb") as f:
                f.write(body)
            try:
                Database().load(p)
            finally:
                os.unlink(p)
            return {"ok": "loaded?!"}
        if "path" in c:
            p = {"missing": "/nonexistent/dir/p0f.fp", "nul-in-path": "p0f\0.fp", "unknown-user-home": "~no-such-user-xyz/p0f.fp", "empty": "",
                 "too-long": "x" * 5000, "not-a-directory-component": os.path.abspath(__file__) + "/p0f.fp"}.get(c["path"], os.path.dirname(os.path.abspath(__file__)))
            if kept[1] % 2:
                import pathlib
                p = pathlib.Path(p) if c["path"] != "empty" else p
            Database().load(p)
            return {"ok": "loaded?!"}
        # two of three loads go into ONE long-lived Database object (through the same path, usually within the same second):
        # what load() does with a file may not depend on what that object, or that path, was loaded with before
        kept[1] += 1
        db = U.load_db(c09.text_of(c), None if kept[1] % 3 == 0 else kept[0])
        return {"ok": U.dump_db(db)}
    return impl


def canon_impl(ir):
    if isinstance(ir, dict) and "exc" in ir:
        if ir["exc"] == "ParsingError":
            return {"err": "ParsingError", "line": ir.get("line")}
        if ir["exc"] == "DatabaseError":
            return {"err": "DatabaseError"}
    return ir


def outcome(c, ir, mr):
    if isinstance(mr, dict) and "ok" in mr:
        return "accepted"
    return mr.get("err", "?") if isinstance(mr, dict) else "model-error"


def nontrivial(c, ir, mr):
    return isinstance(mr, dict) and "err" in mr


def judge(c, ir, mr):
    if isinstance(ir, dict) and "exc" in ir and ir["exc"] not in OK_EXC:
        return {"kind": "an exception other than DatabaseError/ParsingError escaped", "why": "%s (%s)" % (ir["exc"], ir.get("msg")),
                "judged_by": "C10_no_crash"}
    mr = c09.canon_model(mr)
    if canon_impl(ir) == mr:
        return None
    if isinstance(mr, dict) and "err" in mr:
        kind = "malformed file accepted or reported at the wrong line"
    else:
        kind = "well-formed file rejected or loaded differently"
    return {"kind": kind, "why": "%s: impl %s model %s" % (c.get("fault", ""), str(canon_impl(ir))[:300], str(mr)[:300]),
            "judged_by": "C10_line / C10_ranges (the model rejects exactly the grammar violations, at the first offending line)"}


def shrink(c):
    ls = c.get("lines") or []
    for i in range(len(ls)):
        yield dict(c, lines=ls[:i] + ls[i + 1:])
