"""C11: database (re)load is atomic, idempotent and never observed half-done."""
from harness import dbgen as D
from harness.props import c09

RULE = ("histories of <= 8 loads over good file A / good file B (other sections) / the same file again / bad files with the fault at "
        "every line position / files above 64 KiB (complete only when read to the end, fault on the last line) / bad files that differ from a good one only in the IP version of a signature whose quirk list is legal for the other version / unreadable paths, on ONE shared Database object; an observer takes a full snapshot (every section via "
        "iter_values + len) at EVERY line-read point of every load (wrapped file iterator) and after every return; each snapshot must "
        "equal the complete contents of the version the model says is visible; contents after a successful load must equal a fresh "
        "load of that file alone; before any successful load every section raises DatabaseError; non-trivial = history with >= 1 "
        "successful and >= 1 failed load")
ASSUMPTIONS = ["observation granularity is the line-read point stated in the property (bytecode-level races inside one dict access are outside it)",
               "thorough tier adds a real concurrent reader thread (old-or-new only)"]
GEN_TIE = ["file", "eff"]   # ("eff": translate/eff2coq.py - Database.load writes only its own object, the readers write nothing: Gen/GenEffP.v gen_database_load_writes_only_self, gen_database_readers_write_nothing) Database.load / _replace, the file parser it runs and the read side (iter_values, get_random, __len__) are also TRANSLATED (translate/file2coq.py + db2coq.py) on every run and proved to refine the atomic load specification (Gen/GenDbP.v: gen_load_eq, gen_load_keeps_invariants)
EXHAUSTIVE = {"fault position: every line of the sampled good files": True}


def generate(R, tier):
    n = 800 if tier == "quick" else 25000
    small = ["[mtu]", "label = A", "sig = 1500"]
    yield {"stream": "big-file", "files": [small, big_file(2200, False), small, big_file(2200, True), big_file(2200, False)], "unreadable": [], "sparse": True}
    for i in range(n):
        A = D.valid_file(R, small=True)
        B = D.valid_file(R, small=True)
        pool = [A, B]
        files = []
        for _ in range(R.randint(1, 8)):
            r = R.random()
            if r < 0.45:
                files.append(R.choice(pool))
            elif r < 0.55 and files:
                files.append(files[-1])
            elif r < 0.7:
                # a file whose ONLY fault is one field of one signature that an earlier good file has with a legal neighbour: the same
                # quirk list under the other IP version, the same window under another MSS, ... (what is accepted must not depend on what was seen)
                base = list(R.choice(pool))
                idx = [k for k, l in enumerate(base) if D.line_kind(l) == "sig" and l.count(":") == 7]
                done = False
                R.shuffle(idx)
                for k in idx:
                    head, _, val = base[k].partition("=")
                    f = val.strip().split(":")
                    if f[0] in ("4", "*") and any(q in f[6].split(",") for q in ("df", "id+", "id-", "0+")):
                        f[0] = "6"
                    elif f[0] in ("6", "*") and "flow" in f[6].split(","):
                        f[0] = "4"
                    else:
                        continue
                    base[k] = head + "= " + ":".join(f)
                    done = True
                    break
                if not done:
                    base, _ = D.corrupt(R, base)
                files.append(base)
            else:
                base = list(R.choice(pool))
                bad, _ = D.corrupt(R, base)
                files.append(bad)
        yield {"stream": "history", "files": files, "unreadable": [k for k in range(len(files)) if R.random() < 0.05],
               "threaded": tier == "thorough" and i % 5 == 0}
        if i % 40 == 7:
            # load() WITHOUT a path - the bundled p0f.fp - after / between loads of other files (and after failed ones): it replaces the contents
            # like any other successful load
            sh = c09.load_shipped()
            fs = [R.choice(pool), sh, R.choice(files), sh, R.choice(pool)][R.randrange(2):]
            yield {"stream": "default-path", "files": fs, "unreadable": [], "default": [k for k, f in enumerate(fs) if f is sh], "sparse": True}
        if i % 20 == 0:
            base = R.choice(pool)
            for k in range(len(base) + 1):
                yield {"stream": "fault-at-every-line", "files": [A, base[:k] + ["junk line"] + base[k:], B], "unreadable": []}


def big_file(n, bad_last):
    """> 64 KiB: a database that is only complete when the whole file has been read"""
    lines = ["[mtu]"]
    for i in range(n):
        lines += ["label = Link type number %05d" % i, "sig = %d" % (1 + i % 65535)]
    lines += ["[tcp:request]", "label = s:unix:Tail:1", "sig = *:64:0:*:8192,7:mss,nop,ws::0"]
    if bad_last:
        lines.append("sig = this line is not a signature")
    return lines


def model_line(c):
    files = [f for k, f in enumerate(c["files"]) if k not in c["unreadable"]]     # open() is not modelled: unreadable paths never reach the parser
    return "history %d %s" % (len(files), " ".join("%d %s" % (len(f), " ".join(c09.hexline(l) for l in f)) if f else "0" for f in files))


def impl_init():
    import builtins
    import os
    real_open = builtins.open
    hook = {"cb": None}

    class Watched:
        def __init__(self, f):
            self.f = f

        def __enter__(self):
            return self

        def __exit__(self, *a):
            return self.f.__exit__(*a)

        def __iter__(self):
            for line in self.f:
                if hook["cb"]:
                    hook["cb"]()
                yield line
            if hook["cb"]:
                hook["cb"]()

        def __getattr__(self, k):
            return getattr(self.f, k)

    def wopen(path, *a, **kw):
        f = real_open(path, *a, **kw)
        if str(path).endswith(".watched.fp"):
            return Watched(f)
        return f
    builtins.open = wopen
    import pyp0f.database.parse.parser as P
    from pyp0f.database import Database
    from pyp0f.exceptions import DatabaseError
    from harness import implutil as U
    work = os.path.join(os.path.dirname(os.path.dirname(os.path.dirname(os.path.abspath(__file__)))), "work")
    os.makedirs(work, exist_ok=True)

    import sys
    import threading
    from pyp0f.fingerprint import fingerprint_mtu
    from pyp0f.options import Options
    from harness import wire as W
    PKT = U.scapy_from_spec({"flags": 2, "opts": W.o_mss(1460)})          # a SYN whose MTU is 1500

    def fp_view(d):
        """What a fingerprint call sees through Options(database=d)."""
        try:
            r = fingerprint_mtu(PKT, options=Options(database=d))
            return ["ok", None if r.match is None else r.match.line_number]
        except DatabaseError:
            return ["DatabaseError"]

    def expected_view(dump):
        """... and what it must see, given the records the database holds: no [mtu] section loaded -> DatabaseError,
        else the earliest record with MTU 1500, else no match."""
        if dump["mtu"] is None:
            return ["DatabaseError"]
        for rec in dump["mtu"]:
            if rec["sig"] == 1500:
                return ["ok", rec["line"]]
        return ["ok", None]

    from pyp0f.fingerprint import fingerprint_http, fingerprint_tcp
    HTTP_REQ = b"GET / HTTP/1.1\r\nHost: a\r\n\r\n"
    HTTP_RESP = b"HTTP/1.1 200 OK\r\nServer: a\r\n\r\n"
    SYNACK = U.scapy_from_spec({"flags": 0x12, "ack": 5, "opts": W.o_mss(1460)})

    def raises_db_error(f):
        try:
            f()
            return False
        except DatabaseError:
            return True

    # packets / payloads of unusual but legal shape: whether a section is loaded may not depend on what is asked about
    PROBE = U.scapy_from_spec({"flags": 2, "win": 1337, "opts": W.o_mss(1331)})            # the p0f-sendsyn probe shape (Options.special_mss / special_window)
    PROBE_SA = U.scapy_from_spec({"flags": 0x12, "ack": 5, "win": 1337, "opts": W.o_mss(1331)})
    ZWIN = U.scapy_from_spec({"flags": 2, "win": 0, "ttl": 255, "opts": W.o_mss(65535)})
    V6 = U.scapy_from_spec({"v": 6, "flags": 2, "opts": W.o_mss(1440)})
    HTTP_REQ0 = b"HEAD / HTTP/1.0\n\n"
    EXTRA = {"mtu": [PROBE, PROBE_SA, ZWIN, V6], "tcp_req": [PROBE, ZWIN, V6], "tcp_resp": [PROBE_SA]}

    def section_views(d):
        """Which fingerprint entry points report DatabaseError (no such section loaded) through Options(database=d)."""
        o = Options(database=d)
        v = {"mtu": raises_db_error(lambda: fingerprint_mtu(PKT, options=o)), "tcp_req": raises_db_error(lambda: fingerprint_tcp(PKT, options=o)),
             "tcp_resp": raises_db_error(lambda: fingerprint_tcp(SYNACK, options=o)), "http_req": raises_db_error(lambda: fingerprint_http(HTTP_REQ, options=o)),
             "http_resp": raises_db_error(lambda: fingerprint_http(HTTP_RESP, options=o))}
        # the other shapes must agree with the plain one of their section (a disagreement is reported as the opposite of the truth for that section)
        for k, pkts in EXTRA.items():
            for x in pkts:
                if raises_db_error(lambda: (fingerprint_mtu if k == "mtu" else fingerprint_tcp)(x, options=o)) != v[k]:
                    v[k] = "depends on the packet asked about"
        if raises_db_error(lambda: fingerprint_http(HTTP_REQ0, options=o)) != v["http_req"]:
            v["http_req"] = "depends on the payload asked about"
        return v

    from pyp0f.impersonate import impersonate_mtu

    def imp_problem(d, dump, labels):
        """What impersonation BY LABEL sees through database=d: for every [mtu] label any version of this history has had, the MTU drawn must be
        one the database holds under that label NOW, and DatabaseError exactly when it holds none."""
        for lh in sorted(labels):
            want = sorted({r["sig"] for r in (dump["mtu"] or []) if r["label"]["dump"] == lh})
            if any(not 100 <= w <= 65535 for w in want):
                continue
            try:
                out = impersonate_mtu(PKT.copy(), raw_label=bytes.fromhex(lh).decode(), database=d)
                got = dict(out.getlayer("TCP").options).get("MSS") + 40
            except DatabaseError:
                got = None
            except Exception:
                continue
            if (not want and got is not None) or (want and got not in want):
                return [bytes.fromhex(lh).decode(), got, want]
        return None

    def impl(c):
        db = Database()
        mtu_labels = set()
        versions = {0: U.dump_db(db)}
        if fp_view(db) != ["DatabaseError"] or not all(x is True for x in section_views(db).values()):
            return [[{"fingerprint_before_any_load_did_not_raise_DatabaseError": [fp_view(db), section_views(db)]}, []]]
        torn = []
        races = []
        stop = threading.Event()
        reader = None
        if c.get("threaded"):
            # a REAL concurrent reader: snapshots the shared database as fast as it can while the loads run;
            # every snapshot must be one of the complete versions (old or new), never a mixture
            fresh_all = []
            for lines in c["files"]:
                try:
                    fresh_all.append(U.dump_db(U.load_db("\n".join(lines) + "\n")))
                except DatabaseError:
                    fresh_all.append(None)
            allowed = [versions[0]] + [f for f in fresh_all if f is not None]
            old_interval = sys.getswitchinterval()
            sys.setswitchinterval(1e-6)

            keys = ["mtu", "tcp_req", "tcp_resp", "http_req", "http_resp", "len"]
            allowed_by_key = {k: [a[k] for a in allowed] for k in keys}

            def read_loop():
                # each single call (one section listing, or len) must show the complete old or the complete new contents;
                # successive calls may of course straddle the moment of the swap
                while not stop.is_set():
                    try:
                        d = U.dump_db(db)
                    except Exception as e:      # e.g. KeyError from a swap between two reads of the mapping inside one call
                        races.append(type(e).__name__)
                        continue
                    for k in keys:
                        if d[k] not in allowed_by_key[k]:
                            torn.append(k)
                            return
            reader = threading.Thread(target=read_loop, daemon=True)
            reader.start()
        out = []
        path = os.path.join(work, "c11-%d.watched.fp" % os.getpid())
        visible = 0
        for i, lines in enumerate(c["files"], 1):
            fresh = None
            if (i - 1) not in c["unreadable"]:
                try:
                    fresh = U.dump_db(U.load_db("\n".join(lines) + "\n"))
                except DatabaseError:
                    fresh = None
            obs = []

            ticks = [0]

            def snap(force=True):
                ticks[0] += 1
                if c.get("sparse") and not force and ticks[0] % 499:
                    return          # very long files: a full snapshot at every 499th line-read point (and after the return)
                d = U.dump_db(db)
                hit = [k for k, v in versions.items() if v == d]
                cand = dict(versions)
                if fresh is not None and d == fresh:
                    hit.append(i)
                obs.append(sorted(set(hit)) if hit else "TORN")
            with real_open(path, "w", encoding="utf-8", newline="") as f:
                f.write("\n".join(lines) + "\n")
            hook["cb"] = (lambda: snap(False))
            try:
                if (i - 1) in c["unreadable"]:
                    # a path that cannot be read: missing, EMPTY (an unset setting), a directory
                    db.load([os.path.join(work, "no-such-dir", "x.fp"), "", work, os.path.join(work, "no-such-file-%d.fp" % os.getpid())][(i + len(lines)) % 4])
                elif (i - 1) in c.get("default", []):
                    db.load()
                else:
                    db.load(path)
                res = {"ok": True}
            except DatabaseError as e:
                res = {"err": "ParsingError", "line": e.line_number} if hasattr(e, "line_number") else {"err": "DatabaseError"}
            finally:
                hook["cb"] = None
            after = U.dump_db(db)
            if "ok" in res:
                versions[i] = after
                if after != fresh:
                    res["accumulated_or_wrong"] = True
                visible = i
            elif after != versions[visible]:
                res["failed_load_changed_db"] = True
            snap()
            if fp_view(db) != expected_view(after):
                res["fingerprint_sees_other_contents_than_the_database_holds"] = [fp_view(db), expected_view(after)]
            mtu_labels.update(r["label"]["dump"] for r in (after["mtu"] or []))
            ip = imp_problem(db, after, mtu_labels)
            if ip is not None:
                res["impersonation_by_label_sees_other_contents_than_the_database_holds"] = ip
            sv = section_views(db)
            if any(sv[k] != (after[k] is None) for k in sv):
                res["DatabaseError_not_exactly_for_the_sections_that_are_not_loaded"] = [sv, {k: after[k] is None for k in sv}]
            out.append([res, obs])
        if reader is not None:
            stop.set()
            reader.join(5)
            sys.setswitchinterval(old_interval)
            if torn:
                out.append([{"concurrent_reader_saw_torn_state": True}, ["TORN"]])
            elif races:
                out[-1][0]["bytecode_level_race_in_reader"] = races[0]
        try:
            os.unlink(path)
        except OSError:
            pass
        return out
    return impl


def canon(c, mr):
    """Model trace -> what the observer must report.  Unreadable files give no line-read point: the property
    demands DatabaseError and an unchanged database; model load numbers are mapped to history positions."""
    readable = [k for k in range(len(c["files"])) if k not in c["unreadable"]]
    num = {0: 0}
    for j, k in enumerate(readable, 1):
        num[j] = k + 1
    out, it, visible = [], iter(mr), 0
    for k in range(len(c["files"])):
        if k in c["unreadable"]:
            out.append([{"err": "DatabaseError"}, [visible]])
            continue
        r, obs = next(it)
        obs = [num[v] for v in obs]
        visible = obs[-1]
        out.append([{"ok": True} if "ok" in r else {"err": "ParsingError", "line": r.get("line")}, obs])
    return out


def outcome(c, ir, mr):
    if not isinstance(mr, list):
        return "model-error"
    if isinstance(ir, list) and any(isinstance(x[0], dict) and "bytecode_level_race_in_reader" in x[0] for x in ir):
        return "reader thread hit a bytecode-level race (outside the quantifier)"
    ok = sum(1 for r, _ in mr if "ok" in r)
    return "loads:%d ok/%d failed" % (min(ok, 3), min(len(c["files"]) - ok, 3))


def nontrivial(c, ir, mr):
    return isinstance(mr, list) and any("ok" in r for r, _ in mr) and (any("err" in r for r, _ in mr) or bool(c["unreadable"]))


def judge(c, ir, mr):
    if not isinstance(ir, list):
        return {"kind": "history raised", "why": str(ir)}
    want = canon(c, mr)
    if len(ir) > len(want):
        return {"kind": "a concurrent reader thread saw a database that is neither the complete old nor the complete new contents", "why": str(ir[-1])[:200],
                "judged_by": "C11_refines"}
    for k, ((ri, oi), (rw, ow)) in enumerate(zip(ir, want)):
        if "TORN" in oi:
            return {"kind": "a reader saw a database that is neither the complete old nor the complete new contents", "why": "load %d: observations %s" % (k + 1, oi),
                    "judged_by": "C11_refines"}
        if ri.get("accumulated_or_wrong"):
            return {"kind": "contents after a successful load differ from a fresh load of that file (accumulation?)", "why": "load %d" % (k + 1), "judged_by": "C11_no_accumulation"}
        if ri.get("impersonation_by_label_sees_other_contents_than_the_database_holds"):
            return {"kind": "impersonation by label draws from other contents than the database holds after the load (something remembered across loads)",
                    "why": "load %d: [label, MTU drawn (None = DatabaseError), MTUs the database holds under that label] = %s" % (
                        k + 1, ri["impersonation_by_label_sees_other_contents_than_the_database_holds"]), "judged_by": "C11_refines (a successful load replaces the previous contents)"}
        if ri.get("failed_load_changed_db"):
            return {"kind": "a failed load changed the loaded database", "why": "load %d" % (k + 1), "judged_by": "C11_failed_load_preserves"}
        ri = {k2: v2 for k2, v2 in ri.items() if k2 != "bytecode_level_race_in_reader"}    # outside the property's quantifier (see ASSUMPTIONS); counted in outcomes
        if ri != rw:
            return {"kind": "load outcome differs", "why": "load %d: impl %s model %s" % (k + 1, ri, rw)}
        # every observation during the load shows the old version; the last one (after return) the final version
        if any(ow[0] not in o for o in oi[:-1]) or ow[-1] not in oi[-1]:
            return {"kind": "version visible during/after a load differs from the atomic specification", "why": "load %d: impl %s model %s" % (k + 1, oi, ow), "judged_by": "C11_refines"}
    return None


def shrink(c):
    fs = c["files"]
    for i in range(len(fs)):
        if len(fs) > 1:
            yield dict(c, files=fs[:i] + fs[i + 1:], unreadable=[])
