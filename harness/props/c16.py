"""C16: fingerprint results are a pure function of (input, database, options)."""
from harness import tcpgen as G, wire as W, httpgen as H, dbgen as D
from harness.props import c09

RULE = ("pools of packets / HTTP payloads / database files replayed as histories of 30 calls in permuted, repeated and interleaved "
        "order on ONE process and ONE shared Database: loads and reloads, loads that FAIL (fault on a late line), fingerprint_tcp with varying syn_mss and max_dist on raw "
        "Scapy packets, on freshly parsed and on one REUSED parsed Packet object, fingerprint_mtu, fingerprint_http on bytes / "
        "bytearray / ReceiveBuffer, impersonate_tcp by label and by signature with extra_hops, impersonate_mtu, uptime; every "
        "fingerprint result is compared with the history-free value the model machine computes; sibling packets differing only "
        "in syn_mss / timestamp / header length follow each other; SYN+ACKs come with the mirrored SYN of their flow announcing the peer MSS; the label (text and sys list) reported with each match is checked against the file loaded at that moment (same application label, other sys list in the other file); non-trivial = history with >= 5 matching results")
ASSUMPTIONS = ["uptime results are excluded (clock-dependent by the property's own exception)"]
GEN_TIE = ['api', 'eff']     # ('eff': translate/eff2coq.py - no public call writes any module-level object but the random generator, the fingerprint calls write nothing at all: Gen/GenEffP.v gen_no_global_object_written, gen_fingerprint_calls_write_nothing) end to end: dissected fields -> translated extraction -> translated fingerprint_tcp / mtu / http wrappers, composed and proved equal to the API model (Gen/GenApiC.v); builds on groups layers, options, uptime, match, select, mtu, http
EXHAUSTIVE = {}


def build_file(R, pkts, msgs):
    lines = ["[mtu]"]
    for i in range(R.randint(1, 3)):
        lines += ["label = M%d" % i, "sig = %d" % R.choice([1500, 1492, 576] + [min(65535, p["mss"] + (40 if p["ver"] == 4 else 60)) for _, p, _ in pkts if p["mss"]])]
    for sec in ("request", "response"):
        lines.append("[tcp:%s]" % sec)
        for spec, p, ty in pkts:
            if p.get("mirror") or (ty == 2) != (sec == "request") or R.random() < 0.2:
                continue
            # a record that agrees with the packet on everything but demands an impossible mss*N window:
            # it forces the (lazily computed, possibly remembered) window multiplier to be evaluated for this packet
            probe = dict(G.matching_sig(R, p, 35), wtype=R.choice([3, 4]), wsize=999, dist=0)
            lines += ["label = s:unix:Probe:v", "sig = " + G.sig_text(probe)]
            for _ in range(R.randint(1, 2)):
                s = G.matching_sig(R, p, 35)
                if R.random() < 0.3:
                    s = G.edit_sig(R, s, p, 35)
                s["dist"] = 0
                s["ttl"] = min(255, max(s["ttl"], 12))     # room for extra_hops when impersonating by label
                cls = R.choice(["unix", "win", "!"])
                lines.append("label = %s:%s:Os%d:v" % (R.choice(["s", "s", "g"]), cls, R.randrange(4)))
                if cls == "!":
                    lines.append("sys = " + R.choice(["Linux", "Windows", "@unix,@win", "Linux,FreeBSD"]))    # same label text, other sys list in the other file
                lines.append("sig = " + G.sig_text(s))
    for sec in ("request", "response"):
        lines.append("[http:%s]" % sec)
        for d, hs in msgs:
            if d != sec:
                continue
            lines.append("label = %s:unix:App%d:v" % (R.choice(["s", "g"]), R.randrange(4)))
            hsig = H.rand_http_sig(R, hs)
            lines.append("sig = " + (("*" + hsig) if hsig.startswith(":") else hsig))      # (these files are meant to load: no empty version field)
    return lines


def simple_opts(hx):
    """NOP / MSS / WS / SACKOK / TS with their standard lengths only, no EOL, no padding."""
    b = bytes.fromhex(hx)
    i = 0
    std = {2: 4, 3: 3, 4: 2, 8: 10}
    while i < len(b):
        if b[i] == 1:
            i += 1
        elif b[i] in std and i + 1 < len(b) and b[i + 1] == std[b[i]] and i + std[b[i]] <= len(b):
            i += std[b[i]]
        else:
            return False
    return True


def generate(R, tier):
    n = 800 if tier == "quick" else 30000
    for _ in range(n):
        pkts = []
        for _ in range(R.randint(2, 4)):
            spec, p, ty = G.rand_wire_pkt(R, flags=R.choice([2, 0x12, 0x12]))
            if ty == 0x12:
                p["syn_mss"] = R.choice([1380, 1460, 536])
            p["win"] = spec["win"] = G.aim_window(R, p)
            if ty == 0x12 and R.random() < 0.6 and p["mss"] >= 100:
                k = R.choice([2, 5, 10])
                if p["syn_mss"] * k <= 65535:
                    p["win"] = spec["win"] = p["syn_mss"] * k       # divisible by the peer MSS (often by nothing else)
            pkts.append((spec, p, ty))
            if ty == 0x12 and R.random() < 0.5:
                # the SYN of the same flow (addresses and ports mirrored) announcing exactly the peer MSS the SYN+ACK's window is a multiple of:
                # fingerprinting it first must not teach the SYN+ACK's fingerprint anything (syn_mss is an ARGUMENT)
                f = W.full(spec)
                mirror = {"v": f["v"], "src": f["dst"], "dst": f["src"], "sport": f["dport"], "dport": f["sport"], "flags": 2, "seq": 5,
                          "opts": "0204%04x" % p["syn_mss"], "win": 8192, "ttl": 64}
                pkts.append((mirror, {"mirror": True, "mss": p["syn_mss"], "ver": f["v"], "syn_mss": 0}, 2))
            # sibling with the timestamp option replaced by NOPs (same lengths, same window): differs only in "timestamp present"
            i = spec["opts"].find("080a")
            if i >= 0 and i % 2 == 0 and p["mss"] >= 112 and R.random() < 0.7:
                k = R.choice([2, 4, 5])
                if (p["mss"] - 12) * k <= 65535:
                    spec["win"] = p["win"] = (p["mss"] - 12) * k
                    ts1 = int(spec["opts"][i + 4:i + 12], 16)
                    if ts1:
                        p["ts1"] = ts1
                        sib = dict(spec, opts=spec["opts"][:i] + "01" * 10 + spec["opts"][i + 20:])
                        q = dict(p, ts1=0, layout=[1] * 10)
                        pkts.append((sib, q, ty))
        msgs = []
        payloads = []
        for _ in range(2):
            d = R.choice(["request", "response"])
            hs = H.rand_headers(R)
            msg, _ = H.render(R, d, 1, hs, b"", fold=False)
            msgs.append((d, hs))
            payloads.append(msg.hex())
        if R.random() < 0.5:
            # a payload that is refused (the first segment of a message: no blank line yet; or not HTTP at all): nothing of it may linger anywhere
            whole = bytes.fromhex(payloads[0])
            payloads.append(R.choice([whole[:max(1, len(whole) // 2)].rstrip(b"\r\n"), b"\x16\x03\x01\x02\x00\x01\x00\x01\xfc\x03\x03", b"GET / HTTP/1.1\r\nHost: a"]).hex())
        files = [build_file(R, pkts, msgs) for _ in range(2)]
        if R.random() < 0.35:
            # the second file lacks a whole KIND of section the first one has: after loading it on the same object that kind is not loaded (DatabaseError), nothing
            # of the first file survives
            drop = R.choice(["[mtu]", "[http:", "[tcp:response]", "[http:request]"])
            kept, skipping = [], False
            for l in files[1]:
                if l.startswith("["):
                    skipping = l.startswith(drop)
                if not skipping:
                    kept.append(l)
            files[1] = kept or ["[tcp:request]"]
        # a third file that does NOT load (a fault on a late line): a failed load leaves the database, and so every later result, as it was
        bad = list(files[0])
        bad.insert(R.randint(len(bad) // 2, len(bad)), R.choice(["sig = ", "junk line", "label = x", "[tcp]", "sig = 4:64:0:*:1,0:::1:2"]))
        files.append(bad)
        labels = sorted({l.split("=", 1)[1].strip() for f in files for l in f if l.startswith("label = ") and ":" in l})
        ops = [{"op": "load", "file": 0}]
        use_shipped = R.random() < 0.08
        if use_shipped:
            # load() WITHOUT a path: the bundled p0f.fp, whatever was loaded (or failed to load) on this object before
            files.append(c09.load_shipped())
        if R.random() < 0.3:
            # calls made BEFORE the first load: the database handed in holds nothing yet (whatever the process default holds)
            pre = []
            for _ in range(R.randint(1, 3)):
                j = R.randrange(len(pkts))
                pre.append(R.choice([{"op": "tcp", "pkt": j, "syn_mss": 0, "md": 35, "mode": "raw"}, {"op": "mtu", "pkt": j, "mode": "raw"},
                                     {"op": "http", "payload": 0, "btype": "bytes"}]))
            ops = pre + ops
        for _ in range(30):
            r = R.random()
            j = R.randrange(len(pkts))
            if r < 0.08:
                ops.append({"op": "load", "file": R.choice([0, 1, 0, 1, 2] + ([3, 3, 3] if use_shipped else []))})
                if ops[-1]["file"] != 2 and R.random() < 0.4:
                    # the caller adds a record through the public add(), then loads the SAME unchanged file again: load() replaces whatever the object holds
                    ops.append({"op": "reload_after_add"})
            elif r < 0.5:
                ty = pkts[j][2]
                ops.append({"op": "tcp", "pkt": j, "syn_mss": R.choice([0, 0, pkts[j][1]["syn_mss"], 1380, 1460]) if ty == 0x12 else R.choice([0, 1460]),
                            "md": R.choice([35, 35, 0, 255]), "mode": R.choice(["raw", "parsed", "shared", "shared"])})
            elif r < 0.6:
                ops.append({"op": "mtu", "pkt": j, "mode": R.choice(["raw", "shared"])})
            elif r < 0.75:
                ops.append({"op": "http", "payload": R.randrange(len(payloads)), "btype": R.choice(["bytes", "bytearray", "rb"])})
            elif r < 0.9 and labels:
                ops.append({"op": "imp_tcp", "pkt": j, "label": R.choice(labels), "extra_hops": R.choice([0, 1, 3, 7])})
            elif r < 0.93:
                ops.append({"op": "imp_mtu", "pkt": j, "sig": R.choice(["1500", "1400"])})
            elif r < 0.97 and simple_opts(pkts[j][0]["opts"]):
                # (only for option areas Scapy re-serialises byte for byte once a field of the layer has been set)
                # the caller edits its own packet object in place (a new input from then on), then fingerprints the same object again
                ops.append({"op": "edit", "pkt": j, "win": R.choice([0, 1, 8192, 65535, pkts[j][1]["mss"] * 2 % 65536, R.randrange(65536)])})
                ops.append({"op": "tcp", "pkt": j, "syn_mss": 0, "md": 35, "mode": "raw"})
            elif r < 0.985:
                # the caller edits the PARSED Packet it keeps (plain mutable dataclasses): from then on that object is a new input -
                # the next result must follow its current fields, nothing remembered from the calls made with it before
                ops.append({"op": "edit_parsed", "pkt": j, "win": R.choice([0, 8192, 65535, pkts[j][1]["mss"] * 2 % 65536, R.randrange(65536)]),
                            "ttl": R.choice([None, 64, 128, 255, R.randint(1, 255)])})
                ops.append({"op": "tcp", "pkt": j, "syn_mss": 0, "md": R.choice([35, 255]), "mode": "shared"})
            else:
                ops.append({"op": "uptime", "pkt": j})
        yield {"stream": "history", "files": files, "pkts": [s for s, _, _ in pkts], "payloads": payloads, "ops": ops}


def model_line(c):
    toks = []
    pk = [dict(sp) for sp in c["pkts"]]          # the packets as they are NOW (in-place edits by the caller are applied in order)
    c = dict(c, pkts=pk)
    sh = {}                                       # the parsed Packet objects the caller keeps, as they are NOW
    cur_file = None
    for o in c["ops"]:
        if o["op"] == "edit":
            pk[o["pkt"]]["win"] = o["win"]
            sh.pop(o["pkt"], None)
            toks.append("4")
            continue
        if o["op"] == "edit_parsed":
            j = o["pkt"]
            if j not in sh:
                sh[j] = dict(pk[j])
            sh[j]["win"] = o["win"]
            if o["ttl"] is not None:
                sh[j]["ttl"] = o["ttl"]
            toks.append("4")
            continue
        if o["op"] in ("tcp", "mtu") and o["mode"] == "shared":
            j = o["pkt"]
            if j not in sh:
                sh[j] = dict(pk[j])
            spec = sh[j]
            if o["op"] == "tcp":
                toks.append("1 %d %d %d %s" % (o["md"], o["syn_mss"], W.full(spec)["v"], W.build(spec).hex()))
            else:
                toks.append("2 %d %s" % (W.full(spec)["v"], W.build(spec).hex()))
            continue
        if o["op"] == "load":
            f = c["files"][o["file"]]
            if o["file"] != 2:
                cur_file = o["file"] if o["file"] != 3 else None
            toks.append("0 %d %s" % (len(f), " ".join(c09.hexline(l) for l in f)))
        elif o["op"] == "reload_after_add":
            if cur_file is None:
                toks.append("4")
            else:
                f = c["files"][cur_file]
                toks.append("0 %d %s" % (len(f), " ".join(c09.hexline(l) for l in f)))
        elif o["op"] == "tcp":
            spec = c["pkts"][o["pkt"]]
            toks.append("1 %d %d %d %s" % (o["md"], o["syn_mss"], W.full(spec)["v"], W.build(spec).hex()))
        elif o["op"] == "mtu":
            spec = c["pkts"][o["pkt"]]
            toks.append("2 %d %s" % (W.full(spec)["v"], W.build(spec).hex()))
        elif o["op"] == "http":
            toks.append("3 %s" % (c["payloads"][o["payload"]] or "-"))
        else:
            toks.append("4")
    return "api_history %d %s" % (len(toks), " ".join(toks))


def impl_init():
    from h11._receivebuffer import ReceiveBuffer
    from pyp0f.database import Database
    from pyp0f.exceptions import DatabaseError, PacketError
    from pyp0f.fingerprint import fingerprint_http, fingerprint_mtu, fingerprint_tcp, fingerprint_uptime
    from pyp0f.impersonate import impersonate_mtu, impersonate_tcp
    from pyp0f.net.packet import parse_packet
    from pyp0f.net.signatures import TCPPacketSignature
    from pyp0f.options import Options
    from harness import implutil as U
    import os
    work = os.path.join(os.path.dirname(os.path.dirname(os.path.dirname(os.path.abspath(__file__)))), "work")

    def lab(l):
        return [l.dump(), list(getattr(l, "sys", ()))]

    def impl(c):
        db = Database()
        scapy = [U.scapy_from_spec(s) for s in c["pkts"]]
        shared = {}
        bufs = {}
        out = []
        loaded = [False]
        path = os.path.join(work, "c16-%d.fp" % os.getpid())
        for o in c["ops"]:
            try:
                if o["op"] == "load" and o["file"] == 3:
                    db.load()
                    loaded[0] = False            # (reload_after_add re-reads `path`, which does not hold this file)
                    out.append({"load": True, "len": len(db)})
                elif o["op"] == "load":
                    with open(path, "w", encoding="utf-8", newline="") as f:
                        f.write("\n".join(c["files"][o["file"]]) + "\n")
                    db.load(path)
                    loaded[0] = True
                    out.append({"load": True, "len": len(db)})
                elif o["op"] == "reload_after_add":
                    if not loaded[0]:
                        out.append(None)
                    else:
                        import copy as _copy
                        from pyp0f.database.records import HTTPRecord, MTURecord, TCPRecord
                        from pyp0f.net.packet import Direction
                        for cls, d in ((TCPRecord, Direction.CLIENT_TO_SERVER), (TCPRecord, Direction.SERVER_TO_CLIENT), (MTURecord, None), (HTTPRecord, Direction.CLIENT_TO_SERVER)):
                            try:
                                vals = list(db.iter_values(cls, d))
                                if vals:
                                    db.add(_copy.copy(vals[0]), d)
                            except DatabaseError:
                                pass
                        db.load(path)          # the file itself has not been touched since it was loaded
                        out.append({"load": True, "len": len(db)})
                elif o["op"] in ("tcp", "mtu"):
                    j = o["pkt"]
                    if o["mode"] == "raw":
                        x = scapy[j]
                    elif o["mode"] == "parsed":
                        x = parse_packet(scapy[j])
                    else:
                        if j not in shared:
                            shared[j] = parse_packet(scapy[j])
                        x = shared[j]
                    if o["op"] == "tcp":
                        r = fingerprint_tcp(x, syn_mss=o["syn_mss"], options=Options(database=db, max_dist=o["md"]))
                        out.append({"tcp": [None if r.match is None else r.match.record.line_number, None if r.match is None else r.match.type.name, r.distance],
                                    "lab": None if r.match is None else lab(r.match.record.label)})
                    else:
                        r = fingerprint_mtu(x, options=Options(database=db))
                        out.append({"mtu": [r.packet_signature.mtu, None if r.match is None else r.match.line_number]})
                elif o["op"] == "http":
                    # the SAME buffer object is handed in every time this payload is fingerprinted: a call must not consume or alter it
                    key = (o["payload"], o["btype"])
                    if key not in bufs:
                        raw = bytes.fromhex(c["payloads"][o["payload"]])
                        if o["btype"] == "bytes":
                            bufs[key] = raw
                        elif o["btype"] == "bytearray":
                            bufs[key] = bytearray(raw)
                        else:
                            bufs[key] = ReceiveBuffer()
                            bufs[key] += raw
                    buf = bufs[key]
                    r = fingerprint_http(buf, options=Options(database=db))
                    out.append({"http": [None if r.match is None else r.match.line_number, bool(r.dishonest)], "lab": None if r.match is None else lab(r.match.label)})
                elif o["op"] == "edit":
                    scapy[o["pkt"]].getlayer("TCP").window = o["win"]
                    shared.pop(o["pkt"], None)        # a parsed Packet the caller still holds describes the packet as it WAS
                    out.append(None)
                elif o["op"] == "edit_parsed":
                    j = o["pkt"]
                    try:
                        if j not in shared:
                            shared[j] = parse_packet(scapy[j])
                        shared[j].tcp.window = o["win"]
                        if o["ttl"] is not None:
                            shared[j].ip.ttl = o["ttl"]
                    except PacketError:      # not a packet pyp0f accepts: nothing to edit, the following call reports the error
                        pass
                    out.append(None)
                elif o["op"] == "imp_tcp":
                    try:
                        impersonate_tcp(scapy[o["pkt"]], raw_label=o["label"], extra_hops=o["extra_hops"], database=db)
                    except Exception:   # whether impersonation succeeds is C05's subject; here only its side effects matter
                        pass
                    out.append(None)
                elif o["op"] == "imp_mtu":
                    try:
                        impersonate_mtu(scapy[o["pkt"]].copy(), raw_signature=o["sig"], database=db)
                    except Exception:
                        pass
                    out.append(None)
                else:
                    try:
                        pp = parse_packet(scapy[o["pkt"]])
                        last = TCPPacketSignature.from_packet(pp)
                        r = fingerprint_uptime(scapy[o["pkt"]], last, options=Options(database=db))
                        r2 = fingerprint_uptime(pp, last, options=Options(database=db))
                        # the clock-free part of the result: the parsed packet it carries, whichever form the input had
                        rec = {"up": [type(r.packet).__name__, r.packet == pp, r2.packet is pp]}
                        ts = pp.tcp.options.timestamp
                        if ts > 100 and int(pp.tcp.type) in (2, 0x12, 0x10) and not pp.ip.is_fragment:
                            # the clock-dependent part, with the clock PINNED: the host's clock read far in the future by an earlier call (then stepped back by NTP)
                            # is no input of this measurement: 100 ticks in 1000 ms are 100 Hz
                            import time as _t
                            real = _t.time_ns
                            try:
                                t0 = 1_700_000_000_000
                                _t.time_ns = lambda: (t0 + 5_000_000) * 10 ** 6
                                TCPPacketSignature.from_packet(pp)
                                _t.time_ns = lambda: t0 * 10 ** 6
                                ref = TCPPacketSignature.from_packet(pp)
                                ref.options = type(ref.options)(layout=list(ref.options.layout), quirks=ref.options.quirks, mss=ref.options.mss, window_scale=ref.options.window_scale,
                                                                timestamp=ts - 100, eol_padding_length=ref.options.eol_padding_length)
                                _t.time_ns = lambda: (t0 + 1000) * 10 ** 6
                                rec["up_pinned"] = fingerprint_uptime(pp, ref, options=Options(database=db)).tps
                                # the reference as an application really keeps it: the signature of an EARLIER parsed packet of the flow (it shares that packet's
                                # options object).  A measurement reads it; afterwards the earlier packet, the reference and this packet say what they said
                                import copy as _c
                                prev = parse_packet(scapy[o["pkt"]])
                                prev.tcp.options.timestamp = ts - 100
                                _t.time_ns = lambda: t0 * 10 ** 6
                                ref2 = TCPPacketSignature.from_packet(prev)
                                snap_prev, snap_ref, snap_pp = _c.deepcopy(prev), _c.deepcopy(ref2), _c.deepcopy(pp)
                                _t.time_ns = lambda: (t0 + 1000) * 10 ** 6
                                tps2 = fingerprint_uptime(pp, ref2, options=Options(database=db)).tps
                                rec["up_ref_kept"] = [tps2, prev == snap_prev, ref2 == snap_ref, pp == snap_pp]
                            finally:
                                _t.time_ns = real
                        out.append(rec)
                    except PacketError:
                        out.append(None)
            except PacketError:
                out.append({"err": "PacketError"})
            except DatabaseError as e:
                out.append({"err": "ParsingError", "line": e.line_number} if hasattr(e, "line_number") else {"err": "DatabaseError"})
        try:
            os.unlink(path)
        except OSError:
            pass
        return out
    return impl


def outcome(c, ir, mr):
    if not isinstance(mr, list):
        return "model-error"
    hits = sum(1 for x in mr if isinstance(x, dict) and ((x.get("tcp") or [None])[0] is not None or (x.get("http") or [None])[0] is not None or (x.get("mtu") or [0, None])[1] is not None))
    return "matches:%d" % min(hits, 9)


def nontrivial(c, ir, mr):
    return outcome(c, ir, mr) not in ("model-error", "matches:0", "matches:1", "matches:2", "matches:3", "matches:4")


def judge(c, ir, mr):
    if not isinstance(ir, list):
        return {"kind": "history raised", "why": str(ir)}
    cur, shipped = None, False
    for k, (a, b) in enumerate(zip(ir, mr)):
        if c["ops"][k]["op"] == "load" and isinstance(a, dict) and a.get("load"):
            cur = c["files"][c["ops"][k]["file"]]
            shipped = c["ops"][k]["file"] == 3
        if isinstance(a, dict) and "up" in a:
            if "up_pinned" in a and a["up_pinned"] != 100:
                return {"kind": "a fingerprint result depends on the call history (differs from the pure function of input, database, options)",
                        "why": "op %d %s: with the clock pinned (reference taken at t0, packet 1000 ms and 100 ticks later) fingerprint_uptime reports tps %r instead of 100 after an earlier "
                               "call had read a later clock value" % (k, c["ops"][k], a["up_pinned"]), "judged_by": "C16_history + C13_rate (100 ticks / 1000 ms)"}
            if "up_ref_kept" in a and a["up_ref_kept"] != [100, True, True, True]:
                return {"kind": "a fingerprint result depends on the call history (differs from the pure function of input, database, options)",
                        "why": "op %d %s: a measurement against the kept signature of an earlier parsed packet gives [tps, earlier packet unchanged, reference unchanged, this packet unchanged] = %s; "
                               "expected [100, True, True, True]: whatever is fingerprinted from those objects next would differ" % (k, c["ops"][k], a["up_ref_kept"]),
                        "judged_by": "C16_history + C13_rate (100 ticks / 1000 ms)"}
            if a["up"] != ["Packet", True, True]:
                return {"kind": "a fingerprint result depends on the call history (differs from the pure function of input, database, options)",
                        "why": "op %d %s: fingerprint_uptime's result carries [type of .packet, equal to parse_packet(input), parsed input handed back] = %s; expected ['Packet', True, True] "
                               "for the Scapy form and the parsed form of the same packet" % (k, c["ops"][k], a["up"]), "judged_by": "C16_history (input form is not part of the function's domain)"}
            a = None
        if isinstance(a, dict) and "len" in a:
            n = a["len"]
            a = {x: y for x, y in a.items() if x != "len"}
            want = sum(1 for l in (cur or []) if l.startswith("sig"))
            if a == b and cur is not None and n != want:
                return {"kind": "after load() the database does not hold exactly the records of the file (records added in memory before survived the load, or the load was skipped)",
                        "why": "op %d %s: len(db) = %d, the file has %d sig lines" % (k, c["ops"][k], n, want), "judged_by": "C16_history + C11_no_accumulation"}
        if isinstance(a, dict) and "lab" in a:
            got = a["lab"]
            a = {x: y for x, y in a.items() if x != "lab"}
            line = (a.get("tcp") or a.get("http") or [None])[0]
            if a == b and line is not None and cur is not None and c["ops"][k].get("op") != "noop" and not shipped:
                want = label_of(cur, line)
                if got != want:
                    return {"kind": "the label reported with a match is not the one the loaded file gives that record (it depends on other loads)",
                            "why": "op %d %s: record at line %d carries label %s, the file says %s" % (k, c["ops"][k], line, got, want), "judged_by": "C16_history + file text"}
        if a != b:
            return {"kind": "a fingerprint result depends on the call history (differs from the pure function of input, database, options)",
                    "why": "op %d %s: impl %s, history-free model value %s" % (k, c["ops"][k], a, b), "judged_by": "C16_history"}
    return None


def label_of(lines, n):
    """[label text, sys list] in force for the sig at line n (1-based) of a generated file."""
    i = n - 2
    while i >= 0 and not lines[i].startswith("label"):
        i -= 1
    text = lines[i].split("=", 1)[1].strip()
    sys = []
    if i + 1 < len(lines) and lines[i + 1].startswith("sys"):
        sys = lines[i + 1].split("=", 1)[1].strip().split(",")
    return [text, sys]


def shrink(c):
    ops = c["ops"]
    for i in range(len(ops) - 1, 0, -1):
        yield dict(c, ops=ops[:i] + ops[i + 1:])
