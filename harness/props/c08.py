"""C08: MTU fingerprint and MTU impersonation."""
from harness import tcpgen as G, wire as W

RULE = ("MSS boundary values + uniform, both IP versions, MTU 41..65535, base option lists (no MSS / MSS first, middle, duplicated / "
        "several other options), bare or under Ethernet / 802.1Q / Linux cooked link layers, both as sniffed (dissected from bytes, explicit fields) and as constructed Scapy packets, all flag "
        "types incl. invalid and fragments, MTU databases with duplicates and misses; non-trivial = fingerprint accepted the packet; "
        "the impersonated packet is re-fingerprinted and all non-option fields compared")
GEN_TIE = ['mtu']     # gates, from_mss, mtu_signatures_match, find_mtu_match and impersonate/mtu.py's option-list rewrite are also TRANSLATED from /repo's source on every run and proved equal to the model
ASSUMPTIONS = ["(fragment, type, version, MSS) given to the fingerprint model come from the model's own extractor applied to the IP datagram bytes of the base packet "
               "(as Scapy serialises it); packets Scapy cannot dissect (KF-scapy-ao) are skipped"]
EXHAUSTIVE = {"MSS 1..2000 x both versions through fingerprint_mtu (thorough: 1..65535)": True}
MSS_VALUES = [1, 2, 99, 100, 536, 1220, 1360, 1400, 1440, 1452, 1460, 8960, 65494, 65495, 65496, 65534, 65535]


def rand_opts(R):
    others = [["NOP", None], ["WScale", R.choice([0, 7, 14])], ["SAckOK", ""], ["Timestamp", [R.randrange(2 ** 32), 0]], ["NOP", None], ["EOL", None]]
    if R.random() < 0.15:      # a known option with a non-standard length (Scapy takes raw bytes as the value): flagged as bad, the walk goes on
        others[R.choice([1, 2, 3])] = R.choice([["WScale", "hex:0700"], ["SAckOK", "hex:0000"], ["Timestamp", "hex:00000001"], [254, "hex:aabb"]])
    k = R.randrange(7)
    mss = ["MSS", R.choice(MSS_VALUES + [R.randrange(1, 65536)])]
    if k == 0:
        return []
    if k == 1:
        return [mss]
    if k == 2:
        return [o for o in R.sample(others[:5], R.randint(1, 4))]
    if k == 3:
        return [mss] + R.sample(others[:5], R.randint(1, 3))
    if k == 4:
        l = R.sample(others[:5], R.randint(1, 4))
        l.insert(R.randint(0, len(l)), mss)
        return l
    if k == 5:
        l = R.sample(others[:5], R.randint(0, 3))
        l.insert(R.randint(0, len(l)), mss)
        l.insert(R.randint(0, len(l)), ["MSS", R.choice(MSS_VALUES)])
        return l
    return R.sample(others[:5], R.randint(0, 2)) + [mss]


def generate(R, tier):
    n = 10000 if tier == "quick" else 500000
    top = 2000 if tier == "quick" else 65535
    # the MSS / window pairs the Options defaults name (the p0f-sendsyn probe: MSS 1331, window 1337) and their neighbours: ordinary packets for MTU purposes
    for v in (4, 6):
        for fl in (2, 0x12):
            for mss in (1331, 1330, 1337):
                for win in (1337, 1331, 8192, 0):
                    hit = mss + (40 if v == 4 else 60)
                    yield {"stream": "special-mss-window", "mode": "sniffed", "spec": {"v": v, "flags": fl, "ack": 9 if fl == 0x12 else 0, "win": win, "opts": W.o_mss(mss)},
                           "m": hit, "dbm": [hit + 1, hit, hit]}
    for mss in range(1, top + 1):
        v = 4 if mss % 2 else 6
        yield {"stream": "mss-sweep", "mode": "sniffed", "spec": {"v": v, "flags": 2, "opts": W.o_mss(mss)}, "m": min(65535, mss + 40), "dbm": [min(65535, x) for x in (mss + 39, mss + 60, mss + 40, mss + 40)]}
    for _ in range(n):
        v = R.choice([4, 6])
        fl = R.choice([2, 2, 2, 0x12, 0x12, 0x10, 0x18, 0x03, 0x06, 0x04, 0x11, 0x0A, 0xC2, 0x52])
        m = R.choice([41, 61, 576, 1280, 1400, 1492, 1500, 9000, 65535, R.randrange(41, 65536), R.randrange(41, 65536)])
        if m - (40 if v == 4 else 60) <= 0:
            m += 60
        dbm = None if R.random() < 0.03 else [min(65535, max(1, R.choice([1500, 1492, 576, 1280, m, m + 1, m - 1]))) for _ in range(R.randint(0, 6))]
        c = {"stream": "built", "mode": "built", "v": v, "flags": fl, "opts": rand_opts(R), "m": m, "dbm": dbm,
             "frag": R.random() < 0.04}
        if v == 6 and R.random() < 0.15:
            # an IPv6 base with an extension header between IPv6 and TCP: still a TCP/IP packet for impersonate_mtu (the fingerprint side
            # of extension headers is outside the model, so only the impersonated option list is judged)
            c["exthdr"] = R.choice(["hbh", "dst", "rt"])
            c["stream"] = "built-ipv6-exthdr"
        if R.random() < 0.5:
            spec, p, ty = G.rand_wire_pkt(R, flags=fl & 0x17 if fl & 0x17 else 2)
            spec["flags"] = fl
            spec.pop("link", None)                   # this check wraps the base itself (case field "link")
            if R.random() < 0.08:
                spec["mf"] = True
                spec["df"] = R.random() < 0.5
                spec["evil"] = R.random() < 0.3
            c = {"stream": "sniffed", "mode": "sniffed", "spec": spec, "m": m, "dbm": dbm}
            if p["mss"] and dbm is not None:
                hit = min(65535, p["mss"] + (40 if spec["v"] == 4 else 60))
                dbm.insert(R.randint(0, len(dbm)), hit)
                if R.random() < 0.3:
                    dbm.append(hit)
        if R.random() < 0.3:
            c["link"] = R.choice(["ether", "ether", "dot1q", "sll"])
        yield c


def spell(m, k, raw=False):
    """One of the spellings of the number m that the signature grammar (int()) accepts; deterministic in (m, k)."""
    forms = ["%d", "%d", "%d", "+%d", "0%d", "00%d"] + (["%d ", " %d", "%d\n", "\t%d"] if raw else [])
    f = forms[(m * 7 + k) % len(forms)]
    if m >= 1000 and (m + k) % 11 == 0:
        return format(m, "_")                     # 1_500
    return f % m


def db_lines(dbm):
    """The records in file order.  With three or more of them the [mtu] section is opened AGAIN half-way (another section in between): a section
    continued further down accumulates (deterministic in dbm, so model and implementation see the same file)."""
    lines = ["[mtu]"]
    recs = []
    reopen = len(dbm) // 2 if len(dbm) >= 3 and sum(dbm) % 2 else None
    for i, m in enumerate(dbm):
        if i == reopen:
            lines += ["[tcp:request]", "label = s:unix:X:y", "[mtu]"]
        ind = ["", "", " ", "\t", "    "][(m + i) % 5]          # parameter lines may be indented
        lines.append(ind + "label = " + ["L%d", "L%d", "PPPoE: DSL %d", "x:y:%d", ":%d", "L%d:"][(m + 2 * i) % 6] % i)      # an MTU label is free text, colons included
        lines.append(ind + "sig = " + spell(m, i))
        recs.append((len(lines), m))
    return lines, recs


def abstract(opts):
    table = {}
    out = []
    for name, val in opts:
        if name == "MSS":
            out.append((0, int(val) if isinstance(val, int) else -1))
        else:
            key = "%r/%r" % (name, val)
            out.append((1, table.setdefault(key, len(table) + 1)))
    return out, {v: k for k, v in table.items()}


def model_cases(cases, impl_res, run_model):
    from harness import findings
    lines, where = [], []
    out = [dict() for _ in cases]
    # the verified extractor reads (fragment, type, version, MSS) from the IP datagram's bytes (as Scapy serialises the base packet);
    # nothing pyp0f extracted is given to the model
    ex_idx = [i for i, ir in enumerate(impl_res) if isinstance(ir, dict) and ir.get("raw_ip")]
    ex = dict(zip(ex_idx, run_model(["extract %d 0 %s" % (impl_res[i]["ver"], impl_res[i]["raw_ip"]) for i in ex_idx])))
    for i, (c, ir) in enumerate(zip(cases, impl_res)):
        if not isinstance(ir, dict) or "before" not in ir:
            out[i] = {"skipped": True}
            continue
        if c["dbm"] is None:
            dbs = "-1"
        else:
            recs = db_lines(c["dbm"])[1]
            dbs = "%d %s" % (len(recs), " ".join("%d %d" % r for r in recs)) if recs else "0"
        if c.get("exthdr"):
            ab, _ = abstract(ir["before"])
            lines.append("imp_mtu %d %d %d %s" % (c["m"], ir["ver"], len(ab), " ".join("%d %d" % x for x in ab)))
            where.append((i, "imp"))
            continue
        ao = "nogate" in ir and findings.scapy_ao_short(bytes.fromhex(W.full(c["spec"])["opts"])) if c["mode"] == "sniffed" else False
        if i in ex and not ao:
            e = ex[i]
            if isinstance(e, dict) and "ok" in e:
                k = e["ok"]
                lines.append("fp_mtu %s %d %d %d %d" % (dbs, int(k["ip"]["is_fragment"]), k["tcp"]["type"], k["ip"]["version"], k["tcp"]["options"]["mss"]))
                where.append((i, "fp"))
            else:
                out[i]["fp"] = {"err": "PacketError"}
        ab, _ = abstract(ir["before"])
        lines.append("imp_mtu %d %d %d %s" % (c["m"], ir["ver"], len(ab), " ".join("%d %d" % x for x in ab)))
        where.append((i, "imp"))
    for (i, k), r in zip(where, run_model(lines)):
        out[i][k] = r
    return out


def impl_init():
    from scapy.layers.inet import IP, TCP
    from scapy.layers.inet6 import IPv6
    from pyp0f.exceptions import PacketError, DatabaseError
    from pyp0f.fingerprint import fingerprint_mtu
    from pyp0f.impersonate import impersonate_mtu
    from pyp0f.net.packet import parse_packet
    from pyp0f.options import Options
    from harness import implutil as U

    def canon(opts):
        out = []
        for name, val in opts:
            if isinstance(val, tuple):
                val = list(val)
            if isinstance(val, bytes):
                val = val.hex()
            out.append([name if isinstance(name, (str, int)) else repr(name), val])
        return out

    def fields(pkt):
        out = []
        layer = pkt
        while layer is not None and layer.name != "NoPayload":
            f = {k: (v if isinstance(v, (int, str, type(None))) else repr(v)) for k, v in layer.fields.items() if k != "options" or layer.name != "TCP"}
            out.append([layer.name, f])
            layer = layer.payload if layer.payload is not None else None
        return out

    def fp(pkt, db):
        try:
            style = len(bytes(pkt))
            arg = pkt
            if (style // 3) % 2:
                try:
                    arg = parse_packet(pkt)                  # both accepted argument types: the Scapy packet or the parsed Packet
                except PacketError:
                    arg = pkt
            with U.options_as(style, database=db) as kw:
                r = fingerprint_mtu(arg, **kw)
            return {"ok": [r.packet_signature.mtu, None if r.match is None else r.match.line_number], "label": None if r.match is None else r.match.label.dump()}
        except PacketError:
            return {"err": "PacketError"}
        except DatabaseError:
            return {"err": "DatabaseError"}

    refdb = U.load_db("[mtu]\n")

    def impl(c):
        if c["mode"] == "sniffed":
            base = U.scapy_from_spec(c["spec"])
        else:
            ip = IP(frag=5 if c.get("frag") else 0) if c["v"] == 4 else IPv6()
            if c.get("exthdr"):
                from scapy.layers.inet6 import IPv6ExtHdrDestOpt, IPv6ExtHdrHopByHop, IPv6ExtHdrRouting
                ip = ip / {"hbh": IPv6ExtHdrHopByHop, "dst": IPv6ExtHdrDestOpt, "rt": IPv6ExtHdrRouting}[c["exthdr"]]()
            opts = [(n, tuple(v) if isinstance(v, list) else (bytes.fromhex(v[4:]) if isinstance(v, str) and v.startswith("hex:") else v)) for n, v in c["opts"]]
            base = ip / TCP(flags=c["flags"], seq=1, options=opts)
        if c.get("link"):
            from scapy.layers.l2 import CookedLinux, Dot1Q, Ether
            mac = dict(src="02:00:00:00:00:01", dst="02:00:00:00:00:02")      # explicit: a bare Ether() asks Scapy's routing/ARP tables
            base = {"ether": Ether(**mac), "dot1q": Ether(**mac) / Dot1Q(vlan=7), "sll": CookedLinux()}[c["link"]] / base
        if c["dbm"] is None:
            from pyp0f.database import Database
            db = Database()
        else:
            db = U.load_db("\n".join(db_lines(c["dbm"])[0]) + "\n")
        out = {}
        try:
            parsed = parse_packet(base)
            out["gate"] = {"frag": bool(parsed.ip.is_fragment), "type": int(parsed.tcp.type), "ver": parsed.ip.version, "mss": parsed.tcp.options.mss}
        except PacketError:
            out["nogate"] = True
        out["fp"] = fp(base, db)
        TCPL = base.getlayer("TCP")
        if TCPL is None:
            return dict(out, no_tcp=True)
        out["ver"] = base.version
        ipl = base.getlayer("IP") or base.getlayer("IPv6")
        out["raw_ip"] = bytes(ipl).hex()
        try:      # does Scapy re-serialise this option area to the bytes it was dissected from? (not for hostile option areas)
            out["opts_stable"] = c["mode"] != "sniffed" or TCPL.get_field("options").i2m(TCPL, TCPL.options) == bytes.fromhex(W.full(c["spec"])["opts"])
        except Exception:
            out["opts_stable"] = False
        out["before"] = canon(TCPL.options)
        out["fields_before"] = fields(base)
        # half of the time the packet is impersonated IN PLACE (no copy): the object handed back is then re-fingerprinted as it is
        work = base.copy() if c["m"] % 2 else base
        res = impersonate_mtu(work, raw_signature=spell(c["m"], len(c.get("dbm") or []), raw=True))
        out["same_object"] = res is work
        out["after"] = canon(res.getlayer("TCP").options)
        out["fields_after"] = fields(res)
        try:
            out["refp"] = fp(res, refdb)
        except Exception as e:  # building may fail for an out-of-range MSS
            out["refp"] = {"exc": type(e).__name__}
        if c["mode"] != "sniffed" and c["m"] % 3 == 0:
            # two packets of the caller that were given the SAME option list object: impersonating one of them must not reach the other
            # (nor the caller's list)
            shared = [("MSS", 1460), ("NOP", None), ("WScale", 7)]
            first = IP() / TCP(flags="S", seq=1)
            second = IP() / TCP(flags="S", seq=2)
            first.getlayer("TCP").options = shared
            second.getlayer("TCP").options = shared
            try:
                impersonate_mtu(second, raw_signature=str(c["m"]))
            except Exception:
                pass
            if canon(first.getlayer("TCP").options) != canon([("MSS", 1460), ("NOP", None), ("WScale", 7)]) or shared != [("MSS", 1460), ("NOP", None), ("WScale", 7)]:
                out["sibling_changed"] = [canon(first.getlayer("TCP").options), [list(x) for x in shared]]
        return out
    return impl


def outcome(c, ir, mr):
    if isinstance(mr, dict) and "fp" in mr:
        f = mr["fp"]
        return "fp:" + ("ok" if "ok" in f else f.get("err", "?"))
    return "imp-only" if isinstance(mr, dict) and "imp" in mr else "skipped"


def nontrivial(c, ir, mr):
    return isinstance(mr, dict) and "ok" in mr.get("fp", {})


def judge(c, ir, mr):
    if not isinstance(ir, dict) or "exc" in ir:
        return {"kind": "implementation raised", "why": str(ir)}
    if ir.get("no_tcp"):
        return None if (c.get("frag") or c.get("spec", {}).get("frag")) else {"kind": "no TCP layer", "why": str(ir)}
    if "fp" in mr:
        lab = ir["fp"].pop("label", None) if isinstance(ir["fp"], dict) else None
        if isinstance(ir.get("refp"), dict):
            ir["refp"].pop("label", None)
        if ir["fp"] == mr["fp"] and "ok" in ir["fp"] and ir["fp"]["ok"][1] is not None and c.get("dbm") is not None:
            # the record found carries the label the FILE gives it: the whole text of the label line above it
            want_lab = db_lines(c["dbm"])[0][ir["fp"]["ok"][1] - 2].split("=", 1)[1].strip()
            if lab != want_lab:
                return {"kind": "MTU fingerprint differs from MSS + header size / first equal record", "why": "the record at line %d is reported with label %r, the file says %r" % (ir["fp"]["ok"][1], lab, want_lab),
                        "judged_by": "C08_value_first (the record of the file)"}
        if ir["fp"] != mr["fp"]:
            return {"kind": "MTU fingerprint differs from MSS + header size / first equal record", "why": "impl %s model %s" % (ir["fp"], mr["fp"]),
                    "judged_by": "C08_value_first / C08_gate"}
    # impersonation: abstract comparison
    ab, table = abstract(ir["before"])
    want = mr["imp"]
    got, _ = abstract(ir["after"])
    got2 = []
    inv = {}
    for k, v in table.items():
        inv[v] = k
    for name, val in ir["after"]:
        if name == "MSS":
            got2.append([0, val])
        else:
            got2.append([1, inv.get("%r/%r" % (name, val), -99)])
    if got2 != want:
        # property-level judgement: other options kept in order, every former MSS position still MSS with the new value
        others_b = [x for x in ir["before"] if x[0] != "MSS"]
        others_a = [x for x in ir["after"] if x[0] != "MSS"]
        mss_a = [x[1] for x in ir["after"] if x[0] == "MSS"]
        hdr = 40 if ir["ver"] == 4 else 60
        if others_a == others_b and mss_a and all(v == c["m"] - hdr for v in mss_a) and (
                not any(x[0] == "MSS" for x in ir["before"]) or [x[0] for x in ir["before"]] == [x[0] for x in ir["after"]]):
            return {"kind": "impersonated option list differs from the model but satisfies the property", "why": "impl %s model %s" % (got2, want),
                    "no_failing_input": True}
        return {"kind": "impersonate_mtu did not replace MSS in place / keep the other options", "why": "before %s after %s model %s" % (ir["before"], ir["after"], want),
                "judged_by": "C08_untouched"}
    if ir.get("sibling_changed"):
        return {"kind": "impersonate_mtu on one packet changed another packet (or the caller's own option list) that shares the list object", "why": str(ir["sibling_changed"])[:300],
                "judged_by": "C08_untouched (the rewritten list is a new list)"}
    if ir["fields_before"] != ir["fields_after"]:
        return {"kind": "impersonate_mtu changed a header field other than the TCP options", "why": "%s -> %s" % (ir["fields_before"], ir["fields_after"])}
    g = ir.get("gate")
    if c["mode"] == "built":
        # what the packet IS is known from how it was built (an extension header does not make an IPv6 datagram a fragment), not taken from the implementation
        g = {"frag": bool(c.get("frag")) and c["v"] == 4, "type": c["flags"] & 0x17}
    hdr = 40 if ir["ver"] == 4 else 60
    # a packet dissected from the wire keeps its explicit length fields: the round trip is only meaningful when the option area keeps
    # its size, i.e. the base already had an MSS option that is replaced in place
    same_size = c["mode"] == "built" or (ir.get("opts_stable") and any(x[0] == "MSS" for x in ir["before"]) and len(ir["before"]) == len(ir["after"]))
    if g and not g["frag"] and g["type"] in (2, 0x12) and 0 < c["m"] - hdr <= 65535 and same_size:
        if ir["refp"].get("ok", [None])[0] != c["m"]:
            return {"kind": "MTU fingerprint of the impersonated packet is not m", "why": "m=%d refp=%s" % (c["m"], ir["refp"]), "judged_by": "C08_roundtrip"}
    return None
