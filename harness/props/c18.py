"""C18: printed option layouts and quirk lists parse back to the same signature fields."""
from harness import tcpgen as G, wire as W
from harness.props import c03

RULE = ("random wire packets (C03 generator, incl. hostile option areas, unknown kinds, EOL padding) -> real dump()/dump_quirks() -> "
        "real TCPSignature.parse -> real match; the printed texts are compared with the model's printer, the parse-back with the "
        "packet's own fields AND with what the verified extractor reads from the packet's bytes, and the self-written signature (written from the packet signature AND from the parsed packet's own option object) must match the packet exactly; direct sweeps over layouts of kinds "
        "0..255 and quirk sets (quick: all single/double bits + 3000 random; thorough: all 2^17); non-trivial = non-empty layout "
        "or quirk set")
GEN_TIE = ['options', 'sig']     # TCPOptions.parse (the option walker's while loop) is also TRANSLATED from /repo's source on every run and proved equal to the model
ASSUMPTIONS = []
EXHAUSTIVE = {"all 2^17 quirk sets (thorough tier)": True, "every single option kind 0..255 x eol padding {0,1,255}": True}


def generate(R, tier):
    n = 6000 if tier == "quick" else 500000
    for k in range(256):
        for pad in (0, 1, 255):
            yield {"stream": "kind-sweep", "direct": {"layout": [2, k, 0] if k % 2 else [k], "eol": pad, "quirks": 1 << (k % 17)}}
    if tier == "thorough":
        for q in range(1 << 17):
            yield {"stream": "quirk-sweep", "direct": {"layout": [], "eol": 0, "quirks": q}}
    else:
        for i in range(17):
            for j in range(i, 17):
                yield {"stream": "quirk-sweep", "direct": {"layout": [], "eol": 0, "quirks": (1 << i) | (1 << j)}}
        for _ in range(3000):
            yield {"stream": "quirk-sweep", "direct": {"layout": [R.randrange(256) for _ in range(R.randint(0, 12))], "eol": R.choice([0, 3, 255]), "quirks": R.getrandbits(17)}}
    # long layouts: 40 option bytes hold up to 40 one-byte options (NOP / EOL); every length 0..40 occurs
    for n_opts in range(0, 41):
        for lay in ([1] * n_opts, ([2] + [1] * (n_opts - 1)) if n_opts else [], [1] * max(0, n_opts - 1) + ([0] if n_opts else []),
                    [R.choice([1, 1, 1, 4, 77, 255]) for _ in range(n_opts)]):
            yield {"stream": "long-layout", "direct": {"layout": lay, "eol": R.choice([0, 0, 2]) if (lay and lay[-1] == 0) else 0, "quirks": 0}}
    for nops in (21, 24, 25, 26, 36, 40):
        for v in (4, 6):
            yield {"stream": "packet", "spec": {"v": v, "flags": 2, "opts": "01" * nops + "00" * ((-nops) % 4)}}
    for c in c03.generate(R, tier):
        if c["stream"] in ("well-formed", "hostile-options"):
            n -= 1
            if n < 0:
                break
            yield {"stream": "packet", "spec": c["spec"]}


def model_cases(cases, impl_res, run_model):
    lines, idx = [], []
    out = [None] * len(cases)
    for i, (c, ir) in enumerate(zip(cases, impl_res)):
        if isinstance(ir, dict) and "fields" in ir:
            f = ir["fields"]
            lines.append("dump %s %d %d" % (G.enc_list(f["layout"]), f["eol"], f["quirks"]))
            idx.append(i)
        else:
            out[i] = {"skipped": True}
    for i, r in zip(idx, run_model(lines)):
        out[i] = r
    # what the packet's BYTES say (the verified extractor of C03): the printed layout / quirks must denote that, not merely be self-consistent
    pk = [i for i, c in enumerate(cases) if "spec" in c and isinstance(out[i], list)]
    ex = run_model(["extract %d 0 %s" % (W.full(cases[i]["spec"])["v"], W.build(cases[i]["spec"]).hex()) for i in pk])
    for i, r in zip(pk, ex):
        if isinstance(r, dict) and isinstance(r.get("ok"), dict) and "psig" in r["ok"]:
            ps = r["ok"]["psig"]
            out[i] = list(out[i]) + [{"wire": [ps["layout"], ps["eol"], ps["quirks"]]}]
    return out


def impl_init():
    from pyp0f.database.signatures.tcp import TCPSignature, _parse_options, _parse_quirks
    from pyp0f.exceptions import PacketError
    from pyp0f.fingerprint.tcp import tcp_signatures_match
    from pyp0f.net.layers.tcp import TCPOptions
    from pyp0f.net.packet import parse_packet
    from pyp0f.net.quirks import Quirk, dump_quirks
    from pyp0f.net.signatures import TCPPacketSignature
    from pyp0f.options import Options
    from harness import implutil as U
    from pyp0f.database import Database
    from pyp0f.fingerprint import fingerprint_tcp
    shared_db = Database()

    def impl(c):
        if "direct" in c:
            d = c["direct"]
            o = TCPOptions(layout=list(d["layout"]), quirks=Quirk(0), eol_padding_length=d["eol"])
            q = Quirk(d["quirks"])
            ps = None
        else:
            try:
                from harness.props import c16
                sp = c["spec"]
                if c16.simple_opts(sp.get("opts", "")) and not sp.get("ipopts") and len(sp.get("opts", "")) % 3 == 0:
                    # the caller's ONE Scapy object, parsed before while its sequence number was another one (zero <-> non-zero), then updated in place
                    k = parse_packet(U.scapy_reused_seq(sp, parse_packet))
                else:
                    k = parse_packet(U.scapy_from_spec(sp))
            except PacketError:
                return {"skip": "PacketError"}
            ps = TCPPacketSignature.from_packet(k)
            o, q = ps.options, ps.quirks
        lt, qt = o.dump(), dump_quirks(q)
        back_l, back_e = _parse_options(lt)
        back_q = _parse_quirks(qt, -1)
        out = {"fields": {"layout": [int(x) for x in o.layout], "eol": o.eol_padding_length, "quirks": q.value},
               "texts": [lt.encode().hex(), qt.encode().hex()], "back": [[int(x) for x in back_l], back_e, back_q.value]}
        if ps is not None:
            text = ":".join([str(ps.ip_version), str(max(1, ps.ttl)), str(ps.ip_options_length), str(ps.options.mss),
                             "%d,%d" % (ps.window_size, ps.options.window_scale), lt, qt, "+" if ps.has_payload else "0"])
            # the same signature written from the parsed PACKET's option object (result.packet.tcp.options) denotes the same layout and padding
            ko = k.tcp.options
            out["packet_view"] = [[int(x) for x in ko.layout], ko.eol_padding_length, ko.dump().encode().hex()]
            if ps.ttl >= 1:
                text_k = ":".join([str(ps.ip_version), str(max(1, ps.ttl)), str(ps.ip_options_length), str(ko.mss),
                                   "%d,%d" % (ps.window_size, ko.window_scale), ko.dump(), qt, "+" if ps.has_payload else "0"])
                mk = tcp_signatures_match(TCPSignature.parse(text_k), TCPPacketSignature.from_packet(k), Options())
                out["self_match_packet_view"] = None if mk is None else mk.name
            if ps.ttl >= 1:
                sig = TCPSignature.parse(text)
                m = tcp_signatures_match(sig, ps, Options())
                out["self_match"] = None if m is None else m.name
                # ... and the written signature, loaded as a one-record database into the SAME Database object every time, labels the packet
                if m is not None and ps.ttl >= 1 and int(k.tcp.type) in (2, 0x12) and not k.ip.is_fragment:
                    sec = "request" if int(k.tcp.type) == 2 else "response"
                    # (observations are appended to the file one block at a time, each under its own section header: the section continues)
                    more = "[tcp:%s]\nlabel = s:unix:Appended:later\nsig = 4:255:0:1:31337,0:mss::0\n" % sec if len(text) % 2 else ""
                    # (the layout / quirk text does not depend on the direction: the same observation may be filed under both directions of the same label)
                    both = "[tcp:%s]\nlabel = s:unix:Written:x\nsig = %s\n" % ("response" if sec == "request" else "request", text) if len(text) % 3 == 0 else ""
                    U.load_db("%s[tcp:%s]\nlabel = s:unix:Written:x\nsig = %s\n%s" % (both, sec, text, more), shared_db)
                    try:
                        r = fingerprint_tcp(k, options=Options(database=shared_db))
                        out["db_match"] = None if r.match is None else r.match.type.name
                    except Exception as e:   # noqa
                        out["db_match"] = type(e).__name__
        return out
    return impl


def outcome(c, ir, mr):
    return "skipped" if not isinstance(mr, list) else ("ok" if "ok" in mr[2] and "ok" in mr[3] else "model-parse-error")


def nontrivial(c, ir, mr):
    return isinstance(ir, dict) and "fields" in ir and bool(ir["fields"]["layout"] or ir["fields"]["quirks"])


def judge(c, ir, mr):
    if isinstance(ir, dict) and "skip" in ir:
        return None
    if not isinstance(ir, dict) or "fields" not in ir:
        return {"kind": "dump or parse-back raised", "why": str(ir), "judged_by": "C18_layout / C18_quirks"}
    f = ir["fields"]
    has_eol = 0 in f["layout"]
    want = [f["layout"], f["eol"] if has_eol else 0, f["quirks"]]
    if ir["back"] != want and (has_eol or f["eol"] == 0):
        return {"kind": "printed layout/quirks do not parse back to the packet's own fields", "why": "fields %s texts %s back %s" % (f, [bytes.fromhex(x).decode() for x in ir["texts"]], ir["back"]),
                "judged_by": "C18_layout / C18_quirks"}
    wire = [x for x in (mr if isinstance(mr, list) else []) if isinstance(x, dict) and "wire" in x]
    if wire and wire[0]["wire"] != [f["layout"], f["eol"], f["quirks"]]:
        from harness import findings
        if not findings.scapy_ao_short(findings.raw_opt_area(W.build(c["spec"]), W.full(c["spec"])["v"])):
            return {"kind": "the printed layout / quirks do not denote what the packet's bytes say", "why": "printed from %s, the verified extractor reads %s" % ([f["layout"], f["eol"], f["quirks"]], wire[0]["wire"]),
                    "judged_by": "C03 extractor + C18_layout / C18_quirks"}
    if "packet_view" in ir and ir["packet_view"] != [f["layout"], f["eol"], ir["texts"][0]]:
        return {"kind": "the parsed packet and its packet signature print different option layouts", "why": "packet %s, signature %s" % (ir["packet_view"], [f["layout"], f["eol"], ir["texts"][0]])}
    if "self_match_packet_view" in ir and ir["self_match_packet_view"] != "EXACT":
        return {"kind": "a signature written from the parsed packet's options does not match that packet exactly", "why": str(ir)[:400]}
    if "self_match" in ir and ir["self_match"] != "EXACT":
        return {"kind": "a signature written from the packet does not match it exactly", "why": str(ir)}
    if "db_match" in ir and ir["db_match"] != "EXACT":
        return {"kind": "a signature written from the packet, loaded as a database, does not label that packet", "why": str(ir)[:400]}
    if isinstance(mr, list) and ir["texts"] != list(mr[:2]):
        return {"kind": "printed text differs from the verified printer (but parses back correctly)", "no_failing_input": True, "why": "impl %s model %s" % ([bytes.fromhex(x).decode() for x in ir["texts"]], [bytes.fromhex(x).decode() for x in mr[:2]]),
                "judged_by": "C18_layout / C18_quirks (the model printer is proved to be inverted by the parser)"}
    return None
