"""C07: HTTP payload parsing recovers first line and headers faithfully."""
from harness import httpgen as H

RULE = ("generated HTTP/1.x messages (GET/HEAD request or status line, header names with repeats and case variants, values with colon / "
        "empty / inner blanks / surrounding blanks, folded continuation lines, CRLF and bare LF per line, both directions, both minor "
        "versions and other digits, trailing body bytes incl. blank lines) with the expected parse computed from the message itself; "
        "plus all single-defect corruptions (delete/insert/replace one byte from a hostile alphabet at sampled positions, truncation at "
        "every offset for small messages); observable read_payload; non-trivial = parse accepted with >= 1 header")
ASSUMPTIONS = ["h11's maybe_extract_lines is modelled as: lines before the first LF-terminated blank piece (stripping one trailing CR each)"]
GEN_TIE = ["httpx", "h11", "re"]   # ("h11": h11's maybe_extract_lines AS INSTALLED + copy_buffer translated and proved equal to the model's extract_lines, translate/h112coq.py, Gen/GenH11P.v) read.py (first line, header lines, read_payload), header.py / http.py and signatures/http.py are also TRANSLATED (translate/http2coq.py) on every run and proved equal to the model (Gen/GenHttpP.v)
EXHAUSTIVE = {"truncation at every offset of the sampled valid messages": True}
HOSTILE = [13, 10, 32, 9, 58, 0, 255, 71, 72, 47, 49, 46]


def generate(R, tier):
    n = 4000 if tier == "quick" else 400000
    for i in range(n):
        direction = R.choice(["request", "response"])
        minor = R.choice([0, 1, 1, 1, R.randrange(10)])
        hs = H.rand_headers(R)
        body = R.choice([b"", b"", b"hello", b"\r\n\r\nGET / HTTP/1.1\r\n\r\n", b"\n", bytes(R.randrange(256) for _ in range(R.randint(0, 8)))])
        msg, expect = H.render(R, direction, minor, hs, body)
        yield {"stream": "valid", "payload": msg.hex(), "expect": [direction, minor, expect]}
        # single-defect corruptions
        k = R.random()
        for _ in range(2):
            pos = R.randrange(len(msg) + 1)
            op = R.randrange(4)
            if op == 0 and pos < len(msg):
                m2 = msg[:pos] + msg[pos + 1:]
            elif op == 1:
                m2 = msg[:pos] + bytes([R.choice(HOSTILE)]) + msg[pos:]
            elif op == 2 and pos < len(msg):
                m2 = msg[:pos] + bytes([R.choice(HOSTILE)]) + msg[pos + 1:]
            else:
                m2 = msg[:pos]
            yield {"stream": "single-defect", "payload": m2.hex()}
        if i % 40 == 0:
            for pos in range(len(msg)):
                yield {"stream": "truncation", "payload": msg[:pos].hex()}
        if i % 200 == 0:
            # whatever follows the blank line is not looked at - however much of it there is
            big, expect2 = H.render(R, direction, minor, hs, bytes(R.randrange(256) for _ in range(64)) * R.choice([260, 340, 1000]))
            yield {"stream": "valid-big-body", "payload": big.hex(), "expect": [direction, minor, expect2]}
    for ver in (b"HTTP/2.0", b"HTTP/0.9", b"HTTP/3.1", b"HTTP/1.", b"HTTP/1.12", b"HTTP/11", b"http/1.1", b"HTTP/1.a", b"HTTP/1,1", b"HTTP/1.1x", b"xHTTP/1.1",
                b"HTTP/2", b"HTTP/1.0", b"HTTP/1.9", b"HTTPS/1.1", b"HTTP/ 1.1", b"HTTP/1.1\x0b", b"HTTP/9.9", b"HTTP/0.0", b"ICY", b"HTTP/1.\xb2"):
        for eol in (b"\r\n", b"\n"):
            yield {"stream": "version-variants", "payload": (b"GET / " + ver + eol + b"Host: a" + eol + eol).hex()}
            yield {"stream": "version-variants", "payload": (ver + b" 200 OK" + eol + b"Server: a" + eol + eol).hex()}
    for meth in (b"GET", b"HEAD", b"POST", b"PUT", b"get", b"Get", b"GETX", b"OPTIONS", b"HEADS", b"CONNECT", b"DELETE", b"TRACE", b"PATCH"):
        yield {"stream": "method-variants", "payload": (meth + b" / HTTP/1.1\r\nHost: a\r\n\r\n").hex()}
    for s in (b"POST / HTTP/1.1\r\n\r\n", b"GET / HTTP/2.0\r\n\r\n", b"GET / HTTP/1.1\r\nNoColon\r\n\r\n", b"GET / HTTP/1.1\r\n: v\r\n\r\n",
              b"GET / HTTP/1.1\r\nA: b", b"GET /\r\n\r\n", b"GET\r\n\r\n", b"HTTP/1.1\r\n\r\n", b"HTTP/1.x 200\r\n\r\n", b" GET / HTTP/1.1\r\n\r\n",
              b"GET / HTTP/1.1\r\n Folded: first\r\n\r\n", b"\r\nGET / HTTP/1.1\r\n\r\n", b"\n", b"", b"GET / HTTP/1.1 \r\n\r\n", b"GET / HTTP/1.1\r\r\n\r\n",
              b"HTTP/0.9 200\r\n\r\n", b"HTTP/1.10 200\r\n\r\n", b"GET / HTTP/1.1\n\nbody", b"GET / HTTP/1.1\r\nA:1\r\n\tB\r\n C\r\n\r\n"):
        yield {"stream": "hand-picked", "payload": s.hex()}
    for m in H.line_shapes():
        yield {"stream": "line-shapes", "payload": m.hex()}


def model_line(c):
    return "read_payload " + (c["payload"] or "-")


def impl_init():
    from pyp0f.exceptions import PacketError
    from pyp0f.net.layers.http import HTTP, read_payload
    from pyp0f.net.signatures import HTTPPacketSignature
    from pyp0f.net.packet import Direction

    from h11._receivebuffer import ReceiveBuffer
    from pyp0f.fingerprint import fingerprint_http
    from pyp0f.options import Options
    from harness import implutil as U
    http_db = U.load_db("[http:request]\nlabel = s:!:a:\nsys = Linux\nsig = *:Host:::\n[http:response]\nlabel = s:!:b:\nsys = Linux\nsig = *:Server:::\n")

    def fp_accepts(buf):
        try:
            fingerprint_http(buf, options=Options(database=http_db))
            return True
        except PacketError:
            return False

    import scapy.all  # noqa: F401   (as after `from scapy.all import *`: every protocol layer is bound to its ports)
    from scapy.layers.inet import IP as SIP, TCP as STCP
    from scapy.layers.inet6 import IPv6 as SIP6
    from scapy.packet import Raw as SRaw
    from pyp0f.net.packet import parse_packet
    PORTS = [80, 8080, 53, 2000, 88, 464, 139, 445, 135, 1723, 443, 5060, 179, 389, 23]      # several have a Scapy dissector bound to them

    def via_packet(raw):
        """The same payload inside a TCP segment as sniffed (dissected from bytes; to / from a port Scapy has a protocol layer for)."""
        port = PORTS[len(raw) % len(PORTS)]
        # the carrier may be any segment with data: the HTTP signature of a packet is that of its payload, whatever the TCP flags or IP fragment bits say
        fl = ["PA", "PA", "A", "P", "FA", "S", "SF", "FPA", "R", ""][len(raw) % 10]
        l3 = (SIP(flags="MF") if len(raw) % 7 == 0 else SIP()) if len(raw) % 2 else SIP6()
        if not len(raw) % 2 and len(raw) % 6 == 0:
            # IPv6 with an extension header between the IPv6 header and TCP: the payload is the payload all the same
            from scapy.layers.inet6 import IPv6ExtHdrDestOpt, IPv6ExtHdrHopByHop
            l3 = SIP6() / (IPv6ExtHdrHopByHop() if len(raw) % 4 else IPv6ExtHdrDestOpt() / IPv6ExtHdrHopByHop())
        seg = l3 / (STCP(sport=40000, dport=port, flags=fl) if len(raw) % 4 < 2 else STCP(sport=port, dport=40000, flags=fl)) / SRaw(raw)
        pkt = l3.__class__(bytes(seg))
        if len(raw) % 2 and len(raw) % 5 == 0:
            # as captured on a host with segmentation offload: the IPv4 total-length field is 0 and the frame simply ends where the data ends
            from scapy.layers.l2 import Ether
            b = bytearray(bytes(seg))
            b[2:4] = b"\0\0"
            pkt = Ether(bytes(Ether(src="02:00:00:00:00:01", dst="02:00:00:00:00:02", type=0x800)) + bytes(b)) if len(raw) % 3 else SIP(bytes(b))
        out = []
        for name, f in (("HTTP.from_packet", lambda: HTTP.from_packet(pkt)), ("HTTPPacketSignature.from_packet", lambda: HTTPPacketSignature.from_packet(parse_packet(pkt)))):
            try:
                x = f()
                out.append([name, [x.version, [[bytes(h.name).hex(), bytes(h.value).hex()] for h in x.headers]]])
            except PacketError:
                out.append([name, "PacketError"])
        # ... and the caller's ONE packet object whose payload is replaced in place after a first parse: what is read is what it carries NOW
        obj = SIP() / STCP(sport=40000, dport=8080, flags="PA") / SRaw(b"GET /earlier HTTP/1.0\r\nX-Earlier: 1\r\n\r\n")
        try:
            HTTPPacketSignature.from_packet(parse_packet(obj))
        except PacketError:
            pass
        obj[SRaw].load = raw
        try:
            x = HTTPPacketSignature.from_packet(parse_packet(obj)) if raw else None
            if x is not None:
                out.append(["HTTPPacketSignature.from_packet (same object, payload replaced)", [x.version, [[bytes(h.name).hex(), bytes(h.value).hex()] for h in x.headers]]])
        except PacketError:
            out.append(["HTTPPacketSignature.from_packet (same object, payload replaced)", "PacketError"])
        return port, out

    def impl(c):
        raw = bytes.fromhex(c["payload"])
        k = len(raw) % 3               # every accepted buffer type; a bytearray / ReceiveBuffer must come back unconsumed
        if k == 0:
            buf = raw
        elif k == 1:
            buf = bytearray(raw)
        else:
            buf = ReceiveBuffer()
            buf += raw
        if k == 2:
            buf2 = ReceiveBuffer()
            buf2 += raw
        else:
            buf2 = bytearray(raw) if k == 1 else raw
        fp_ok = fp_accepts(buf2)
        try:
            d, v, hs = read_payload(buf)
            if bytes(buf) != raw:
                return {"exc": "the caller's buffer was consumed or altered"}
            if not fp_ok:
                return {"exc": "fingerprint_http rejects a payload (%s) that read_payload parses" % type(buf2).__name__}
        except PacketError:
            if fp_ok:
                return {"exc": "fingerprint_http accepts a payload read_payload rejects"}
            for cls in (HTTP, HTTPPacketSignature):
                try:
                    cls.from_buffer(raw)
                    return {"exc": "%s.from_buffer accepts a payload read_payload rejects" % cls.__name__}
                except PacketError:
                    pass
            if len(raw) % 5 == 0:
                port, got = via_packet(raw)
                for name, g in got:
                    if g != "PacketError":
                        return {"exc": "%s (port %d) accepts a payload read_payload rejects" % (name, port)}
            return {"err": "PacketError"}
        res = {"ok": ["request" if d == Direction.CLIENT_TO_SERVER else "response", v, [[bytes(h.name).hex(), bytes(h.value).hex()] for h in hs]]}
        # the layer / signature classes are further entry points to the same parse: they must agree with read_payload
        for cls in (HTTP, HTTPPacketSignature):
            try:
                x = cls.from_buffer(raw)
                got = [x.version, [[bytes(h.name).hex(), bytes(h.value).hex()] for h in x.headers]]
            except PacketError:
                got = "PacketError"
            if got != res["ok"][1:]:
                return {"exc": "%s.from_buffer disagrees with read_payload: %s" % (cls.__name__, str(got)[:120])}
        if len(raw) % 5 < 2:
            port, got = via_packet(raw)
            for name, g in got:
                if g != res["ok"][1:]:
                    return {"exc": "%s on a segment to/from port %d disagrees with read_payload on the same payload: %s" % (name, port, str(g)[:120])}
        return res
    return impl


def outcome(c, ir, mr):
    if isinstance(mr, dict) and "ok" in mr:
        return "parsed:" + mr["ok"][0]
    return mr.get("err", "?") if isinstance(mr, dict) else "model-error"


def nontrivial(c, ir, mr):
    return isinstance(mr, dict) and "ok" in mr and len(mr["ok"][2]) > 0


def judge(c, ir, mr):
    if "expect" in c and ir != {"ok": c["expect"]}:
        return {"kind": "a well-formed message was not parsed to its own first line and headers", "why": "impl %s expected %s" % (str(ir)[:300], c["expect"]),
                "judged_by": "C07_roundtrip (expected value computed from the message by the generator)"}
    if ir == mr:
        return None
    return {"kind": "HTTP payload parse differs from the verified reader", "why": "payload %r: impl %s model %s" % (bytes.fromhex(c["payload"])[:120], str(ir)[:300], str(mr)[:300]),
            "judged_by": "C07_roundtrip / C07_reject_*"}


def shrink(c):
    b = bytes.fromhex(c["payload"])
    c2 = {k: v for k, v in c.items() if k != "expect"}
    lines = b.split(b"\n")
    for i in range(len(lines)):
        yield dict(c2, payload=b"\n".join(lines[:i] + lines[i + 1:]).hex())
    for i in range(0, len(b), max(1, len(b) // 30)):
        yield dict(c2, payload=(b[:i] + b[i + 1:]).hex())
