"""C13: uptime detection (32-bit tick arithmetic, thresholds, rounding)."""
from harness import wire as W

RULE = ("timestamp pairs around the 2^32 wrap, backward steps 1..10^6, ticks 0..10, elapsed ms around min wait / grace / max wait, "
        "tick counts aimed at frequencies straddling min/max scale and every rounding-bucket edge (with fractional parts), all packet "
        "types incl. invalid ones and fragments, other options (also known kinds with a wrong length) in front of the timestamp option (a fifth of them through ONE reused parsed Packet object whose fragment bit / type were updated since its last use), threshold variants; clock via replaced time.time_ns (both readings at unrelated offsets inside their millisecond); non-trivial = model gives a "
        "verdict or tps=-1; raw_frequency compared bit-for-bit with the correctly rounded num/den")
GEN_TIE = ['uptime']     # round_frequency, the packet gate, the whole body of fingerprint_uptime and Uptime.__post_init__ are also TRANSLATED from /repo's source on every run and proved equal to the model (floats as exact rationals)
ASSUMPTIONS = ["thresholds are sane: 0 < min scale <= max scale, min wait >= 1, grace > 0",
               "float tie: ticks*1000.0/ms is the correctly rounded quotient of exactly representable integers; thresholds used are "
               "rationals whose distance to any reachable num/ms (ms <= 10^6) exceeds float rounding error unless equal"]
EXHAUSTIVE = {"round_frequency via fingerprint_uptime for integer and half-integer frequencies 0..1600 (ms=2000)": True}
M32 = 2 ** 32
DEFAULT_O = {"min_wait": 25, "max_wait": 600000, "grace": 100, "min_sc": [7, 10], "max_sc": [1500, 1]}
EDGES = [0, 1, 10, 11, 50, 51, 100, 101, 500, 501, 1000, 1500]


def mk(o, flags, ts, last, ms, stream, frag=False, has_ts=True, last_has_ts=True):
    return {"stream": stream, "o": o, "flags": flags, "ts": ts % M32, "last": last % M32, "ms": ms, "frag": frag,
            "has_ts": has_ts, "last_has_ts": last_has_ts}


def generate(R, tier):
    n = 20000 if tier == "quick" else 2000000
    # rounding sweep through the API: ms = 2000 so ticks = 2f (+1 for .5)
    for f2 in range(0, 3201):
        yield mk(DEFAULT_O, 0x10, 5000 + f2, 5000, 2000, "round-sweep")
    for _ in range(n):
        o = dict(DEFAULT_O)
        r = R.random()
        if r < 0.25:
            o["min_sc"] = R.choice([[7, 10], [1, 2], [1, 1], [3, 4], [5, 1]])
            o["max_sc"] = R.choice([[1500, 1], [1000, 1], [100, 1], [3, 2], [1501, 2]])
            if o["min_sc"][0] * o["max_sc"][1] > o["max_sc"][0] * o["min_sc"][1]:
                o["max_sc"] = [1500, 1]
            o["grace"] = R.choice([100, 50, 200, 300, 1])
            o["min_wait"] = R.choice([25, 1, 100, 24])
            o["max_wait"] = R.choice([600000, 1000, 60000])
        ms = R.choice([o["min_wait"] - 1, o["min_wait"], o["min_wait"] + 1, o["grace"] - 1, o["grace"], o["grace"] + 1,
                       o["max_wait"] - 1, o["max_wait"], o["max_wait"] + 1, 30, 50, 99, 100, 250, 500, 1000, 2500, 10000,
                       R.randrange(1, 2000), R.randrange(1, 700000), 0, -5])
        last = R.choice([1, 2, 1000, M32 - 1, M32 - 3, M32 - 50, M32 - 100000, 2 ** 31, R.randrange(1, M32), R.randrange(1, M32)])
        k = R.random()
        if k < 0.45 and ms > 0:
            # aim at a frequency
            lo = o["min_sc"][0] / o["min_sc"][1]
            hi = o["max_sc"][0] / o["max_sc"][1]
            f = R.choice(EDGES + [lo, hi, lo * 0.99, lo * 1.01, hi * 0.999, hi * 1.001, 7.6, 92.6, 1032.6, R.uniform(0, 1700), R.uniform(0, 120)])
            f += R.choice([0, 0, 0.4, 0.5, 0.6, -0.5, 0.999])
            ticks = int(f * ms / 1000) + R.choice([-1, 0, 0, 1])
        elif k < 0.6:
            ticks = R.choice([0, 1, 2, 3, 4, 5, 6, 7, 10])
        elif k < 0.85:
            ticks = -R.choice([1, 2, 3, 5, 100, 999, 1000, 1001, 14999, 15000, 15001, 16000, 10 ** 6, R.randrange(1, 10 ** 6), R.randrange(1, 2 ** 31)])
        elif k < 0.95:
            ticks = R.choice([2 ** 31 - 1, 2 ** 31, 2 ** 31 + 1, R.randrange(0, M32)])
        else:
            ticks = None
        ts = R.choice([0, R.randrange(1, M32)]) if ticks is None else last + ticks
        if k > 0.97:
            last = 0
        flags = R.choice([0x10, 0x10, 0x10, 2, 2, 0x12, 0x12, 0x18, 0x0A, 0x52, 0x10, 2, 0x12, 0x10, 0x12, 2]) if R.random() < 0.9 else R.choice([0x11, 0x04, 0x14, 0x01, 0x03, 0x00, 0x16, 0x20, 0x06])
        yield mk(o, flags, ts, last, ms, "aimed", frag=R.random() < 0.03, has_ts=R.random() > 0.03, last_has_ts=R.random() > 0.03)


# other options in front of the timestamp option, some of them KNOWN kinds with a wrong (but in-bounds) length: they are flagged and skipped by
# their announced length, the timestamp behind them is still read
PRE_OPTS = ["", "", "", "", "020405b4", "03040700", "04030001", "0206aabbccdd0101", "08040001", "1e030101", "fe040000"]


def spec_of(flags, ts, has_ts, frag, pre=0):
    s = {"flags": flags, "seq": 7, "ack": 9 if flags & 0x10 else 0, "opts": (PRE_OPTS[pre % len(PRE_OPTS)] + "0101" + W.o_ts(ts, 0)) if has_ts else "", "mf": bool(frag)}
    return s


def eff(c):
    """(ts, last) as the code sees them: a missing TS option reads as timestamp 0."""
    return (c["ts"] if c["has_ts"] else 0), (c["last"] if c["last_has_ts"] else 0)


def model_line(c):
    o = c["o"]
    ts, last = eff(c)
    ty = c["flags"] & 0x17
    return "uptime %d %d %d %d %d %d %d %d %d %d %d %d" % (o["min_wait"], o["max_wait"], o["grace"], o["min_sc"][0], o["min_sc"][1],
                                                           o["max_sc"][0], o["max_sc"][1], int(c["frag"]), ty, ts, last, c["ms"])


def impl_init():
    import time
    clock = {"ns": 1_700_000_000_000_000_000}
    time.time_ns = lambda: clock["ns"]
    from pyp0f.exceptions import PacketError
    from pyp0f.fingerprint import fingerprint_uptime
    from pyp0f.net.layers.tcp import TCPFlag
    from pyp0f.net.packet import parse_packet
    from pyp0f.net.signatures import TCPPacketSignature
    from pyp0f.options import Options
    from harness import implutil as U

    def impl(c):
        o = c["o"]
        vals = dict(min_timestamp_scale=o["min_sc"][0] / o["min_sc"][1], max_timestamp_scale=o["max_sc"][0] / o["max_sc"][1],
                    min_timestamp_wait=o["min_wait"], max_timestamp_wait=o["max_wait"], timestamp_grace=o["grace"])
        # the clock starts somewhere else in every case: a receive time that is not taken when the signature is built shows up
        # ... and at some point INSIDE a millisecond (the two readings at unrelated sub-millisecond offsets): get_unix_time_ms is the
        # whole-millisecond part of the clock, so the elapsed time is the difference of the two whole-millisecond readings
        base_ms = 1_700_000_000_000 + (c["ts"] * 7919 + c["ms"] * 31 + c["last"]) % 10_000_000
        clock["ns"] = base_ms * 1_000_000 + (c["ts"] * 2654435761 + c["ms"]) % 1_000_000
        lastp = U.scapy_from_spec(spec_of(2, c["last"], c["last_has_ts"], False, pre=c["last"] + c["ms"]))
        last = TCPPacketSignature.from_packet(parse_packet(lastp))
        clock["ns"] = (base_ms + c["ms"]) * 1_000_000 + (c["last"] * 40503 + c["ms"] * 7 + 500_000) % 1_000_000
        pkt = U.scapy_from_spec(spec_of(c["flags"], c["ts"], c["has_ts"], c["frag"], pre=c["ts"] + c["ms"]))
        if (c["ts"] + c["ms"] + c["flags"]) % 5 == 0:
            # the caller keeps ONE parsed Packet (plain mutable dataclasses), has used it before while it described another packet
            # (fragment bit / flags), and has updated it since: the verdict follows what it says now
            try:
                pk = parse_packet(U.scapy_from_spec(spec_of([2, 0x12, 0x10, 0x11, 0x04][c["ms"] % 5], c["ts"], c["has_ts"], not c["frag"])))
                try:
                    fingerprint_uptime(pk, last)
                except PacketError:
                    pass
                pk.ip.is_fragment = bool(c["frag"])
                pk.tcp.type = TCPFlag(c["flags"] & 0x17)
                pkt = pk
            except PacketError:
                pass
        elif (c["ts"] + c["ms"] + c["flags"]) % 5 == 2:
            # the same packet as sniffed inside a link-layer frame (802.1Q tag, plain Ethernet, Linux cooked capture)
            pkt = U.scapy_from_spec(dict(spec_of(c["flags"], c["ts"], c["has_ts"], c["frag"], pre=c["ts"] + c["ms"]), link=["dot1q", "ether", "sll", "dot1q"][(c["ts"] + c["ms"]) % 4]))
        elif (c["ts"] + c["ms"] + c["flags"]) % 5 == 1:
            # a frame as captured (every layer dissected from bytes) whose TCP options the caller has REPLACED since, deleting the automatic fields so
            # that they are recomputed: the packet says what its fields say now
            from scapy.layers.l2 import Ether
            other = U.scapy_from_spec(spec_of(c["flags"], (c["ts"] + 777) % 2 ** 32, not c["has_ts"] or c["ts"] % 2 == 0, c["frag"], pre=c["ts"] + c["ms"] + 1))
            fr = Ether(bytes(Ether(src="02:00:00:00:00:01", dst="02:00:00:00:00:02", type=0x800)) + bytes(other))
            t = fr.getlayer("TCP")
            if t is not None and pkt.getlayer("TCP") is not None:
                t.options = list(pkt.getlayer("TCP").options)
                del t.dataofs, t.chksum
                ip = fr.getlayer("IP")
                del ip.len, ip.chksum
                if bytes(fr.getlayer("IP")) == bytes(pkt):          # (only when Scapy re-serialises the option list byte for byte)
                    pkt = fr
        if (c["ts"] + c["ms"] + c["flags"]) % 5 == 3 and getattr(pkt, "version", None) == 4 and pkt.name == "IP":
            # an ICMP error message QUOTING this very datagram (Scapy dissects the quote as IPerror / TCPerror layers): that is no TCP packet of anybody
            from scapy.layers.inet import ICMP as _ICMP, IP as _IP
            quoted = _IP(bytes(_IP(src="192.0.2.9", dst=pkt.src, ttl=60) / _ICMP(type=3, code=1) / bytes(pkt)))
            try:
                fingerprint_uptime(quoted, last)
                return {"exc": "an ICMP error message quoting a TCP header was accepted as a TCP packet"}
            except PacketError:
                pass
        try:
            with U.options_as(c["ts"] + c["ms"], **vals) as kw:
                r = fingerprint_uptime(pkt, last, **kw)
        except PacketError:
            return {"err": "PacketError"}
        if r.uptime is None:
            return {"ok": ["none" if r.tps is None else "bad:%r" % r.tps]}
        u = r.uptime
        return {"ok": ["up", r.tps, u.frequency, float(u.raw_frequency).hex(), u.total_minutes, u.modulo_days]}
    return impl


def canon_model(mr):
    if not isinstance(mr, dict) or "ok" not in mr:
        return mr
    v = mr["ok"]
    if v[0] == "up":
        tps, num, den, mins, days = v[1:]
        return {"ok": ["up", tps, tps, (num / den).hex(), mins, days]}
    return {"ok": ["bad:-1" if v[0] == "bad" else "none"]}


def outcome(c, ir, mr):
    if isinstance(mr, dict) and "ok" in mr:
        return mr["ok"][0]
    return mr.get("err", "model-error") if isinstance(mr, dict) else "model-error"


def nontrivial(c, ir, mr):
    return isinstance(mr, dict) and "ok" in mr and mr["ok"][0] != "none"


def close_enough(ir, cm):
    """raw_frequency: equal up to floating-point rounding (a different but equivalent order of operations is not a violation)."""
    try:
        a, b = ir["ok"], cm["ok"]
        if a[0] != "up" or b[0] != "up" or a[1:3] != b[1:3] or a[4:] != b[4:]:
            return False
        x, y = float.fromhex(a[3]), float.fromhex(b[3])
        return abs(x - y) <= 1e-12 * max(1.0, abs(y))
    except Exception:
        return False


def judge(c, ir, mr):
    if ir == canon_model(mr) or close_enough(ir, canon_model(mr)):
        return None
    return {"kind": "uptime verdict differs from the 32-bit tick-rate rule", "why": "impl %s, verified model %s" % (ir, canon_model(mr)),
            "judged_by": "C13_gate / C13_forward / C13_backward / C13_round_table"}


def shrink(c):
    if c["o"] != DEFAULT_O:
        yield dict(c, o=DEFAULT_O)
    if c["frag"]:
        yield dict(c, frag=False)
    if c["flags"] not in (2, 0x10, 0x12):
        yield dict(c, flags=c["flags"] & 0x17)
    d = (c["ts"] - c["last"]) % M32
    if c["last"] != 1000:
        yield dict(c, last=1000, ts=(1000 + d) % M32)
