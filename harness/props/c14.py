"""C14: impersonation keeps the connection identity and every admissible hint."""
from harness.props import c05
from harness import findings

RULE = ("the C05 runs, judged field by field: addresses, ports, SYN vs SYN+ACK nature, non-zero sequence number, and per wildcardable "
        "field (MSS, window scale, own/peer timestamp, window for '*', IPv4 id, payload) the three cases admissible hint / "
        "inadmissible hint / no hint, with admissibility decided by a predicate written from the property text (not from the code); "
        "a fixed value must override the hint, an inadmissible hint must be replaced by an admissible value; non-trivial = at least "
        "one admissible hint was available and had to be kept")
ASSUMPTIONS = c05.ASSUMPTIONS + ["calls with an explicit uptime argument are excluded from the own-timestamp check (the argument overrides by design)"]
EXHAUSTIVE = {}
GEN_TIE = "imp"   # impersonate/tcp.py is also TRANSLATED (translate/imp2coq.py) on every run and proved equal to the model (Gen/GenImpP.v)
generate = c05.generate
model_cases = c05.model_cases
impl_init = c05.impl_init
CASE_TIMEOUT = 5


def fields(c, ir):
    s = findings.parse_sig_text(c["sig"])
    b = ir["base"]
    o = ir["outf"]
    od = {}
    for n, v in o["opts"]:
        od[n] = v
    return s, b, o, od


def checks(c, ir):
    """Yields (field, kind, ok, detail); kind in admissible / inadmissible / none / fixed / identity."""
    s, b, o, od = fields(c, ir)
    q = set(s["quirks"])
    bf = ir["basef"]
    yield ("addresses", "identity", o["src"] == bf["src"] and o["dst"] == bf["dst"], "%s->%s vs %s->%s" % (o["src"], o["dst"], bf["src"], bf["dst"]))
    yield ("ports", "identity", (o["sport"], o["dport"]) == (b["sport"], b["dport"]), "")
    want_ack = b["flags"] & 0x10
    if "ack+" in q:
        want_ack = 0
    if "ack-" in q:
        want_ack = 0x10
    yield ("syn/ack nature", "identity", (o["flags"] & 0x02) == 0x02 and (o["flags"] & 0x10) == want_ack, "flags %#x base %#x" % (o["flags"], b["flags"]))
    if "seq-" in q:
        yield ("seq", "fixed", o["seq"] == 0, "")
    elif b["seq"]:
        yield ("seq", "admissible", o["seq"] == b["seq"], "out %d base %d" % (o["seq"], b["seq"]))
    else:
        yield ("seq", "none", o["seq"] != 0, "")
    kinds = s["kinds"]
    # MSS
    if 2 in kinds and kinds.count(2) == 1:
        out = od.get("MSS")
        if s["mss"] != "*":
            yield ("mss", "fixed", out == int(s["mss"]), "out %s" % out)
        else:
            def adm(h):
                if s["win"].startswith("mtu*"):
                    return None          # depends on a divisor search: not judged here (known finding KF-window-search)
                if h is None or not 0 <= h <= 65535:
                    return False
                if s["win"].startswith("mss*"):
                    n = int(s["win"][4:])
                    return h >= 100 and h * n <= 65535
                if s["win"].startswith("mtu*"):
                    return None          # depends on a divisor search: not judged here (known finding KF-window-search)
                return True
            a = adm(b["mss"])
            if a is True:
                yield ("mss", "admissible", out == b["mss"], "out %s hint %s" % (out, b["mss"]))
            elif a is False:
                yield ("mss", "inadmissible" if b["mss"] is not None else "none", adm(out) is True, "out %s hint %s" % (out, b["mss"]))
    # window scale
    if 3 in kinds and kinds.count(3) == 1:
        out = od.get("WScale")
        if s["scale"] != "*":
            yield ("wscale", "fixed", out == int(s["scale"]), "out %s" % out)
        else:
            adm = lambda h: h is not None and 0 <= h <= 255 and ((h > 14) == ("exws" in q))
            if adm(b["ws"]):
                yield ("wscale", "admissible", out == b["ws"], "out %s hint %s" % (out, b["ws"]))
            else:
                yield ("wscale", "inadmissible" if b["ws"] is not None else "none", adm(out), "out %s hint %s" % (out, b["ws"]))
    # timestamps
    if 8 in kinds and kinds.count(8) == 1 and isinstance(od.get("Timestamp"), list):
        t1, t2 = od["Timestamp"]
        if c["uptime"] is None:
            adm1 = lambda h: h is not None and 0 <= h < 2 ** 32 and ((h == 0) == ("ts1-" in q))
            if "ts1-" in q:
                yield ("ts1", "fixed", t1 == 0, "out %s" % t1)
            elif adm1(b["ts1"]):
                yield ("ts1", "admissible", t1 == b["ts1"], "out %s hint %s" % (t1, b["ts1"]))
            else:
                yield ("ts1", "inadmissible" if b["ts1"] is not None else "none", adm1(t1), "out %s hint %s" % (t1, b["ts1"]))
        is_syn = (b["flags"] & 0x12) == 0x02
        if is_syn:
            adm2 = lambda h: h is not None and 0 <= h < 2 ** 32 and ((h != 0) == ("ts2+" in q))
        else:
            adm2 = lambda h: h is not None and 0 <= h < 2 ** 32
        if adm2(b["ts2"]):
            yield ("ts2", "admissible", t2 == b["ts2"], "out %s hint %s syn=%s" % (t2, b["ts2"], is_syn))
        else:
            yield ("ts2", "inadmissible" if b["ts2"] is not None else "none", adm2(t2), "out %s hint %s" % (t2, b["ts2"]))
    # window
    if s["win"] == "*":
        yield ("window", "admissible", o["win"] == b["win"], "out %s base %s" % (o["win"], b["win"]))
    elif not (s["win"].startswith("mss*") or s["win"].startswith("mtu*") or s["win"].startswith("%")):
        yield ("window", "fixed", o["win"] == int(s["win"]), "out %s" % o["win"])
    # IPv4 id
    if b["ver"] == 4 and o["id"] is not None:
        if "df" in q:
            if "id+" in q:
                if b["id"]:
                    yield ("ip id", "admissible", o["id"] == b["id"], "out %s base %s" % (o["id"], b["id"]))
                else:
                    yield ("ip id", "inadmissible", o["id"] != 0, "")
            else:
                yield ("ip id", "fixed", o["id"] == 0, "out %s" % o["id"])
        elif "id-" in q:
            yield ("ip id", "fixed", o["id"] == 0, "out %s" % o["id"])
        elif b["id"]:
            yield ("ip id", "admissible", o["id"] == b["id"], "out %s base %s" % (o["id"], b["id"]))
        else:
            yield ("ip id", "inadmissible", o["id"] != 0, "")
    # payload
    if s["pay"] == "*":
        yield ("payload", "admissible", o["payload"] == b["payload"], "")
    elif s["pay"] == "0":
        yield ("payload", "fixed", o["payload"] == "", "")
    elif b["payload"]:
        yield ("payload", "admissible", o["payload"] == b["payload"], "")
    else:
        yield ("payload", "none", o["payload"] != "", "")
    yield ("new packet", "identity", not o["same_object"], "")


def usable(c, ir, mr):
    w = mr.get("witness") if isinstance(mr, dict) else None
    return isinstance(w, dict) and w.get("match") == "EXACT" and isinstance(ir, dict) and "outf" in ir


def outcome(c, ir, mr):
    if not usable(c, ir, mr):
        return "no-output"
    ks = sorted({k for _, k, _, _ in checks(c, ir)})
    return ",".join(ks)


def nontrivial(c, ir, mr):
    return usable(c, ir, mr) and any(k == "admissible" and f in ("mss", "wscale", "ts1", "ts2", "ip id") for f, k, _, _ in checks(c, ir))


def by_label_problem(ir):
    for fl, win, ws, *ttl in (ir.get("by_label") or []) if isinstance(ir, dict) else []:
        want = [8192, 7] if fl == "S" else [16384, 2]
        if ttl and ttl[0] != 61 and [win, ws] == want:
            return {"kind": "impersonation by label with extra_hops: the TTL is not signature TTL - extra_hops (the looked-up record drifts from call to call?)",
                    "why": "base %s: TTL %s, expected 64 - 3; sequence %s" % (fl, ttl[0], ir["by_label"]), "judged_by": "C05 statement (distance extra_hops) + C12 (records are not altered)"}
        if [win, ws] != want:
            return {"kind": "impersonation by label used a record of the other direction (or none)", "why": "base %s: window / scale %s, the record of its direction says %s; sequence %s" % (fl, [win, ws], want, ir["by_label"]),
                    "judged_by": "C14 statement (the output is built from the requested signature) + C15_sound"}
    return None


def judge(c, ir, mr):
    bl = by_label_problem(ir)
    if bl:
        return bl
    if not usable(c, ir, mr):
        # raising / unbuildable outputs are C05's subject - except where the MODEL of the unchanged code builds a packet for this very case and tape:
        # then the call lost the connection identity and every hint of the base where the code as verified keeps them
        w = mr.get("witness") if isinstance(mr, dict) else None
        m = mr.get("model") if isinstance(mr, dict) else None
        if isinstance(w, dict) and w.get("match") == "EXACT" and isinstance(ir, dict) and "raised" in ir and isinstance(m, dict) and "ok" in m \
                and isinstance(m["ok"].get("bytes"), dict) and "ok" in m["ok"]["bytes"] and m["ok"].get("unused_tape") == 0:
            return {"kind": "impersonate_tcp raised where the verified model of the code returns a packet (identity and hints of the base are lost)",
                    "why": "sig=%s raised=%s" % (c["sig"], ir["raised"]), "judged_by": "C14 statement + tie (model bytes under the same tape)"}
        return None
    for f, k, ok, d in checks(c, ir):
        if not ok:
            return {"kind": "impersonate_tcp did not keep/replace the %s as the property demands (%s case)" % (f, k),
                    "why": "sig=%s %s" % (c["sig"], d), "judged_by": "C14 statement: admissibility predicate written from the property text"}
    # tie: the model the C14 theorems are about reproduces bytes(out) under the same random tape
    m = mr.get("model")
    mb = m["ok"]["bytes"].get("ok") if isinstance(m, dict) and "ok" in m and isinstance(m["ok"].get("bytes"), dict) else None
    if isinstance(m, dict) and "ok" in m and isinstance(m["ok"].get("bytes"), dict) and "err" in m["ok"]["bytes"]:
        return None      # the abstract output cannot be encoded (option area > 40 bytes, value out of range): C05's subject, not a hint question
    if mb is None or c05.zero_checksums(mb, ir["ver"]) != c05.zero_checksums(ir["bytes"], ir["ver"]) or m["ok"]["unused_tape"] != 0:
        return {"kind": "correspondence: the impersonation model no longer reproduces bytes(out) under the same random tape",
                "why": "model %s impl %s" % (str(m)[:200], ir["bytes"][:200]), "no_failing_input": True}
    return None


def classify(c, ir, mr, verdict, findings_list):
    return None


shrink = c05.shrink
