"""C03: the signature extracted from wire bytes is what the IP/TCP headers say."""
from harness import tcpgen as G, wire as W
from harness.props import c16

RULE = ("byte-level packets built without Scapy: IPv4 IHL 5..15 with random option bytes, IPv6, all 512 flag combinations, "
        "id/DF/MBZ/ECN/flow combinations, option areas from well-formed options with NOP/EOL padding, hostile option areas "
        "(0-40 bytes over a length-ish alphabet), every option kind with every length; observable = every field of parse_packet "
        "and TCPPacketSignature.from_packet; non-trivial = model dissects the packet and the option area is non-empty")
GEN_TIE = ['options', 'layers']     # TCPOptions.parse (the option walker's while loop) and the whole extraction (IP._from_ipv4/_from_ipv6, TCP.from_packet, Packet.from_packet, TCPPacketSignature.from_packet; translate/lay2coq.py) are also TRANSLATED from /repo's source on every run and proved equal to the model
ASSUMPTIONS = ["Scapy dissection is on the implementation side; the model covers well-framed IPv4/IPv6+TCP datagrams only",
               "IPv6 extension headers and link-layer trailers are outside the demand"]
EXHAUSTIVE = {"all 512 TCP flag combinations x {v4, v6}": True, "every option kind 0..255 x length byte 0..41 at the start of a 40-byte area (thorough)": True,
              "all option areas of length 4 over the alphabet {0,1,2,3,4,5,8} (quick: sampled)": False}
ALPHA = [0, 1, 2, 3, 4, 5, 8, 9, 10, 34, 40, 255]


def hostile_opts(R):
    n = R.choice([0, 4, 4, 8, 8, 12, 16, 20, 24, 32, 40])
    r = R.random()
    if r < 0.5:
        return bytes(R.choice(ALPHA) for _ in range(n)).hex()
    if r < 0.8:
        # well-formed prefix then garbage
        opts, hx, eol = G.rand_options(R)
        b = bytes.fromhex(hx)[: R.randint(0, len(hx) // 2)] + bytes(R.choice(ALPHA) for _ in range(n))
        b = b[: (min(40, len(b)) // 4) * 4]
        return b.hex()
    return bytes(R.randrange(256) for _ in range(n)).hex()


def generate(R, tier):
    n = 20000 if tier == "quick" else 2000000
    for fl in range(512):
        for v in (4, 6):
            yield {"stream": "flags", "syn_mss": 1460, "spec": {"v": v, "flags": fl, "seq": fl % 3, "ack": (fl // 3) % 2 * 77, "urg": (fl // 7) % 2 * 5,
                                                                "opts": "0101" + W.o_ts(fl % 2 * 9, (fl // 2) % 2 * 3)}}
    kinds = range(256) if tier == "thorough" else [0, 1, 2, 3, 4, 5, 6, 8, 9, 14, 15, 19, 25, 28, 29, 34, 255]   # incl. every kind Scapy knows a format for
    for kind in kinds:
        for ln in range(42):
            for tail in ("00", "01", "5a"):
                area = bytes([kind, ln]) + bytes.fromhex(tail) * 38
                yield {"stream": "kind-len", "syn_mss": 0, "spec": {"v": 4, "flags": 2, "opts": area.hex()}}
    for _ in range(n):
        spec, p, ty = G.rand_wire_pkt(R, flags=R.choice([None, None, R.randrange(512)]))
        spec["win"] = R.choice([0, 1, 8192, 65535, R.randrange(65536)])
        r = R.random()
        st = "well-formed"
        if r < 0.35:
            spec["opts"] = hostile_opts(R)
            st = "hostile-options"
        if spec["v"] == 4 and R.random() < 0.3:
            k = R.choice([4, 8, 12, 20, 40])
            spec["ipopts"] = bytes(R.choice([0, 1, 7, 68, 130, 148, R.randrange(256)]) for _ in range(k)).hex() if R.random() < 0.5 else "01" * k
        if R.random() < 0.05:
            spec["mf"] = True
        if R.random() < 0.03 and spec["v"] == 4:
            spec["frag"] = R.choice([1, 185, 8191])
        if spec.get("dport") != 53:         # (port 53 + a DNS payload: dissected by Scapy as a DNS layer instead of Raw)
            spec["sport"] = R.choice([0, 1, 80, 65535, R.randrange(65536)])
            spec["dport"] = R.choice([0, 1, 443, 65535, R.randrange(65536)])
        elif R.random() < 0.5:
            spec["sport"], spec["dport"] = 53, R.choice([40000, 53])
        c = {"stream": st, "syn_mss": R.choice([0, 0, 1460, 5]), "spec": spec}
        if st == "well-formed" and not spec.get("ipopts") and not spec.get("frag") and not spec.get("mf") and c16.simple_opts(spec["opts"]) and R.random() < 0.25:
            # the packet is dissected from the wire and THEN edited by its owner (header fields set on the Scapy object): what is
            # extracted must be what the headers say NOW (only for option areas Scapy re-serialises byte for byte)
            c["stream"] = "edited-after-dissection"
            c["edit"] = {"ttl": R.choice([1, 64, 128, 255, R.randrange(256)]), "win": R.choice([0, 1, 5840, 65535, R.randrange(65536)]),
                         "df": R.random() < 0.5, "id": R.choice([0, 1, 4660])}
        if "edit" not in c and st == "well-formed" and ty in (2, 0x12) and not spec.get("mf") and not spec.get("frag") and R.random() < 0.2:
            # TCPResult.packet_signature: what fingerprint_tcp hands back AFTER its search through a database (specific / generic / near-miss
            # records written for this very packet) is still what the headers say
            from harness.props import c02
            p["win"] = spec["win"]
            p["syn_mss"] = c["syn_mss"] = c["syn_mss"] if ty == 0x12 else 0
            try:
                c["lines"] = c02.make_db(R, p, 35, ty)[0]
                qs = [b for b in range(17) if p["quirks"] >> b & 1]
                if qs and R.random() < 0.6:
                    # first in file order: a specific record that describes the packet except for ONE quirk the packet has (no p0f.fp record
                    # has `flow`, say): whatever the search does with it, the signature handed back keeps every quirk of the headers
                    sg = G.matching_sig(R, p, 35)
                    sg["quirks"] &= ~(1 << R.choice(qs))
                    sg["dist"] = 0
                    G.legal_quirks(sg)
                    c["lines"][3:3] = ["[tcp:%s]" % ("request" if ty == 2 else "response"), "label = s:unix:Near:miss", "sig = " + G.sig_text(sg), ""]
                c["stream"] = "result-signature"
            except Exception:
                c.pop("lines", None)
        yield c


def edited(c):
    spec = c["spec"]
    if "edit" in c:
        e = c["edit"]
        spec = dict(spec, ttl=e["ttl"], win=e["win"])
        if W.full(spec)["v"] == 4:
            spec.update(df=e["df"], id=e["id"])
    return spec


def model_line(c):
    raw = W.build(edited(c))
    return "extract %d %d %s" % (W.full(c["spec"])["v"], c["syn_mss"], raw.hex() or "-")


def impl_init():
    from pyp0f.exceptions import PacketError
    from pyp0f.net.packet import parse_packet
    from pyp0f.net.signatures import TCPPacketSignature
    from harness import implutil as U

    def impl(c):
        pkt = U.scapy_from_spec(c["spec"])
        if "edit" in c:
            e = c["edit"]
            try:
                parse_packet(pkt)            # the owner had it parsed once before editing it: nothing of that may be remembered
            except PacketError:
                pass
            ip = pkt.getlayer("IP") or pkt.getlayer("IPv6")
            if ip.version == 4:
                ip.ttl, ip.id = e["ttl"], e["id"]
                ip.flags = (int(ip.flags) | 2) if e["df"] else (int(ip.flags) & ~2)
            else:
                ip.hlim = e["ttl"]
            pkt.getlayer("TCP").window = e["win"]
        try:
            k = parse_packet(pkt)
        except PacketError:
            return {"err": "PacketError"}
        o = k.tcp.options
        ps = TCPPacketSignature.from_packet(k, c["syn_mss"])
        extra = {}
        if "lines" in c:
            from pyp0f.fingerprint import fingerprint_tcp
            from pyp0f.options import Options
            db = U.load_db("\n".join(c["lines"]) + "\n")
            try:
                r = fingerprint_tcp(pkt if len(c["lines"]) % 2 else k, syn_mss=c["syn_mss"], options=Options(database=db))
                if r.packet_signature.options.timestamp and len(c["lines"]) % 3 == 0:
                    # the result's signature then serves as the REFERENCE of an uptime measurement (a later ACK of the host: 100 ticks in 1000 ms, a good reading):
                    # what the result says about the SYN is still what the SYN's headers say
                    import time as _t
                    from pyp0f.fingerprint import fingerprint_uptime
                    from harness import wire as W
                    real = _t.time_ns
                    try:
                        _t.time_ns = lambda: (r.packet_signature.received + 1000) * 10 ** 6
                        later = U.scapy_from_spec({"v": r.packet.ip.version, "flags": 0x10, "ack": 1, "seq": 5,
                                                   "opts": "0101" + W.o_ts((r.packet_signature.options.timestamp + 100) % 2 ** 32 or 1, 1)})
                        fingerprint_uptime(later, r.packet_signature)
                    except PacketError:
                        pass
                    finally:
                        _t.time_ns = real
                extra = {"result_psig": U.psig_dict(r.packet_signature), "result_tcp_quirks": r.packet.tcp.quirks.value, "result_ip_quirks": r.packet.ip.quirks.value}
                if r.packet.tcp.options.timestamp != r.packet_signature.options.timestamp:
                    extra["result_psig"] = dict(extra["result_psig"], ts1="packet view %d" % r.packet.tcp.options.timestamp)
            except PacketError:
                extra = {"result_psig": "PacketError"}
        return {**extra, "ok": {"ip": {"version": k.ip.version, "ttl": k.ip.ttl, "options_length": k.ip.options_length, "header_length": k.ip.header_length,
                              "is_fragment": bool(k.ip.is_fragment), "quirks": k.ip.quirks.value},
                       "tcp": {"type": int(k.tcp.type), "src_port": k.tcp.src_port, "dst_port": k.tcp.dst_port, "window": k.tcp.window, "seq": k.tcp.seq,
                               "header_length": k.tcp.header_length, "quirks": k.tcp.quirks.value, "payload": bytes(k.tcp.payload).hex(),
                               "options": {"layout": [int(x) for x in o.layout], "quirks": o.quirks.value, "mss": o.mss, "ts1": o.timestamp,
                                           "ws": o.window_scale, "eol": o.eol_padding_length}},
                       "psig": U.psig_dict(ps)}}
    return impl


def outcome(c, ir, mr):
    if mr == "unframed":
        return "unframed"
    if isinstance(mr, dict) and "ok" in mr:
        q = mr["ok"]["tcp"]["options"]["quirks"]
        return "bad-options" if q >> 16 & 1 else "ok"
    return mr.get("err", "?") if isinstance(mr, dict) else "model-error"


def nontrivial(c, ir, mr):
    return isinstance(mr, dict) and "ok" in mr and bool(mr["ok"]["tcp"]["options"]["layout"])


def judge(c, ir, mr):
    if mr == "unframed":
        return {"kind": "harness built a packet the model calls unframed", "why": str(c["spec"]), "no_failing_input": True}
    if isinstance(ir, dict) and "result_psig" in ir:
        ir = dict(ir)
        rp, rt, ri = ir.pop("result_psig"), ir.pop("result_tcp_quirks", None), ir.pop("result_ip_quirks", None)
        if isinstance(mr, dict) and "ok" in mr and (rp != mr["ok"]["psig"] or rt != mr["ok"]["tcp"]["quirks"] or ri != mr["ok"]["ip"]["quirks"]):
            return {"kind": "extracted field or quirk differs from what the headers say",
                    "why": "TCPResult.packet_signature / .packet after the database search: %s (tcp quirks %s, ip quirks %s); the headers say %s (tcp %s, ip %s)" % (
                        rp, rt, ri, mr["ok"]["psig"], mr["ok"]["tcp"]["quirks"], mr["ok"]["ip"]["quirks"]),
                    "judged_by": "C03_* (the model's dissector is proved to invert the header encoders)"}
    if ir == mr:
        return None
    diff = ""
    if isinstance(ir, dict) and isinstance(mr, dict) and "ok" in ir and "ok" in mr:
        for sec in ("ip", "tcp", "psig"):
            for k, v in mr["ok"][sec].items():
                if ir["ok"][sec].get(k) != v:
                    diff += " %s.%s impl=%s model=%s;" % (sec, k, ir["ok"][sec].get(k), v)
    return {"kind": "extracted field or quirk differs from what the headers say", "why": diff or "impl %s model %s" % (str(ir)[:200], str(mr)[:200]),
            "judged_by": "C03_* (the model's dissector is proved to invert the header encoders)"}


def shrink(c):
    s = W.full(c["spec"])
    for k in ("ipopts", "payload"):
        if s[k]:
            yield dict(c, spec=dict(c["spec"], **{k: ""}))
    o = bytes.fromhex(s["opts"])
    for n in range(0, len(o), 4):
        yield dict(c, spec=dict(c["spec"], opts=(o[:n] + o[n + 4:]).hex()))
    for k, v in (("tos", 0), ("fl", 0), ("evil", False), ("urg", 0), ("win", 8192), ("ttl", 64)):
        if s[k] != v:
            yield dict(c, spec=dict(c["spec"], **{k: v}))


def classify(c, ir, mr, verdict, findings_list):
    from harness import findings
    if ir == {"err": "PacketError"} and isinstance(mr, dict) and "ok" in mr and findings.scapy_ao_short(findings.spec_opt_area(W.full(c["spec"]))) \
            and any(f["id"] == "KF-scapy-ao" for f in findings_list):
        return "KF-scapy-ao"
    return None
