"""C02: fingerprint_tcp selection order, direction and distance."""
from harness import tcpgen as G, wire as W

RULE = ("databases of 1-12 records around one wire packet: each record is exact / fuzzy-TTL / fuzzy-quirk / non-matching x "
        "generic/specific x class '!'/other, shuffled, in both sections, a third of the files re-opening a section later (the other direction's section is seeded with a specific "
        "exact match); observable (line number, match type, distance) of fingerprint_tcp through the public API on real bytes; "
        "non-trivial = the model returns a match; plus guess_distance on all 256 TTLs")
GEN_TIE = ['select']     # the anchored decision functions are also TRANSLATED from /repo's source on every run and proved equal to the model
ASSUMPTIONS = ["packets Scapy cannot dissect (known finding KF-scapy-ao of C03) are skipped"]
EXHAUSTIVE = {"no-match distance for every packet TTL 0..255": True}
CLASSES = ["unix", "win", "!", "other"]


def make_db(R, p, md, ty):
    """Returns (lines, {"request": [...], "response": [...]}) with records (line, generic, userapp, sig)."""
    lines = ["; generated", "classes = unix,win,other", ""]
    secs = {"request": [], "response": []}
    mine = "request" if ty == 2 else "response"
    other = "response" if ty == 2 else "request"
    order = [mine, other]
    R.shuffle(order)
    if R.random() < 0.35:                       # a section header may occur more than once: its records accumulate in file order
        order = order + [R.choice(order) for _ in range(R.randint(1, 2))]
    reopened = len(order) > 2
    for sec in order:
        lines.append("[tcp:%s]" % sec)
        n = R.randint(1, 5 if reopened else 12) if sec == mine else R.randint(1, 2)
        kinds = []
        if sec == mine:
            style = R.randrange(6)
            for _ in range(n):
                if style == 0:
                    kinds.append(R.choice(["exact", "fuzzy_ttl", "fuzzy_q", "none"]))
                elif style == 1:
                    kinds.append(R.choice(["fuzzy_ttl", "fuzzy_q", "none", "none"]))
                elif style == 2:
                    kinds.append(R.choice(["exact", "none"]))
                elif style == 3:
                    kinds.append(R.choice(["fuzzy_q", "fuzzy_ttl"]))
                elif style == 4:
                    kinds.append(R.choice(["exact", "fuzzy_q", "fuzzy_ttl"]))
                else:
                    kinds.append("none")
        else:
            kinds = ["exact"] * n
        for kind in kinds:
            generic = R.random() < (0.5 if kind == "exact" else 0.3)
            # the application class is EXACTLY "!"; an empty class, "!!", " !" ... are ordinary classes
            cls = R.choice(["!", "!", "unix", "win", "other", "", "!!", "!x", "x!"]) if kind != "exact" or R.random() < 0.2 else R.choice(["unix", "win", "other", ""])
            label = "%s:%s:N%d:f" % ("g" if generic else "s", cls, len(lines))
            s = G.matching_sig(R, p, md)
            s["bad_ttl"] = False if kind != "exact" or R.random() < 0.8 else s["bad_ttl"]
            if kind == "exact":
                if not s["bad_ttl"]:
                    s["ttl"] = min(255, max(1, p["ttl"] + R.choice([0, 0, 1, md, md // 2])))
                    if s["ttl"] < p["ttl"] or s["ttl"] - p["ttl"] > md:
                        kind = "fuzzy_ttl"
            elif kind == "fuzzy_ttl":
                s["ttl"] = min(255, max(1, p["ttl"] + R.choice([-1, -5, md + 1, md + 9])))
            elif kind == "fuzzy_q":
                # drop df/id+ from the packet's side == add them to the signature, or remove id-/ecn from the signature
                q = s["quirks"]
                cand = [b for b in (1, 2) if not q >> b & 1] + [-b for b in (0, 3) if q >> b & 1]
                if cand:
                    b = R.choice(cand)
                    s["quirks"] = q | (1 << b) if b > 0 else q & ~(1 << -b)
                    if b <= 0 and -b == 0 and not (q & 1):
                        pass
                s["ttl"] = min(255, max(1, p["ttl"] + R.choice([0, 1, md])))
            else:
                s = G.edit_sig(R, G.edit_sig(R, s, p, md), p, md)
            G.legal_quirks(s)
            s["dist"] = 0
            lines.append("label = " + label)
            if cls == "!":
                lines.append("sys = Linux,Windows")
            lines.append("sig = " + G.sig_text(s))
            secs[sec].append({"line": len(lines), "generic": generic, "userapp": cls == "!", "sig": s})
            if R.random() < 0.3:
                lines.append("")
    return lines, secs


def generate(R, tier):
    n = 8000 if tier == "quick" else 300000
    for ttl in range(256):
        spec, p, ty = G.rand_wire_pkt(R, flags=2)
        spec["ttl"] = ttl
        spec["win"] = 1234
        yield {"stream": "no-match-distance", "md": 35, "syn_mss": 0, "spec": spec,
               "lines": ["[tcp:request]", "label = s:unix:X:y", "sig = *:64:0:*:1,0:::0", "[tcp:response]", "label = s:unix:X:y", "sig = *:64:0:*:1,0:::0"],
               "secs": {"request": [{"line": 3, "generic": False, "userapp": False, "sig": {"ver": -1, "ttl": 64, "bad_ttl": False, "dist": 0, "olen": 0, "mss": -1, "wtype": 0, "wsize": 1, "wscale": 0, "layout": [], "eol": 0, "pay": 0, "quirks": 0}}],
                        "response": [{"line": 6, "generic": False, "userapp": False, "sig": {"ver": -1, "ttl": 64, "bad_ttl": False, "dist": 0, "olen": 0, "mss": -1, "wtype": 0, "wsize": 1, "wscale": 0, "layout": [], "eol": 0, "pay": 0, "quirks": 0}}]}}
    # a database that holds NO record for the packet's direction (loaded, but empty): the answer is "no match", whatever the
    # process-wide default database holds -- the packets are ones the shipped p0f.fp would label
    linux_syn = {"v": 4, "ttl": 64, "id": 4660, "df": True, "flags": 2, "win": 29200, "opts": W.o_mss(1460) + W.o_sok() + W.o_ts(1234, 0) + "01" + W.o_ws(7)}
    linux_synack = dict(linux_syn, flags=0x12, ack=7, win=28960, opts=W.o_mss(1460) + W.o_sok() + W.o_ts(99, 1234) + "01" + W.o_ws(7))
    for spec in (linux_syn, linux_synack, dict(linux_syn, ttl=57), dict(linux_syn, v=6, fl=0)):
        for lines in (["[tcp:request]", "[tcp:response]"], ["[tcp:request]", "label = s:unix:Linux:3.11 and newer", "[tcp:response]", "label = s:unix:Linux:3.x"],
                      ["; nothing", "[mtu]", "[tcp:response]", "[tcp:request]", "[http:request]"]):
            for md in (35, 0, 60):
                yield {"stream": "empty-database", "md": md, "syn_mss": 0, "spec": spec, "lines": lines, "secs": {"request": [], "response": []}}
    for _ in range(n):
        md = G.rand_md(R)
        spec, p, ty = G.rand_wire_pkt(R)
        syn_mss = R.choice([0, 0, 1460, 536]) if ty == 0x12 else R.choice([0, 0, 1460])
        p["syn_mss"] = syn_mss if ty == 0x12 else 0
        p["win"] = spec["win"] = G.aim_window(R, p)
        if (spec["flags"] & 0x17) not in (2, 0x12):
            continue
        lines, secs = make_db(R, p, md, ty)
        r = R.random()
        if r < 0.03:
            spec["flags"] = R.choice([0x10, 0x03, 0x06, 0x04, 0x11, 0x00, 0x12 | 1])
        elif r < 0.05:
            spec["mf"] = True
        elif r < 0.07 and spec["v"] == 4:
            spec["frag"] = 5
        yield {"stream": "db", "md": md, "syn_mss": syn_mss, "spec": spec, "lines": lines, "secs": secs}
    # IPv4 options lengthen the IP header: the `mtu*N` window form counts the REAL header lengths (mss + IP header + TCP header)
    made = 0
    while made < n // 25:
        spec, p, ty = G.rand_wire_pkt(R, flags=R.choice([2, 0x12]))
        if not spec["ipopts"] or p["mss"] <= 0 or (spec["flags"] & 0x17) not in (2, 0x12):
            continue
        made += 1
        md = G.rand_md(R)
        p["syn_mss"] = syn_mss = R.choice([0, 1460]) if ty == 0x12 else 0
        k = R.choice([1, 2, 3, 4, 5, 10])
        w = (p["mss"] + p["hdr"]) * k
        p["win"] = spec["win"] = w if w <= 65535 else p["mss"] + p["hdr"]
        if p["win"] > 65535:
            continue
        lines, secs = make_db(R, p, md, ty)
        yield {"stream": "db-ipopts-mtu-window", "md": md, "syn_mss": syn_mss, "spec": spec, "lines": lines, "secs": secs}
    # SYN+ACKs whose window is a multiple of the PEER's MSS (the value the caller passes as syn_mss) or of that minus 12, and not of the packet's own MSS:
    # the peer's values are the LAST divisors tried, so whether the record is `mss*N` or `mtu*N` - or none - depends on everything tried before them
    made = 0
    while made < n // 20:
        spec, p, ty = G.rand_wire_pkt(R, flags=0x12)
        if (spec["flags"] & 0x17) != 0x12 or p["mss"] < 100:
            continue
        pm = R.choice([1440, 730, 1000, 536, 1380, 1460, 1452, p["mss"] + 40, 88, 112, R.randrange(13, 2000)])
        d = R.choice([pm, pm, pm - 12])
        k = R.choice([1, 2, 3, 4, 5, 10, 20])
        if d <= 0 or d * k > 65535 or (d * k) % p["mss"] == 0:
            continue
        made += 1
        md = G.rand_md(R)
        p["syn_mss"] = pm
        p["win"] = spec["win"] = d * k
        lines, secs = make_db(R, p, md, ty)
        yield {"stream": "db-peer-mss-window", "md": md, "syn_mss": pm, "spec": spec, "lines": lines, "secs": secs}
    for c in witness_db_cases(R, n // 12):
        yield c


def witness_db_cases(R, count):
    """Multi-record databases for packets with HOSTILE option areas (C03's generator: wrong lengths, unknown kinds, garbage behind a
    well-formed prefix).  The records are written from what the VERIFIED extractor reads from the bytes (asked at generation time), so the
    record that describes the packet in full (whole layout, `bad` quirk ...) is in the file, among near misses, and must be the one found."""
    from harness import core, findings
    from harness.props import c03
    pend = []
    for _ in range(count * 2):
        spec, _, ty = G.rand_wire_pkt(R, flags=R.choice([2, 0x12]))
        if (spec["flags"] & 0x17) not in (2, 0x12):
            continue
        spec["mf"], spec["frag"] = False, 0
        spec["opts"] = c03.hostile_opts(R)
        if findings.scapy_ao_short(bytes.fromhex(spec["opts"])):
            continue
        syn_mss = R.choice([0, 0, 1460, 536]) if ty == 0x12 else 0
        pend.append((spec, ty, syn_mss))
    try:
        res = core.run_model(["extract %d %d %s" % (W.full(sp)["v"], sm, W.build(sp).hex()) for sp, _, sm in pend])
    except Exception:
        return
    made = 0
    for (spec, ty, syn_mss), r in zip(pend, res):
        if made >= count or not (isinstance(r, dict) and isinstance(r.get("ok"), dict) and "psig" in r["ok"]):
            continue
        p = dict(r["ok"]["psig"])
        md = G.rand_md(R)
        p["win"] = spec["win"] = G.aim_window(R, p)
        try:
            lines, secs = make_db(R, p, md, ty)
        except Exception:
            continue
        made += 1
        yield {"stream": "db-hostile-options", "md": md, "syn_mss": syn_mss, "spec": spec, "lines": lines, "secs": secs}


def single_record_cases(R, count, stream="api"):
    """fingerprint_tcp on real bytes against a one-record database: the record matches the packet by construction, then gets
    0-2 edits; every SYN / SYN+ACK flag combination (ECE, CWR, PSH, URG, NS set or not), framing and option layout of the wire generator."""
    made = 0
    while made < count:
        md = G.rand_md(R)
        spec, p, ty = G.rand_wire_pkt(R)
        if (spec["flags"] & 0x17) not in (2, 0x12):
            continue
        spec["mf"], spec["frag"] = False, 0
        syn_mss = R.choice([0, 0, 1460, 536]) if ty == 0x12 else 0
        p["syn_mss"] = syn_mss
        if W.full(spec)["v"] == 4 and not spec.get("ipopts") and R.random() < 0.12:
            spec["ipopts"] = "01" * R.choice([4, 8, 12])                 # IPv4 options: the header is longer, "MSS + header length" moves with it
            p["olen"] = len(spec["ipopts"]) // 2
            p["hdr"] += p["olen"]
        pa = p
        if ty == 2 and R.random() < 0.25:
            # the caller passes a peer MSS although the packet is a plain SYN: it is ignored (the window is a multiple of that value only)
            syn_mss = R.choice([1300, 1336, 536, 1412])
            pa = dict(p, syn_mss=syn_mss)
        p["win"] = spec["win"] = G.aim_window(R, pa)
        forced = pa is not p or bool(p.get("olen"))
        if p.get("olen") and p["mss"] >= 100:
            k = R.choice([1, 2, 3])
            if (p["mss"] + p["hdr"]) * k <= 65535:
                p["win"] = spec["win"] = (p["mss"] + p["hdr"]) * k
        elif pa is not p:
            k = R.choice([1, 2, 3, 5])
            p["win"] = spec["win"] = pa["syn_mss"] * k
        sg = G.matching_sig(R, dict(pa, win=p["win"]), md)
        if forced:
            wm = G.model_win_multi(dict(pa, win=p["win"]))
            if wm and 1 <= wm[0] <= 1000:
                sg["wtype"], sg["wsize"] = 3 + wm[1], wm[0]          # the mss*N / mtu*N form that the (aimed-at) divisor would give
        for _ in range(R.choice([0, 0, 1, 1, 2])):
            sg = G.edit_sig(R, sg, p, md)
        G.legal_quirks(sg)
        sg["dist"] = 0
        sec = "request" if ty == 2 else "response"
        lines = ["[tcp:%s]" % sec, "label = s:unix:X:y", "sig = " + G.sig_text(sg)]
        made += 1
        yield {"stream": stream, "api": True, "md": md, "syn_mss": syn_mss, "spec": spec, "lines": lines, "pkt": p,
               "secs": {sec: [{"line": 3, "generic": False, "userapp": False, "sig": sg}]}}


def witness_record_cases(R, count, stream="api-witness"):
    """As single_record_cases, but the packets carry HOSTILE option areas (C03's generator: wrong lengths, unknown kinds, garbage after a
    well-formed prefix) and the record's signature is derived from what the VERIFIED extractor reads from those bytes (the model is asked at
    generation time, as C05 does for its witnesses): the packet must match the signature written from its own headers, and small edits of it
    must be judged by the rules."""
    from harness import core, findings
    from harness.props import c03
    pend = []
    for _ in range(count * 2):
        spec, _, ty = G.rand_wire_pkt(R, flags=R.choice([2, 0x12]))
        if (spec["flags"] & 0x17) not in (2, 0x12):
            continue
        spec["mf"], spec["frag"] = False, 0
        spec.pop("link", None)
        spec["opts"] = c03.hostile_opts(R)
        if findings.scapy_ao_short(bytes.fromhex(spec["opts"])):
            continue                                         # KF-scapy-ao: Scapy cannot dissect these at all
        syn_mss = R.choice([0, 0, 1460, 536]) if ty == 0x12 else 0
        pend.append((spec, ty, syn_mss))
    try:
        res = core.run_model(["extract %d %d %s" % (W.full(sp)["v"], sm, W.build(sp).hex()) for sp, _, sm in pend])
    except Exception:
        return
    made = 0
    for (spec, ty, syn_mss), r in zip(pend, res):
        if made >= count or not (isinstance(r, dict) and isinstance(r.get("ok"), dict) and "psig" in r["ok"]):
            continue
        p = dict(r["ok"]["psig"])
        md = G.rand_md(R)
        try:
            sg = G.matching_sig(R, p, md)
            for _ in range(R.choice([0, 0, 0, 1, 1, 2])):
                sg = G.edit_sig(R, sg, p, md)
            G.legal_quirks(sg)
        except Exception:
            continue
        sg["dist"] = 0
        sec = "request" if ty == 2 else "response"
        made += 1
        yield {"stream": stream, "api": True, "md": md, "syn_mss": syn_mss, "spec": spec, "lines": ["[tcp:%s]" % sec, "label = s:unix:X:y", "sig = " + G.sig_text(sg)],
               "pkt": p, "secs": {sec: [{"line": 3, "generic": False, "userapp": False, "sig": sg}]}}


def enc_recs(recs):
    if recs is None:
        return "-1"
    return "%d %s" % (len(recs), " ".join("%d %d %d %s" % (r["line"], int(r["generic"]), int(r["userapp"]), G.enc_sig(r["sig"])) for r in recs)) if recs else "0"


def model_cases(cases, impl_res, run_model):
    """Two phases, both on the model side: the verified extractor reads the packet signature from the wire bytes (C03's model),
    then the selection loop runs on it.  Nothing the implementation extracted is given to the model."""
    from harness import findings
    out = [None] * len(cases)
    ex_lines = []
    for c in cases:
        sp = W.full(c["spec"])
        ex_lines.append("extract %d %d %s" % (sp["v"], c["syn_mss"], W.build(c["spec"]).hex()))
    ex = run_model(ex_lines)
    lines, idx = [], []
    for i, (c, ir, e) in enumerate(zip(cases, impl_res, ex)):
        if isinstance(ir, dict) and ir.get("noextract") and findings.scapy_ao_short(bytes.fromhex(W.full(c["spec"])["opts"])):
            out[i] = {"skipped": "KF-scapy-ao"}        # Scapy cannot dissect this option area (known finding of C03)
            continue
        if e == "unframed" or not isinstance(e, dict) or "ok" not in e:
            out[i] = {"err": "PacketError"}
            continue
        k = e["ok"]
        lines.append("fp_tcp %d %d %d %s %s %s" % (c["md"], int(k["ip"]["is_fragment"]), k["tcp"]["type"], G.enc_pkt(k["psig"]),
                                                  enc_recs(c["secs"].get("request")), enc_recs(c["secs"].get("response"))))
        idx.append(i)
    for i, r in zip(idx, run_model(lines)):
        out[i] = r
    return out


def impl_init():
    from pyp0f.exceptions import PacketError
    from pyp0f.fingerprint import fingerprint_tcp
    from pyp0f.net.packet import parse_packet
    from pyp0f.net.signatures import TCPPacketSignature
    from pyp0f.options import Options
    from harness import implutil as U

    def impl(c):
        db = U.load_db("\n".join(c["lines"]) + "\n")
        if (len(c["lines"]) + len(c["lines"][-1]) + c["md"]) % 3 == 0:
            # the same Database object has served impersonations BY LABEL before (they read its records): what the records say is unchanged by that
            from scapy.layers.inet import IP as SIP, TCP as STCP
            from pyp0f.impersonate import impersonate_tcp
            labs = []
            for l in c["lines"]:
                if l.startswith("label = ") and l[8:] not in labs:
                    labs.append(l[8:])
            for lab in labs[:4]:
                for fl in ("S", "SA"):
                    try:
                        impersonate_tcp(SIP(src="10.9.9.1", dst="10.9.9.2") / STCP(flags=fl, seq=7, ack=1 if fl == "SA" else 0, options=[("MSS", 1460)]),
                                        raw_label=lab, database=db, extra_hops=1)
                    except Exception:
                        pass
        if (len(c["lines"]) + c["md"] + c["syn_mss"]) % 4 == 0:
            # one long-lived Scapy object, fingerprinted before while it had another TTL, then updated in place
            pkt = U.scapy_reused(c["spec"], lambda o: fingerprint_tcp(o, options=Options(database=db)))
        else:
            pkt = U.scapy_from_spec(c["spec"])
        try:
            parsed = parse_packet(pkt)
        except PacketError:
            return {"res": {"err": "PacketError"}, "noextract": True}
        ps = TCPPacketSignature.from_packet(parsed, c["syn_mss"])
        out = {"psig": U.psig_dict(ps), "frag": bool(parsed.ip.is_fragment), "type": int(parsed.tcp.type)}
        try:
            style = len(c["lines"]) + c["md"]
            arg = parsed if (style // 3) % 2 else pkt        # both accepted argument types: the Scapy packet or the parsed Packet
            with U.options_as(style, database=db, max_dist=c["md"]) as kw:
                r = fingerprint_tcp(arg, syn_mss=c["syn_mss"], **kw)
            out["res"] = {"ok": [None if r.match is None else r.match.record.line_number, None if r.match is None else r.match.type.name, r.distance]}
        except PacketError:
            out["res"] = {"err": "PacketError"}
        return out
    return impl


def outcome(c, ir, mr):
    if not isinstance(mr, dict):
        return "model-error"
    if "ok" in mr:
        return str(mr["ok"][1])
    return mr.get("err") or "skipped"


def nontrivial(c, ir, mr):
    return isinstance(mr, dict) and "ok" in mr and mr["ok"][0] is not None


def judge(c, ir, mr):
    if isinstance(mr, dict) and "skipped" in mr:
        return None
    if isinstance(ir, dict) and ir.get("res") == mr:
        if "ok" in mr and not 0 <= mr["ok"][2] <= 255:
            return {"kind": "distance outside 0..255", "why": str(mr)}
        return None
    return {"kind": "selected record / match type / distance differs from the database-order rule",
            "why": "impl %s, verified model %s" % (ir.get("res") if isinstance(ir, dict) else ir, mr),
            "judged_by": "C02_select / C02_distance (the model is proved equal to the three-search specification)"}


def shrink(c):
    # drop records (with their label/sys lines) one at a time
    for sec in ("request", "response"):
        recs = c["secs"][sec]
        for i in range(len(recs)):
            ln = recs[i]["line"]
            lines = list(c["lines"])
            # blank out sig line and its label (keeps numbering)
            lines[ln - 1] = ""
            secs = dict(c["secs"])
            secs[sec] = recs[:i] + recs[i + 1:]
            yield dict(c, lines=lines, secs=secs)
