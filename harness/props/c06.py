"""C06: HTTP signature matching and selection."""
from harness import httpgen as H
from harness.props import c09

RULE = ("messages with headers from a shared small name pool (repeats, case variants, permutations, optional-elsewhere) and databases of "
        "1-8 HTTP signatures per direction derived from the message (required/optional headers, demanded substrings taken from or "
        "missing in the first occurrence, swapped order, absent lists, version 0/1/*, generic/specific labels, expected software vs "
        "User-Agent/Server incl. empty User-Agent); observable (matched line, dishonest, parsed signature) of fingerprint_http; "
        "non-trivial = the model returns a match")
GEN_TIE = ['http', 'httpx']     # find_http_match, http_signatures_match (with its set tests), headers_match, HTTP.software and the dishonest flag are also TRANSLATED from /repo's source and proved equal to the model
ASSUMPTIONS = ["the database text is parsed by the model's own verified parser (C09/C10 tie it to the implementation's)"]
EXHAUSTIVE = {}


def generate(R, tier):
    n = 10000 if tier == "quick" else 500000
    # a database with NO http record (loaded, but empty): "no match", whatever the process-wide default database holds
    wget = b"GET / HTTP/1.1\r\nUser-Agent: Wget/1.12\r\nAccept: */*\r\nHost: example.com\r\nConnection: Keep-Alive\r\n\r\n"
    curl = b"GET / HTTP/1.1\r\nUser-Agent: curl/7.81\r\nHost: example.com\r\nAccept: */*\r\n\r\n"
    for msg in (wget, curl):
        for lines in (["[http:request]", "[http:response]"], ["[http:request]", "label = s:!:wget:", "sys = Linux", "[http:response]"], ["[mtu]", "[http:request]"]):
            for _ in range(4):
                yield {"stream": "empty-database", "lines": lines + [""] * _, "payload": msg.hex()}
    for _ in range(n):
        direction = R.choice(["request", "response"])
        minor = R.choice([0, 1, 1, 1, 0, 1, R.randint(2, 9)])     # HTTP/1.2 .. 1.9: read as that version, which only a `*` signature admits
        pool = R.sample(H.NAMES, R.randint(3, 8))
        if R.random() < 0.08:
            # header names beyond ASCII (sent as UTF-8): names are bytes, only A-Z / a-z fold - "\u00dc-Tag" is not "\u00fc-tag", U+212A is not "k"
            pool = pool + R.sample(H.NONASCII_NAMES + ["X-\u00c4rger", "\u212aeep-Alive", "Keep-Alive"], 2)
        hs = H.rand_headers(R, pool)
        if R.random() < 0.5:
            hs.insert(R.randint(0, len(hs)), ["User-Agent" if direction == "request" else "Server", R.choice(["Mozilla/5.0 Firefox/10.0", "curl/7.81", "", "", " ", "Apache/2.2", "nginx/1.2 (Ubuntu)", "CURL/7.81", "APACHE", "mozilla/5.0 firefox/10.0"])])
        if R.random() < 0.15:
            hs.insert(R.randint(0, len(hs)), [R.choice(["user-agent", "SERVER", "User-Agent"]), R.choice(["", "MSIE 8.0", "curl"])])
        msg, _ = H.render(R, direction, minor, hs, b"", fold=False)
        lines = ["classes = unix,win"]
        secs = R.sample(["request", "response"], 2)
        if R.random() < 0.3:                       # a section continued further down: its records accumulate in file order
            secs += [R.choice(secs) for _ in range(R.randint(1, 2))]
        for sec in secs:
            lines.append("[http:%s]" % sec)
            for _ in range(R.randint(1, 8) if sec == direction else R.randint(0, 2)):
                g = R.random() < 0.4
                cls = R.choice(["!", "unix", "win"])
                lines.append("label = %s:%s:App%d:x" % ("g" if g else "s", cls, len(lines)))
                if cls == "!":
                    lines.append("sys = Linux")
                for _ in range(R.randint(1, 2)):
                    sig = H.rand_http_sig(R, hs if R.random() < 0.85 else None)
                    lines.append("sig = " + sig)
        if R.random() < 0.02:
            lines = [l for l in lines if not l.startswith("[http:%s]" % direction)] or ["[mtu]"]
        yield {"stream": "db", "lines": lines, "payload": msg.hex()}


def model_line(c):
    return "fp_http %d %s %s" % (len(c["lines"]), " ".join(c09.hexline(l) for l in c["lines"]), c["payload"] or "-")


def impl_init():
    from pyp0f.exceptions import DatabaseError, PacketError
    from pyp0f.fingerprint import fingerprint_http
    from pyp0f.net.packet import Direction
    from pyp0f.options import Options
    from harness import implutil as U

    CONN = [None]

    def impl(c):
        try:
            db = U.load_db("\n".join(c["lines"]) + "\n")
        except DatabaseError as e:
            return {"dberr": {"err": type(e).__name__, "line": getattr(e, "line_number", None)}}
        raw = bytes.fromhex(c["payload"])
        style = len(raw) + len(c["lines"])
        if style % 4 == 0:
            buf = raw                                   # bytes
        elif style % 4 == 1:
            from h11._receivebuffer import ReceiveBuffer
            if style % 8 == 1:
                # ONE receive buffer per connection, as h11 users have it: it held an earlier message (fingerprinted then), was emptied, and holds this one now
                buf = CONN[0]
                if buf is None:
                    buf = CONN[0] = ReceiveBuffer()
                    buf += b"GET /earlier HTTP/1.0\r\nUser-Agent: earlier/1.0\r\nX-Earlier: 1\r\n\r\n"
                try:
                    fingerprint_http(buf, options=Options(database=db))
                except (PacketError, DatabaseError):
                    pass
                buf.maybe_extract_at_most(len(buf) or 1)
                buf += raw
            else:
                buf = ReceiveBuffer()
                buf += raw
        else:
            buf = bytearray(raw)
        try:
            with U.options_as(style // 4, database=db) as kw:
                r = fingerprint_http(buf, **kw)
        except PacketError:
            return {"err": "PacketError"}
        except DatabaseError:
            return {"err": "DatabaseError"}
        if bytes(buf) != raw:
            return {"exc": "buffer-modified"}
        ps = r.packet_signature
        # direction is not stored on the result; recover it from the section of the match or from the first line
        first = raw.split(b"\n", 1)[0].split(None, 1)[0]
        d = "request" if first in (b"GET", b"HEAD") else "response"
        return {"ok": [None if r.match is None else r.match.line_number, bool(r.dishonest), d, ps.version,
                       [[bytes(h.name).hex(), bytes(h.value).hex()] for h in ps.headers]]}
    return impl


def canon_model(mr):
    if isinstance(mr, dict) and "dberr" in mr:
        e = mr["dberr"]
        return {"dberr": {"err": e.get("err"), "line": e.get("line")}}
    return mr


def outcome(c, ir, mr):
    if isinstance(mr, dict) and "ok" in mr:
        return ("match" if mr["ok"][0] is not None else "nomatch") + (":dishonest" if mr["ok"][1] else "")
    return "db-rejected" if isinstance(mr, dict) and "dberr" in mr else (mr.get("err", "?") if isinstance(mr, dict) else "model-error")


def nontrivial(c, ir, mr):
    return isinstance(mr, dict) and "ok" in mr and mr["ok"][0] is not None


def judge(c, ir, mr):
    if ir == canon_model(mr):
        return None
    return {"kind": "HTTP match / selection / dishonest flag differs from the p0f rules", "why": "impl %s model %s" % (str(ir)[:300], str(canon_model(mr))[:300]),
            "judged_by": "C06_walk / C06_match_iff / C06_select / C06_dishonest_iff"}


def shrink(c):
    ls = c["lines"]
    for i in range(len(ls)):
        if ls[i].startswith("sig") or ls[i].startswith("label") or ls[i].startswith("sys"):
            yield dict(c, lines=ls[:i] + ls[i + 1:])
    b = bytes.fromhex(c["payload"]).split(b"\n")
    for i in range(1, len(b) - 2):
        yield dict(c, payload=b"\n".join(b[:i] + b[i + 1:]).hex())
