"""C05 (and the shared machinery of C14): impersonate_tcp output is fingerprinted as the requested signature."""
import os
from harness import tcpgen as G, wire as W

RULE = ("signatures are generated FROM WITNESSES: a random real SYN/SYN+ACK is built, the verified model extracts its signature and "
        "confirms that the derived signature text (fields generalised at random: mss/scale/payload/version -> '*', window -> "
        "%N / mss*N / mtu*N / '*', ttl -> ttl+d / ttl-) matches it exactly, so every signature is satisfiable by construction, incl. "
        "eol+n, ?n kinds, olen>0, opt+, bad; bases: same type and IP version, bare, under Ether (also as a padded short frame) or IPv6 with extension headers before TCP, hints for MSS/WScale/timestamps (sometimes given twice with different values), a label passed alongside the signature, "
        "ECE/CWR/PSH/NS bits, payload, tos/id/DF; tape policies min / max / uniform / adversarial; oracle = verified extractor + "
        "matcher on the implementation's output bytes (must be EXACT at distance extra_hops); tie = model bytes vs bytes(out) under "
        "the same random tape; non-trivial = oracle confirms an exact match")
ASSUMPTIONS = ["'satisfiable' is read relative to the base packet's type (SYN / SYN+ACK) and IP version: the witness has both in common with the base",
               "random.randrange/randint/choice are replaced by a recording stub with min/max/uniform/adversarial policies"]
EXHAUSTIVE = {}
GEN_TIE = "imp"   # impersonate/tcp.py is also TRANSLATED (translate/imp2coq.py) on every run and proved equal to the model (Gen/GenImpP.v)
MD = 35
POLICIES = ["min", "max", "uniform", "uniform", "adversarial"]


def admissible_base(R, v, ty):
    spec, p, _ = G.rand_wire_pkt(R, flags=ty)
    tries = 0
    while spec["v"] != v and tries < 20:
        spec, p, _ = G.rand_wire_pkt(R, flags=ty)
        tries += 1
    spec["v"] = v
    spec.pop("link", None)                           # the base's framing is chosen by the case's "ether" field
    if v == 6:
        spec["ipopts"] = ""
    extra = R.choice([0, 0, 0, 0x08, 0x40, 0x80, 0xC0, 0x100, 0x48])
    spec["flags"] = ty | extra                       # URG clear
    spec["urg"] = 0
    spec["ack"] = R.choice([1, R.randrange(1, 2 ** 32)]) if ty & 0x10 else 0
    spec["mf"] = False
    spec["frag"] = 0
    spec["win"] = R.choice([0, 1, 8192, 65535, R.randrange(65536)])
    if R.random() < 0.1:
        # ports are hints like any other header value: 0 and 65535 included
        spec["sport"], spec["dport"] = R.choice([(0, 80), (40000, 0), (0, 0), (65535, 65535), (1, 65535)])
    # option hints
    r = R.random()
    opts = ""
    if r < 0.8:
        if R.random() < 0.7:
            opts += W.o_mss(R.choice([1, 50, 99, 100, 536, 1400, 1460, 8960, 32768, 65535, R.randrange(1, 65536)]))
        if R.random() < 0.5:
            opts += "01" + W.o_ws(R.choice([0, 1, 7, 14, 15, 255]))
        if R.random() < 0.5:
            opts += "0101" + W.o_ts(R.choice([0, 1, 97256, 2 ** 32 - 1]), R.choice([0, 0, 5, 2 ** 32 - 1]))
        if R.random() < 0.2:
            opts += W.o_sok()
        if R.random() < 0.1:
            # a hint given TWICE with different values (a sniffed packet to which the caller appended its own): the last one counts,
            # for the impersonator as for every reader of the packet
            opts += R.choice([W.o_mss(R.choice([100, 536, 1460, 9000])), "01" + W.o_ws(R.choice([0, 2, 9, 14])), "0101" + W.o_ts(R.choice([0, 7, 123456]), 0)])
        if R.random() < 0.12:
            # a hint option with a WRONG length (a sniffed, damaged packet): Scapy hands its value over as raw bytes - it is no hint, and the
            # well-formed hints next to it still are
            bad = R.choice(["0806" + "00000001", "0804" + "0001", "0203" + "05", "0206" + "000005b4", "0304" + "0700", "080c" + "00" * 10])
            opts = (bad + opts) if R.random() < 0.5 else (opts + bad)
        opts = W.pad4(opts, "01")
        if len(opts) > 80:
            opts = opts[:80]
    spec["opts"] = opts
    if R.random() < 0.08:
        # a payload Scapy dissects as a layer of its own (DNS over TCP), not as Raw: it is payload all the same
        spec["dport"] = 53
        spec["payload"] = "0015000001000001000000000000016101620000010001"
    return spec


def generate(R, tier):
    n = 12000 if tier == "quick" else 600000
    for _ in range(n):
        ty = R.choice([2, 2, 0x12])
        wspec, p, _ = G.rand_wire_pkt(R, flags=ty)
        wspec["mf"] = False
        wspec["frag"] = 0
        wspec.pop("link", None)
        if ty == 0x12 and not wspec.get("ack"):
            pass
        p["win"] = wspec["win"] = G.aim_window(R, p)
        edge = R.random() < 0.12 and 100 <= p["mss"] <= 65535
        if edge:                                    # the mss*1 / mss*N boundary of the MSS hint rule
            k = R.choice([1, 1, 2, 65535 // p["mss"]])
            k = k if p["mss"] * k <= 65535 else 1
            p["win"] = wspec["win"] = p["mss"] * k
        s = G.matching_sig(R, p, MD)
        if edge:
            wm = G.model_win_multi(p)
            if wm and 1 <= wm[0] <= 1000:
                s["wtype"], s["wsize"] = 3 + wm[1], wm[0]
            s["mss"] = -1
        if s["bad_ttl"]:
            s["ttl"] = min(255, max(1, p["ttl"] + R.choice([0, 3, 40])))
        md = R.choice([MD] * 8 + [48, 60, 255])            # the caller's max_dist when the output is fingerprinted again
        hops = R.choice([0, 0, 0, 1, 2, 7, 34] + ([36, 40, md - 1] if md > MD else []))
        hops = max(0, min(hops, s["ttl"] - 1, md - 1))
        base = admissible_base(R, wspec["v"], ty)
        if edge and s["wtype"] == 3:
            h = R.choice([1, 50, 99, 100, 101, 65535 // s["wsize"], 65535 // s["wsize"] + 1, 65535])
            base["opts"] = W.pad4(W.o_mss(max(0, min(65535, h))) + R.choice(["", "01" + W.o_ws(7)]), "01")
        yield {"stream": "witness", "witness": wspec, "sig": G.sig_text(s), "base": base, "ether": R.choice([False] * 16 + [True, True, "padded", "padded", "exthdr", "exthdr"]), "hops": hops, "md": md,
               "mtu": R.choice([1500, 1500, 1500, 1400, 9000]) if s["wtype"] == 4 else 1500,
               "uptime": R.choice([None, None, None, 123456]), "policy": R.choice(POLICIES)}


def base_tokens(b):
    f = b
    src = ("0a000001" if f["v"] == 4 else "20010db8" + "00" * 8 + "0a000001")
    dst = ("0a000002" if f["v"] == 4 else "20010db8" + "00" * 8 + "0a000002")
    return src, dst


def model_cases(cases, impl_res, run_model):
    lines, where = [], []
    out = [dict() for _ in cases]
    for i, (c, ir) in enumerate(zip(cases, impl_res)):
        sig = c["sig"].encode().hex()
        wv = W.full(c["witness"])["v"]
        lines.append("oracle %d %s 0 %d %s" % (c.get("md", MD), sig, wv, W.build(c["witness"]).hex()))
        where.append((i, "witness"))
        if isinstance(ir, dict) and "base" in ir:
            b = ir["base"]
            o = lambda v: -1 if v is None else v
            lines.append("imp_tcp %d %s %d %s %s %d %d %d %d %d %d %d %d %d %d %d %d %d %d %d %s %d %d %d %d %s" % (
                c.get("md", MD), sig, b["ver"], b["src"], b["dst"], b["id"], b["ipflags"], b["frag"], b["proto"], b["sport"], b["dport"], b["seq"], b["ack"],
                b["flags"], b["urg"], b["win"], o(b["mss"]), o(b["ws"]), o(b["ts1"]), o(b["ts2"]), b["payload"] or "-",
                c["hops"], c["mtu"], o(c["uptime"]), len(ir["tape"]), " ".join(map(str, ir["tape"]))))
            where.append((i, "model"))
        if isinstance(ir, dict) and ir.get("bytes"):
            lines.append("oracle %d %s 0 %d %s" % (c.get("md", MD), sig, ir["ver"], ir["bytes"]))
            where.append((i, "oracle"))
    for (i, k), r in zip(where, run_model(lines)):
        out[i][k] = r
    return out


def impl_init():
    import random
    import scapy.layers.dns  # noqa: F401  (as after `from scapy.all import *`: a payload to port 53 is dissected as a DNS layer, not Raw)
    st = {"policy": "uniform", "log": [], "R": random.Random(1)}
    real = random.Random(12345)

    def pick(lo, hi, adv=()):          # value in [lo, hi)
        if hi <= lo:
            raise ValueError("empty range for randrange() (%d, %d, %d)" % (lo, hi, hi - lo))
        p = st["policy"]
        if p == "min":
            v = lo
        elif p == "max":
            v = hi - 1
        elif p == "adversarial":
            cands = [x for x in adv if lo <= x < hi] + [lo, hi - 1]
            v = st["R"].choice(cands)
        else:
            v = st["R"].randrange(lo, hi)
        st["log"].append(v)
        return v

    def randrange(a, b=None, step=1):
        if b is None:
            a, b = 0, a
        return pick(a, b, adv=(1448, 1460, 1500, 536, 724, 730, 750, 1024, 16384, 65535, 14, 15))

    def randint(a, b):
        return pick(a, b + 1)

    def choice(seq):
        i = pick(0, len(seq))
        return seq[i]
    random.randrange, random.randint, random.choice = randrange, randint, choice
    from scapy.layers.l2 import Ether
    from pyp0f.exceptions import PacketError
    from pyp0f.fingerprint import fingerprint_tcp
    from pyp0f.impersonate import impersonate_tcp
    from pyp0f.options import Options
    from harness import implutil as U

    def int_only(v):
        return v if isinstance(v, int) and not isinstance(v, bool) else None

    def payload_without_padding(tcp):
        from scapy.packet import Padding
        pl = bytes(tcp.payload)
        pad = tcp.getlayer(Padding)
        return pl[:len(pl) - len(bytes(pad))] if pad is not None else pl

    def impl(c):
        st["policy"] = c["policy"]
        st["log"] = []
        st["R"] = random.Random(hash(c["sig"]) & 0xFFFF)
        base = U.scapy_from_spec(c["base"])
        if c["ether"] is False and len(c["sig"]) % 4 == 1 and base.getlayer("TCP") is not None and not W.full(c["base"]).get("ipopts"):
            # the same base BUILT by its owner through the Scapy API, field by field, automatic fields (ihl, len, dataofs, checksums) left unset
            from scapy.layers.inet import IP as _IP, TCP as _TCP
            from scapy.layers.inet6 import IPv6 as _IP6
            from scapy.packet import Raw as _Raw
            t0 = base.getlayer("TCP")
            l3 = _IP(src=base.src, dst=base.dst, ttl=base.ttl, tos=base.tos, id=base.id, flags=base.flags, frag=base.frag) if base.version == 4 else \
                _IP6(src=base.src, dst=base.dst, hlim=base.hlim, tc=base.tc, fl=base.fl)
            built = l3 / _TCP(sport=t0.sport, dport=t0.dport, seq=t0.seq, ack=t0.ack, flags=int(t0.flags), window=t0.window, urgptr=t0.urgptr, options=list(t0.options))
            pl = payload_without_padding(t0)
            if pl:
                built = built / _Raw(load=pl)
            base = built
        given = base
        if c["ether"] == "padded":
            # as sniffed from the wire: a short Ethernet frame is padded, Scapy dissects the trailer as a Padding layer under TCP
            frame = bytes(Ether(src="02:00:00:00:00:01", dst="02:00:00:00:00:02") / base)
            pad = (b"\x00" * max(2, 60 - len(frame))) if len(c["sig"]) % 2 else b"\xaa\xbb\x00\x00\x00\x00"
            given = Ether(frame + pad)
            base = given.getlayer("IP") or given.getlayer("IPv6")
        elif c["ether"] == "exthdr":
            # an IPv6 base that carries extension headers between the IPv6 header and TCP (an IPv4 base: as it is)
            if base.version == 6:
                from scapy.layers.inet6 import IPv6, IPv6ExtHdrDestOpt, IPv6ExtHdrHopByHop
                t0 = base.getlayer("TCP")
                t0.underlayer.remove_payload()
                hdr = base
                del hdr.nh, hdr.plen          # recomputed for the new header chain
                ext = IPv6ExtHdrHopByHop() / IPv6ExtHdrDestOpt() if len(c["sig"]) % 2 else IPv6ExtHdrDestOpt()
                given = base = IPv6(bytes(hdr / ext / t0))
        elif c["ether"]:
            given = Ether(src="02:00:00:00:00:01", dst="02:00:00:00:00:02") / base
        tcp = base.getlayer("TCP")
        ip = base
        opts = dict(tcp.options)
        ts = opts.get("Timestamp", (None, None))
        if not isinstance(ts, tuple) or len(ts) != 2:
            ts = (None, None)
        src, dst = base_tokens(W.full(c["base"]))
        out = {"ver": ip.version,
               "base": {"ver": ip.version, "src": src, "dst": dst, "id": getattr(ip, "id", 0) if ip.version == 4 else 0,
                        "ipflags": int(ip.flags) if ip.version == 4 else 0, "frag": ip.frag if ip.version == 4 else 0,
                        "proto": ip.proto if ip.version == 4 else 6, "sport": tcp.sport, "dport": tcp.dport, "seq": tcp.seq, "ack": tcp.ack,
                        "flags": int(tcp.flags), "urg": tcp.urgptr, "win": tcp.window, "mss": int_only(opts.get("MSS")), "ws": int_only(opts.get("WScale")),
                        "ts1": int_only(ts[0]), "ts2": int_only(ts[1]), "payload": payload_without_padding(tcp).hex()}}
        kw = {}
        if c["mtu"] != 1500:
            kw["mtu"] = c["mtu"]
        if c["uptime"] is not None:
            kw["uptime"] = c["uptime"]
        if len(c["sig"]) % 7 == 0:
            # a label given ALONGSIDE the signature: the signature is what is used (the process-wide database knows both labels)
            kw["raw_label"] = "s:unix:Linux:3.11 and newer" if int(tcp.flags) & 0x10 == 0 else "s:unix:Linux:3.x"
        try:
            res = impersonate_tcp(given, raw_signature=c["sig"], extra_hops=c["hops"], **kw)
            raw = bytes(res)
        except Exception as e:
            out["raised"] = type(e).__name__ + ": " + str(e)[:100]
            out["tape"] = list(st["log"])
            return out
        out["tape"] = list(st["log"])
        out["bytes"] = raw.hex()
        if len(c["sig"]) % 5 == 0:
            # impersonation BY LABEL, alternating SYN and SYN+ACK bases: the label exists in both directions with different signatures; each
            # output must be built from the record of its OWN direction, whatever was looked up before
            from scapy.layers.inet import IP as SIP, TCP as STCP
            ldb = U.load_db("[tcp:request]\nlabel = s:unix:L:1\nsig = *:64:0:*:8192,7:mss,nop,ws::0\n[tcp:response]\nlabel = s:unix:L:1\nsig = *:64:0:*:16384,2:mss,nop,ws::0\n")
            seq = []
            for n_call, fl in enumerate(("S", "SA", "S", "SA") if len(c["sig"]) % 2 else ("SA", "S", "SA", "S")):
                if n_call == 2 and len(c["sig"]) % 3 == 0:
                    # a load that FAILS in between (no such file / a broken file): the caller catches it and goes on with the records it had
                    from pyp0f.exceptions import DatabaseError
                    try:
                        if len(c["sig"]) % 2:
                            ldb.load(os.path.join(U._TMP, "no-such-database-%d.fp" % os.getpid()))
                        else:
                            U.load_db("[tcp:request]\nlabel = s:unix:L:1\nsig = *:64:0:*:8192,7:mss,nop,ws::0\n[tcp:response]\nlabel = s:unix:L:1\nsig = broken\n", db=ldb)
                    except DatabaseError:
                        pass
                try:
                    r2 = impersonate_tcp(SIP() / STCP(flags=fl, seq=1, ack=1 if "A" in fl else 0), raw_label="s:unix:L:1", database=ldb, extra_hops=3)
                    seq.append([fl, r2.getlayer("TCP").window, dict(r2.getlayer("TCP").options).get("WScale"), r2.ttl])
                except Exception as e:
                    seq.append([fl, type(e).__name__, None])
            out["by_label"] = seq
        rt = res.getlayer("TCP")
        ro = [(n, list(v) if isinstance(v, tuple) else (v.hex() if isinstance(v, bytes) else v)) for n, v in rt.options]
        out["outf"] = {"src": res.src, "dst": res.dst, "sport": rt.sport, "dport": rt.dport, "seq": rt.seq, "ack": rt.ack, "flags": int(rt.flags),
                       "win": rt.window, "urg": rt.urgptr, "opts": ro, "payload": payload_without_padding(rt).hex(), "id": res.id if res.version == 4 else None,
                       "same_object": res is given}
        out["basef"] = {"src": ip.src, "dst": ip.dst}
        db = U.load_db("[tcp:request]\nlabel = s:unix:X:y\nsig = %s\n[tcp:response]\nlabel = s:unix:X:y\nsig = %s\n" % (c["sig"], c["sig"]))
        try:
            r = fingerprint_tcp(U.scapy_from_bytes(raw, ip.version), options=Options(database=db, max_dist=c.get("md", MD)))
            out["fp"] = [None if r.match is None else r.match.type.name, r.distance]
        except PacketError:
            out["fp"] = "PacketError"
        return out
    return impl


def zero_checksums(hexs, v):
    b = bytearray.fromhex(hexs)
    # bytes after the end of the datagram (a Padding layer kept behind a kept payload) are not part of the packet
    if v == 4 and len(b) >= 20:
        b = b[:max(20, int.from_bytes(b[2:4], "big"))]
    elif v == 6 and len(b) >= 40:
        b = b[:40 + int.from_bytes(b[4:6], "big")]
    if v == 4 and len(b) >= 20:
        b[10:12] = b"\0\0"
        t = (b[0] & 15) * 4
    else:
        t = 40
    if len(b) >= t + 18:
        b[t + 16:t + 18] = b"\0\0"
    return bytes(b).hex()


def sig_class(c, mr):
    """Structural class of the requested signature (for known-finding classification)."""
    s = (mr.get("witness") or {}).get("sig") if isinstance(mr, dict) else None
    return s


def outcome(c, ir, mr):
    w = mr.get("witness") if isinstance(mr, dict) else None
    if not isinstance(w, dict) or w.get("match") != "EXACT":
        return "generator:witness-not-exact"
    if isinstance(ir, dict) and "raised" in ir:
        return "raised:" + ir["raised"].split(":")[0]
    o = mr.get("oracle")
    if isinstance(o, dict) and "match" in o:
        return "oracle:%s" % o["match"] + ("" if o.get("dist") == c["hops"] else ":wrong-distance")
    return "oracle:unreadable"


def nontrivial(c, ir, mr):
    return outcome(c, ir, mr) == "oracle:EXACT"


def in_theorem_domain(mr):
    mm = mr.get("model") if isinstance(mr, dict) else None
    return isinstance(mm, dict) and "ok" in mm and bool(mm["ok"].get("supported")) and bool(mm["ok"].get("coherent"))


def model_state(c, mr):
    """What the model of the CURRENT code (imp_tcp run on the tape the implementation drew) says about this case."""
    mm = mr.get("model") if isinstance(mr, dict) else None
    if not isinstance(mm, dict):
        return "none", None
    if "ok" not in mm:
        return "raise", None
    b = mm["ok"].get("bytes")
    if not (isinstance(b, dict) and "ok" in b):
        return "unencodable", None
    return ("pass" if mm["ok"].get("oracle") == {"ok": ["EXACT", c["hops"]]} else "oraclefail"), b["ok"]


def property_verdict(c, ir, mr):
    if "raised" in ir:
        return {"kind": "impersonate_tcp raised on a satisfiable signature and admissible base", "why": "%s  sig=%s" % (ir["raised"], c["sig"]),
                "judged_by": "C05 (statement): returns - without raising - ..."}
    o = mr.get("oracle")
    if not isinstance(o, dict) or "match" not in o:
        return {"kind": "output packet is not a well-framed TCP segment", "why": "oracle %s sig=%s" % (o, c["sig"])}
    if o["match"] != "EXACT" or o["dist"] != c["hops"]:
        return {"kind": "output does not match the requested signature exactly at distance extra_hops",
                "why": "sig=%s hops=%d oracle match=%s dist=%s extracted=%s" % (c["sig"], c["hops"], o["match"], o["dist"], o.get("psig")),
                "judged_by": "verified extractor (C03) + verified matcher (C01) applied to bytes(out)"}
    if ir.get("fp") != ["EXACT", c["hops"]]:
        return {"kind": "pyp0f's own fingerprint of the output disagrees with the verified oracle", "why": "fp=%s" % (ir.get("fp"),)}
    return None


def judge(c, ir, mr):
    w = mr.get("witness") if isinstance(mr, dict) else None
    if not isinstance(w, dict) or w.get("match") != "EXACT":
        return None          # the generator failed to produce a satisfiable signature: not a case of the property
    if not isinstance(ir, dict) or "exc" in ir:
        return {"kind": "harness-level failure", "why": str(ir)[:300]}
    from harness.props import c14 as _c14
    bl = _c14.by_label_problem(ir)
    if bl:
        return bl
    mm = mr.get("model")
    if isinstance(mm, dict) and "ok" in mm and mm["ok"].get("supported") and mm["ok"].get("coherent") and c["uptime"] is None:
        # the case is inside the domain of theorem C05_supported_sound: the model's own output must pass the oracle
        if mm["ok"].get("oracle") != {"ok": ["EXACT", c["hops"]]}:
            return {"kind": "MODEL: a Supported+coherent case whose model output fails the oracle (theorem statement would be false)",
                    "why": "sig=%s model=%s" % (c["sig"], str(mm)[:300]), "no_failing_input": True}
    ms, mb = model_state(c, mr)
    pv = property_verdict(c, ir, mr)
    # correspondence on EVERY case, also inside the known-finding classes: the model is a model of the code as it is, defects included
    cv = None
    if ir.get("bytes") and mb is not None:
        if zero_checksums(mb, ir["ver"]) != zero_checksums(ir["bytes"], ir["ver"]) or mm["ok"]["unused_tape"] != 0:
            cv = {"kind": "correspondence: the impersonation model no longer reproduces bytes(out) under the same random tape",
                  "why": "model %s impl %s" % (str(mm)[:200], ir["bytes"][:200]), "no_failing_input": True}
    elif pv is None:
        cv = {"kind": "correspondence: the impersonation model no longer reproduces bytes(out) under the same random tape",
              "why": "model %s impl %s" % (str(mm)[:200], str(ir.get("bytes"))[:200]), "no_failing_input": True}
    if pv is not None:
        # a failure counts as the listed finding only if the model of the unchanged code fails on this very case too
        pv["model_state"] = ms
        if ms == "pass":
            pv["why"] += "  [the model of the unchanged code PASSES on this case and tape: not an instance of a listed finding]"
            return pv
        from harness import findings
        if cv is not None and findings.c05_class(c, ir, mr, pv):
            return cv
        return pv
    return cv


def shrink(c):
    if c["ether"]:
        yield dict(c, ether=False)
    if c["uptime"] is not None:
        yield dict(c, uptime=None)
    if c["policy"] != "min":
        yield dict(c, policy="min")
    b = c["base"]
    if b.get("opts"):
        yield dict(c, base=dict(b, opts=""))
    if b.get("payload"):
        yield dict(c, base=dict(b, payload=""))
    if b["flags"] & ~0x12:
        yield dict(c, base=dict(b, flags=b["flags"] & 0x12))


def classify(c, ir, mr, verdict, findings_list):
    """A failure belongs to a listed finding when the signature is in that structural class (call site + predicate on the input)."""
    from harness import findings
    if verdict.get("no_failing_input") or verdict.get("model_state") == "pass":
        return None
    cl = findings.c05_class(c, ir, mr, verdict)
    if cl and any(f["id"] == cl for f in findings_list):
        return cl
    return None
