"""C09: loading a database yields exactly the records written in the file."""
from harness import dbgen as D

RULE = ("generated syntactically valid files: interleaved/repeated sections, labels, sys lines (incl. the same application label "
        "repeated with another sys list), comments, blank and whitespace-only lines, skipped params, signatures drawn from the full "
        "tcp/http/mtu grammars (every window form, ttl forms, ?N and eol+N options, all legal quirk sets, bracketed header values "
        "with commas, absent lists, software); observable = per section, in order: label dump, sys, raw text, line number and every "
        "structured signature field, plus len(db); non-trivial = at least one record loaded")
ASSUMPTIONS = ["ASCII files; a 9th colon field / 5th label part is silently dropped (as the code does)"]
EXHAUSTIVE = {}


def generate(R, tier):
    n = 2000 if tier == "quick" else 200000
    for _ in range(n):
        yield {"stream": "valid", "lines": D.valid_file(R)}
    yield {"stream": "shipped", "shipped": True, "lines": []}


def hexline(l):
    return l.encode().hex() or "-"


def load_shipped():
    import os
    from harness.core import REPO
    return open(os.path.join(REPO, "pyp0f", "data", "p0f.fp"), encoding="utf-8").read().split("\n")


def lines_of(c):
    if c.get("shipped"):
        ls = load_shipped()
        return ls[:-1] if ls and ls[-1] == "" else ls
    return c["lines"]


def model_line(c):
    ls = lines_of(c)
    return "parse_file %d %s" % (len(ls), " ".join(hexline(l) for l in ls))


def canon_model(mr):
    """absent headers are a set in the implementation; derived fields the model does not print are added."""
    if not isinstance(mr, dict) or "ok" not in mr:
        return mr
    for sec in ("http_req", "http_resp"):
        for r in mr["ok"].get(sec) or []:
            s = r["sig"]
            s["absent"] = sorted(set(s["absent"]))
            s["headers"] = [h + [bytes.fromhex(h[0]).lower().hex()] for h in s["headers"]]
            s["header_names"] = sorted(set(h[3] for h in s["headers"] if not h[1]))
    return mr


def impl_init():
    from harness import implutil as U

    def impl(c):
        db = U.load_db("\n".join(lines_of(c)) + "\n")
        return {"ok": U.dump_db(db)}
    return impl


def outcome(c, ir, mr):
    if isinstance(mr, dict) and "ok" in mr:
        return "loaded:%d" % min(mr["ok"]["len"], 5)
    return mr.get("err", "?") if isinstance(mr, dict) else "model-error"


def nontrivial(c, ir, mr):
    return isinstance(mr, dict) and "ok" in mr and mr["ok"]["len"] > 0


def judge(c, ir, mr):
    mr = canon_model(mr)
    if ir == mr:
        return None
    why = "impl %s model %s" % (str(ir)[:300], str(mr)[:300])
    if isinstance(ir, dict) and isinstance(mr, dict) and "ok" in ir and "ok" in mr:
        for k in mr["ok"]:
            if ir["ok"].get(k) != mr["ok"][k]:
                a, b = ir["ok"].get(k), mr["ok"][k]
                if isinstance(a, list) and isinstance(b, list):
                    for x, y in zip(a, b):
                        if x != y:
                            a, b = x, y
                            break
                why = "section %s: impl %s model %s" % (k, str(a)[:400], str(b)[:400])
                break
    return {"kind": "loaded records differ from the sig lines of the file", "why": why,
            "judged_by": "C09_bijection (the model's result is proved to be exactly the sig lines with section, label, line number)"}


def shrink(c):
    ls = c.get("lines") or []
    for i in range(len(ls)):
        yield dict(c, lines=ls[:i] + ls[i + 1:])
