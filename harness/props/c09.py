"""C09: loading a database yields exactly the records written in the file."""
from harness import dbgen as D

RULE = ("generated syntactically valid files: interleaved/repeated sections, labels, sys lines (incl. the same application label "
        "repeated with another sys list), comments, blank and whitespace-only lines, skipped params, signatures drawn from the full "
        "tcp/http/mtu grammars (every window form, ttl forms, ?N and eol+N options, all legal quirk sets, bracketed header values "
        "with commas, absent lists, software); observable = per section, in order: label dump, sys, raw text, line number and every "
        "structured signature field, plus len(db); non-trivial = at least one record loaded")
RULE += ("; lines end in \\n, \\r\\n or a lone \\r (the last possibly unterminated) and carry the other ASCII characters str.strip() removes "
         "(\\x0b \\x0c \\x1c-\\x1f) around the line and around '='; comment lines carry non-ASCII text incl. U+0085/U+2028/U+2029; a quarter of "
         "the loads go into a Database object that already holds another file, half of those by editing the file in place and loading the same path again; "
         "label names / flavours, sys entries and HTTP software carry non-ASCII characters")
ASSUMPTIONS = ["a 9th colon field / 5th label part is silently "
               "dropped (as the code does)"]
GEN_TIE = ["sig", "file", "httpx", "re"]   # ("re": the header-splitting regular expression of HTTP signatures, read from the source and proved to be hsplit: translate/re2coq.py, Gen/GenReP.v) TCPSignature.parse / MTUSignature.parse and their field parsers are also TRANSLATED (translate/sig2coq.py) on every run and proved equal to the model (Gen/GenSigP.v); so are the line loop of _parse_file, _parse_section, labels and RecordsDatabase.create/add (translate/file2coq.py, Gen/GenFileP.v)
EXHAUSTIVE = {}


XWS = ["\x0b", "\x0c", "\x1c", "\x1d", "\x1e", "\x1f", " ", "\t", "\x85", "\xa0", "\u1680", "\u2003", "\u2028", "\u2029", "\u202f", "\u205f", "\u3000"]
XCOMMENTS = ["; page\x0cbreak", ";\x0c", "; caf\u00e9 \u2028 sep", "; nel \x85 here", ";\u2029", "; \x1c\x1d\x1e fs gs rs", "; vt\x0b"]


def decorate(R, lines):
    """Whitespace str.strip() removes that is not a line end for text-mode reading; must leave the file valid."""
    out = []
    sec = ""
    for l in lines:
        k = D.line_kind(l)
        if k == "section":
            sec = l.strip()
        # non-ASCII text where the grammar lets any character through: label names / flavours, sys entries, HTTP software
        if k == "label" and R.random() < 0.3:
            l = l.rstrip() + R.choice(["\u00e9", "\u00df\u65e5\u672c", "\u00fc-\u0416", " ;old", " ;-) x", "\t; y", " #1",
                                       # text that Unicode normalisation / case folding would rewrite: it is kept as written
                                       "e\u0301", "\u2126", "\uf900", "A\u030a", "\ufb01", "\u1e9e", "\u0130", "\u212a"])
        elif k == "sys" and R.random() < 0.3:
            l = l.rstrip() + R.choice([",B\u00fcro", ",\u65e5\u672c", "\u00e9"])
        elif k == "sig" and sec.startswith("[http") and R.random() < 0.2 and l.count(":") == 3:
            l = l.rstrip() + R.choice(["\u00e9", "M\u00f6z"])
        if k == "skip":
            if l.strip() == "" and l != "" and R.random() < 0.5:
                l = "".join(R.choice(XWS) for _ in range(R.randint(1, 3)))
            elif l.startswith(";") and R.random() < 0.5:
                l = R.choice(XCOMMENTS)
        elif R.random() < 0.4:
            if k != "section" and "=" in l and R.random() < 0.5:
                a, _, b = l.partition("=")
                l = a + R.choice(XWS) + "=" + R.choice(XWS) + b
            l = R.choice(XWS + [""]) + l + R.choice(XWS + [""])
        out.append(l)
        if R.random() < 0.08:
            out.append(R.choice(["\x0c", "\x0b\x0c", "\x1c", "\x1e \x1f"] + XCOMMENTS))
    return out


def generate(R, tier):
    n = 5000 if tier == "quick" else 200000
    for i in range(n):
        lines = D.valid_file(R)
        c = {"stream": "valid", "lines": lines}
        if R.random() < 0.5:
            c["stream"] = "valid-exotic"
            c["lines"] = lines = decorate(R, lines)
            c["terms"] = [R.choice(["\n"] * 6 + ["\r\n", "\r"]) for _ in lines]
            if lines and R.random() < 0.3:
                c["terms"][-1] = ""
        if R.random() < 0.25:
            c["pre"] = D.valid_file(R, small=True)
            c["same_path"] = R.random() < 0.5        # the file is edited in place and loaded again by the same Database object
        yield c
    yield {"stream": "shipped", "shipped": True, "lines": []}


def text_of(c):
    ls = lines_of(c)
    ts = c.get("terms") or ["\n"] * len(ls)
    return "".join(l + t for l, t in zip(ls, ts))


def hexline(l):
    return l.encode().hex() or "-"


def load_shipped():
    import os
    from harness.core import REPO
    return open(os.path.join(REPO, "pyp0f", "data", "p0f.fp"), encoding="utf-8").read().split("\n")


def lines_of(c):
    if c.get("shipped"):
        ls = load_shipped()
        return ls[:-1] if ls and ls[-1] == "" else ls
    return c["lines"]


def model_line(c):
    return "parse_text %s" % hexline(text_of(c))


def canon_model(mr):
    """absent headers are a set in the implementation; derived fields the model does not print are added."""
    if not isinstance(mr, dict) or "ok" not in mr:
        return mr
    for sec in ("http_req", "http_resp"):
        for r in mr["ok"].get(sec) or []:
            s = r["sig"]
            s["absent"] = sorted(set(s["absent"]))
            s["headers"] = [h + [bytes.fromhex(h[0]).lower().hex()] for h in s["headers"]]
            s["header_names"] = sorted(set(h[3] for h in s["headers"] if not h[1]))
    return mr


def impl_init():
    from harness import implutil as U

    def impl(c):
        db = None
        if c.get("pre") is not None and c.get("same_path"):
            import os
            from pyp0f.database import Database
            path = os.path.join(U._TMP, "c09-same-%d.fp" % os.getpid())
            os.makedirs(U._TMP, exist_ok=True)
            db = Database()
            try:
                for text in ("\n".join(c["pre"]) + "\n", text_of(c)):
                    with open(path, "w", encoding="utf-8", newline="") as f:
                        f.write(text)
                    db.load(path)
            finally:
                os.unlink(path)
            return {"ok": U.dump_db(db)}
        if c.get("pre") is not None:
            db = U.load_db("\n".join(c["pre"]) + "\n")
        db = U.load_db(text_of(c), db)
        return {"ok": U.dump_db(db)}
    return impl


def outcome(c, ir, mr):
    if isinstance(mr, dict) and "ok" in mr:
        return "loaded:%d" % min(mr["ok"]["len"], 5)
    return mr.get("err", "?") if isinstance(mr, dict) else "model-error"


def nontrivial(c, ir, mr):
    return isinstance(mr, dict) and "ok" in mr and mr["ok"]["len"] > 0


def judge(c, ir, mr):
    mr = canon_model(mr)
    if ir == mr:
        return None
    why = "impl %s model %s" % (str(ir)[:300], str(mr)[:300])
    if isinstance(ir, dict) and isinstance(mr, dict) and "ok" in ir and "ok" in mr:
        for k in mr["ok"]:
            if ir["ok"].get(k) != mr["ok"][k]:
                a, b = ir["ok"].get(k), mr["ok"][k]
                if isinstance(a, list) and isinstance(b, list):
                    for x, y in zip(a, b):
                        if x != y:
                            a, b = x, y
                            break
                why = "section %s: impl %s model %s" % (k, str(a)[:400], str(b)[:400])
                break
    return {"kind": "loaded records differ from the sig lines of the file", "why": why,
            "judged_by": "C09_bijection (the model's result is proved to be exactly the sig lines with section, label, line number)"}


def shrink(c):
    ls = c.get("lines") or []
    ts = c.get("terms")
    for i in range(len(ls)):
        d = dict(c, lines=ls[:i] + ls[i + 1:])
        if ts:
            d["terms"] = ts[:i] + ts[i + 1:]
        yield d
    if ts and any(t != "\n" for t in ts):
        yield dict(c, terms=["\n"] * len(ls))
    pre = c.get("pre")
    if pre:
        for i in range(len(pre)):
            yield dict(c, pre=pre[:i] + pre[i + 1:])
