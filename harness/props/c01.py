"""C01: tcp_signatures_match vs the verified matcher model."""
from harness import tcpgen as G

RULE = ("packet signature with boundary-biased fields; signature derived to match it by construction, then 0-2 edits from a "
        "catalogue with one entry per decision of the matcher (TTL gap around 0/max_dist, ttl-, each quirk bit on either side, "
        "version, eol pad, olen, mss/scale/payload wildcard/equal/off-by-one, every window form, layout edits); the signature is "
        "given to the implementation as TEXT (TCPSignature.parse is inside the tie); sweeps over TTL pairs and single/double quirk "
        "differences; the same decision through fingerprint_tcp on real bytes (one-record databases), also for packets with HOSTILE option areas whose record is written from what the verified extractor reads from those bytes; non-trivial = the model reports a match; distinct by input")
GEN_TIE = ['match']     # the anchored decision functions are also TRANSLATED from /repo's source on every run and proved equal to the model
ASSUMPTIONS = ["packet signatures are constructed directly (any quirk set, as the quantifier demands); extraction from bytes is C03's tie"]
EXHAUSTIVE = {"sig ttl 1..255 step x pkt ttl x md in {0,1,34,35,36,255} x bad_ttl (thorough: full 255x256)": True,
              "all single- and double-bit quirk differences x 3 signature versions x 2 packet versions": True}


def base_pair():
    p = {"ver": 4, "olen": 0, "ttl": 64, "win": 29200, "layout": [2, 4, 8, 1, 3], "mss": 1460, "ws": 7, "ts1": 1, "eol": 0, "hdr": 60,
         "pay": False, "quirks": 6, "syn_mss": 0}
    s = {"ver": -1, "ttl": 64, "bad_ttl": False, "dist": 0, "olen": 0, "mss": -1, "wtype": 3, "wsize": 20, "wscale": 7,
         "layout": [2, 4, 8, 1, 3], "eol": 0, "pay": 0, "quirks": 6}
    return s, p


def generate(R, tier):
    n = 30000 if tier == "quick" else 2000000
    s0, p0 = base_pair()
    # TTL sweep
    step = 7 if tier == "quick" else 1
    for md in (0, 1, 34, 35, 36, 255):
        for bad in (False, True):
            for st in range(1, 256, step):
                for pt in ([st - md - 1, st - md, st - 1, st, st + 1, 0, 255] if tier == "quick" else range(0, 256)):
                    if 0 <= pt <= 255:
                        yield {"stream": "ttl-sweep", "md": md, "sig": dict(s0, ttl=st, bad_ttl=bad), "pkt": dict(p0, ttl=pt)}
    # quirk differences
    for sv in (-1, 4, 6):
        for pv in (4, 6):
            for i in range(17):
                for j in range(i, 17):
                    for side in (0, 1, 2):
                        sq, pq = 0x1040, 0x1040
                        if side == 0:
                            sq ^= (1 << i) | (1 << j)
                        elif side == 1:
                            pq ^= (1 << i) | (1 << j)
                        else:
                            sq ^= 1 << i
                            pq ^= 1 << j
                        s = dict(s0, ver=sv, quirks=sq)
                        G.legal_quirks(s)
                        yield {"stream": "quirk-sweep", "md": 35, "sig": s, "pkt": dict(p0, ver=pv, quirks=pq)}
    for _ in range(n):
        md = G.rand_md(R)
        p = G.rand_pkt(R)
        r = R.random()
        if r < 0.85:
            s = G.matching_sig(R, p, md)
            for _ in range(R.choice([0, 1, 1, 1, 2])):
                s = G.edit_sig(R, s, p, md)
            st = "derived"
        else:
            s = G.matching_sig(R, G.rand_pkt(R), md)
            st = "random"
        yield {"stream": st, "md": md, "sig": s, "pkt": p}
    # the same decision reached through fingerprint_tcp on real bytes (C02's case format): extraction, TCPSignature.parse and the
    # matcher together; SYN / SYN+ACK with every extra flag bit, link framing, option layouts
    from harness.props import c02
    for c in c02.single_record_cases(R, n // 15, "api-one-record"):
        yield c
    for c in c02.witness_record_cases(R, n // 30, "api-witness-hostile-options"):
        yield c


def model_cases(cases, impl_res, run_model):
    from harness.props import c02
    out = [None] * len(cases)
    api = [i for i, c in enumerate(cases) if c.get("api")]
    for i, r in zip(api, c02.model_cases([cases[i] for i in api], [impl_res[i] for i in api], run_model)):
        out[i] = r
    rest = [i for i, c in enumerate(cases) if not c.get("api")]
    for i, r in zip(rest, run_model([model_line(cases[i]) for i in rest])):
        out[i] = r
    return out


def model_line(c):
    return "tcp_match %d %s %s" % (c["md"], G.enc_sig(c["sig"]), G.enc_pkt(c["pkt"]))


def impl_init():
    from pyp0f.database.signatures.tcp import TCPSignature
    from pyp0f.fingerprint.tcp import tcp_signatures_match
    from pyp0f.net.layers.tcp import TCPOptions
    from pyp0f.net.quirks import Quirk
    from pyp0f.net.signatures import TCPPacketSignature
    from pyp0f.options import Options

    from harness.props import c02
    api_impl = c02.impl_init()

    def impl(c):
        if c.get("api"):
            return api_impl(c)
        p = c["pkt"]
        sig = TCPSignature.parse(G.sig_text(c["sig"]))
        ps = TCPPacketSignature(ip_version=p["ver"], ip_options_length=p["olen"], ttl=p["ttl"], window_size=p["win"],
                                options=TCPOptions(layout=list(p["layout"]), quirks=Quirk(0), mss=p["mss"], timestamp=p["ts1"],
                                                   window_scale=p["ws"], eol_padding_length=p["eol"]),
                                headers_length=p["hdr"], has_payload=bool(p["pay"]), quirks=Quirk(p["quirks"]), syn_mss=p["syn_mss"])
        r = tcp_signatures_match(sig, ps, Options(max_dist=c["md"]))
        wm = ps.window_multiplier
        return [None if r is None else r.name, [wm.value, bool(wm.is_mtu)]]
    return impl


def outcome(c, ir, mr):
    if c.get("api"):
        from harness.props import c02
        return "api:" + c02.outcome(c, ir, mr)
    return str(mr[0]) if isinstance(mr, list) else "model-error"


def nontrivial(c, ir, mr):
    if c.get("api"):
        return isinstance(mr, dict) and "ok" in mr and mr["ok"][0] is not None
    return isinstance(mr, list) and mr[0] is not None


def judge(c, ir, mr):
    if c.get("api"):
        from harness.props import c02
        v = c02.judge(c, ir, mr)
        if v:
            v["kind"] = "fingerprint_tcp on real bytes: match verdict differs from the p0f rules applied to what the headers say"
        return v
    if ir == mr:
        return None
    return {"kind": "match verdict differs from the p0f rules", "why": "sig %r: impl %s, verified model %s" % (G.sig_text(c["sig"]), ir, mr),
            "judged_by": "C01_match_iff / C01_type (the model is proved equal to the declarative rule set)"}


def shrink(c):
    if c.get("api"):
        return
    s, p = c["sig"], c["pkt"]
    if c["md"] != 35:
        yield dict(c, md=35)
    for k, v in (("olen", 0), ("eol", 0), ("pay", False), ("syn_mss", 0), ("ts1", 0), ("ws", 0)):
        if p[k] != v:
            s2 = dict(s)
            if k in ("olen", "eol"):
                s2[k] = v
            if k == "ws" and s["wscale"] != -1:
                s2["wscale"] = v
            if k == "pay" and s["pay"] != -1:
                s2["pay"] = 0
            yield dict(c, sig=s2, pkt=dict(p, **{k: v}))
    if p["layout"] == s["layout"] and p["layout"]:
        for i in range(len(p["layout"])):
            l = p["layout"][:i] + p["layout"][i + 1:]
            yield dict(c, sig=dict(s, layout=l), pkt=dict(p, layout=l))
    for i in range(17):
        if (s["quirks"] >> i & 1) and (p["quirks"] >> i & 1):
            yield dict(c, sig=dict(s, quirks=s["quirks"] & ~(1 << i)), pkt=dict(p, quirks=p["quirks"] & ~(1 << i)))
    if s["dist"]:
        yield dict(c, sig=dict(s, dist=0))


COQ_CHECKER = "check_match"


def coq_case(c, mr):
    if c.get("api") or not isinstance(mr, list):
        return None
    m = {None: "None", "EXACT": "Some Exact", "FUZZY_TTL": "Some FuzzyTTL", "FUZZY_QUIRKS": "Some FuzzyQuirks"}[mr[0]]
    return "(%d, %s, %s, (%s, %s))" % (c["md"], G.coq_sig(c["sig"]), G.coq_pkt(c["pkt"]), m, G.coq_wm(mr[1]))
