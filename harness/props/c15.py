"""C15: records are addressable by the label text shown in the database."""
from harness import dbgen as D
from harness.props import c09

RULE = ("databases with the same label text in several kinds and directions, labels with spaces/punctuation/empty flavour/extra "
        "parts, generic and specific variants, case variants, shell-pattern / regex characters in labels and queries, Unicode line/paragraph separators and VT/FF/FS/GS/RS/NEL inside label texts; every record's dumped label is looked up in every section with "
        "random.choice driven over every candidate index, plus near-miss texts (case change, trailing blank, generic<->specific); "
        "label-based impersonation with an explicitly passed EMPTY database while the process default is loaded must raise DatabaseError; label-based impersonate_tcp/mtu (base packets SYN / SYN+ACK also with ECE, CWR, PSH, URG, NS set) is checked to use a record of that label, kind and direction; non-trivial = >= 1 candidate")
ASSUMPTIONS = ["random.choice is replaced by an indexable stub (the real draw is uniform over the same candidate list)"]
GEN_TIE = "file"   # Label.parse / Label.dump / MTULabel.parse and the file parser that attaches labels to records are also TRANSLATED (translate/file2coq.py) on every run and proved equal to the model (Gen/GenFileP.v)
EXHAUSTIVE = {"random.choice index over all candidates of every lookup": True}
SECS = ["mtu", "tcp_req", "tcp_resp", "http_req", "http_resp"]


def generate(R, tier):
    n = 3000 if tier == "quick" else 150000
    for _ in range(n):
        labels = [D.rand_label(R, "tcp") for _ in range(R.randint(1, 3))]
        mlabels = [D.rand_label(R, "mtu") for _ in range(2)] + [R.choice(labels)]
        lines = []
        secs = R.sample(D.SECTIONS, R.randint(2, 5))
        if R.random() < 0.4:                        # a section may be continued further down: its records accumulate
            secs += [R.choice(secs) for _ in range(R.randint(1, 2))]
        if R.random() < 0.3:                        # label texts with blank + ';' / '#' inside: plain characters, not comments
            labels = [l + R.choice([" ;-)", " ; x", "\t;y", " #1"]) for l in labels]
            mlabels = [l + R.choice([" ; PPPoE", " ;)"]) for l in mlabels[:2]] + [R.choice(labels)]
        if R.random() < 0.15:                       # characters Unicode (not the file reader) regards as line breaks / separators are plain label text
            x = R.choice(["\x0b", "\x0c", "\x1c", "\x1d", "\x1e", "\x85", "\u2028", "\u2029"])
            mid = lambda l, extra: (l[:-1] + x + extra + l[-1:]) if len(l) >= 2 and l[-1] not in " \t" and not l[0].isspace() else l
            labels = [mid(l, R.choice(["", ";", "v", ";OS"])) for l in labels]
            mlabels = [mid(l, R.choice(["", ";x"])) for l in mlabels[:2]] + [R.choice(labels)]
        if R.random() < 0.15:                       # characters that mean something to shell patterns / regular expressions are plain label text
            x = R.choice(["*", "?", "[L2TP]", "[a-z]", ".*", "(x)", "+", "\\", "^$", "%", "100% pure", "%s", "%d", "%(x)s", "{}", "{0}", "{x}", "%%"])
            wild = lambda l: l[:-1] + x + l[-1:] if len(l) >= 2 else l
            labels = labels + [wild(labels[0])]
            mlabels = mlabels[:2] + [wild(mlabels[0])] + mlabels[2:]
        for kind, d in secs:
            lines.append(D.sec_header(kind, d))
            for _ in range(R.randint(1, 4)):
                lab = R.choice(mlabels if kind == "mtu" else labels)
                lines.append("label = " + lab)
                if kind != "mtu" and lab.split(":")[1] == "!":
                    lines.append("sys = Linux")
                for _ in range(R.randint(0, 2)):
                    lines.append("sig = " + D.rand_sig_line(R, kind))
        queries = set(labels + mlabels) | {"*", "?", labels[0][:-1] + "*", labels[0][:-1] + "?", mlabels[0][:-1] + "[a-z]",
                                           # (texts that mean something to %-formatting / str.format: plain text too, also when the label is absent)
                                           labels[0][:-1] + R.choice(["%", "%s", "100% pure", "%(x)s", "{}", "{0}", "%d"]), "s:unix:Acme OS:100% pure", "%", "{x}"}
        for l in list(queries):
            parts = l.split(":")
            queries.add(":".join(parts[:4]))
            queries.add(l.upper())
            queries.add(l + " ")
            if parts[0] in ("s", "g") and len(parts) >= 4:
                queries.add(":".join([{"s": "g", "g": "s"}[parts[0]]] + parts[1:4]))
        yield {"stream": "lookup", "lines": lines, "queries": sorted(queries)}


def model_line(c):
    return "lookup_all %d %s %d %s" % (len(c["lines"]), " ".join(c09.hexline(l) for l in c["lines"]), len(c["queries"]),
                                       " ".join(q.encode().hex() or "-" for q in c["queries"]))


def canon_model(c, mr):
    if isinstance(mr, dict):
        return mr
    out = {}
    for q, row in zip(c["queries"], mr):
        for s, v in zip(SECS, row):
            out["%s|%s" % (q, s)] = v
    return out


def impl_init():
    import random
    state = {"pick": 0, "n": None, "chosen": None}

    real_choice = random.choice

    def choice(seq):
        if len(seq) and hasattr(seq[0], "line_number"):
            state["n"] = len(seq)
            state["chosen"] = seq[state["pick"]]
            return state["chosen"]
        return real_choice(seq)
    random.choice = choice
    from scapy.layers.inet import IP, TCP
    from pyp0f.database.records import HTTPRecord, MTURecord, TCPRecord
    from pyp0f.exceptions import DatabaseError
    from pyp0f.impersonate import impersonate_mtu, impersonate_tcp
    from pyp0f.net.packet import Direction
    from harness import implutil as U
    SEC = [(MTURecord, None), (TCPRecord, Direction.CLIENT_TO_SERVER), (TCPRecord, Direction.SERVER_TO_CLIENT),
           (HTTPRecord, Direction.CLIENT_TO_SERVER), (HTTPRecord, Direction.SERVER_TO_CLIENT)]

    # the process-wide default database is loaded (as in ordinary use): an explicitly passed database must still be the one consulted
    from pyp0f.database import DATABASE, Database
    DATABASE.load()
    empties = [Database(), U.load_db("[tcp:request]\nlabel = s:unix:Linux:3.11 and newer\n[tcp:response]\nlabel = s:unix:Linux:3.x\n[mtu]\nlabel = Ethernet or modem\n")]

    LONG = Database()

    def impl(c):
        # in one case of 25 the file is loaded into the PROCESS-WIDE database (pyp0f.database.DATABASE, as scripts do) and the impersonation calls leave
        # their `database` argument out: the default IS that object
        use_default = (len(c["lines"]) * 7 + len(c["queries"])) % 25 == 0
        try:
            # (a third of the cases load into ONE long-lived Database object that has held other files before: what it answers is the file loaded last)
            db = U.load_db("\n".join(c["lines"]) + "\n", db=DATABASE if use_default else (LONG if len(c["lines"]) % 3 == 1 else None))
        except DatabaseError as e:
            return {"dberr": {"err": type(e).__name__, "line": getattr(e, "line_number", None)}}
        try:
            return impl2(c, db, {} if use_default else {"database": db})
        finally:
            if use_default:
                DATABASE.load()

    def impl2(c, db, dbkw):
        out = {}
        dump0 = U.dump_db(db)
        for ei, edb in enumerate(empties):
            for what, call in (("tcp-syn", lambda: impersonate_tcp(IP() / TCP(flags="S", seq=1), raw_label="s:unix:Linux:3.11 and newer", database=edb)),
                               ("tcp-synack", lambda: impersonate_tcp(IP() / TCP(flags="SA", seq=1, ack=1), raw_label="s:unix:Linux:3.x", database=edb)),
                               ("mtu", lambda: impersonate_mtu(IP() / TCP(flags="S", seq=1), raw_label="Ethernet or modem", database=edb))):
                try:
                    call()
                    out["empty-db-%d|%s|imp" % (ei, what)] = "impersonation by label succeeded although the database passed in holds no record (another database was consulted)"
                except DatabaseError:
                    pass
        for q in c["queries"]:
            for si, (cls, d) in enumerate(SEC):
                got = []
                state["pick"], state["n"] = 0, None
                try:
                    while True:
                        r = db.get_random(q, cls, d)
                        if r.label.dump() != q or not isinstance(r, cls):
                            got.append("WRONG:%d" % r.line_number)
                        else:
                            got.append(r.line_number)
                        state["pick"] += 1
                        if state["pick"] >= state["n"]:
                            break
                    res = {"ok": got}
                except DatabaseError:
                    res = {"err": "DatabaseError"}
                out["%s|%s" % (q, SECS[si])] = res
                # label-based impersonation uses a record of that label, kind and direction
                if "ok" in res and si in (0, 1, 2) and res["ok"]:
                    state["pick"] = len(res["ok"]) - 1
                    state["chosen"] = None
                    import zlib
                    fl = (["S", "S", "SE", "SEC", "SP", "SU", "SEN"] if si != 2 else ["SA", "SA", "SAE", "SAP", "SAEC", "SAU"])
                    base = IP() / TCP(flags=fl[zlib.crc32((q + str(len(out))).encode()) % len(fl)], seq=1, options=[("MSS", 1460)])
                    try:
                        if si == 0:
                            impersonate_mtu(base, raw_label=q, **dbkw)
                        else:
                            impersonate_tcp(base, raw_label=q, extra_hops=1 + len(q) % 5, **dbkw)
                    except Exception as e:  # impersonation itself is C05's / C08's subject
                        pass
                    ch = state["chosen"]
                    if ch is None or ch.line_number != res["ok"][-1]:
                        out["%s|%s|imp" % (q, SECS[si])] = "impersonation did not draw from the label's records of that kind/direction"
                elif ("err" in res or not res.get("ok")) and si in (1, 2):
                    # no record of that label in the base packet's direction: impersonation by that label must fail with DatabaseError,
                    # whatever the OTHER direction (or another kind) holds under that label
                    base = IP() / TCP(flags="S" if si == 1 else "SA", seq=1, ack=0 if si == 1 else 1, options=[("MSS", 1460)])
                    state["pick"], state["chosen"] = 0, None
                    try:
                        impersonate_tcp(base, raw_label=q, database=db)
                        out["%s|%s|imp" % (q, SECS[si])] = "impersonation by a label that has no record in the packet's direction did not raise DatabaseError"
                    except DatabaseError:
                        pass
                    except Exception:
                        pass
        if U.dump_db(db) != dump0:
            out["records|changed|imp"] = "the records filed in the database changed while they were looked up / used for impersonation"
        return out
    return impl


def outcome(c, ir, mr):
    mr = canon_model(c, mr)
    if isinstance(mr, dict) and "dberr" in mr:
        return "db-rejected"
    if isinstance(mr, dict) and any("dberr" in v for v in mr.values() if isinstance(v, dict)):
        return "db-rejected"
    n = sum(len(v.get("ok", [])) for v in mr.values() if isinstance(v, dict))
    return "found" if n else "none"


def nontrivial(c, ir, mr):
    return outcome(c, ir, mr) == "found"


def judge(c, ir, mr):
    mr = canon_model(c, mr)
    if isinstance(ir, dict) and "dberr" in ir:
        ok = "dberr" in mr
        return None if ok else {"kind": "database rejected by the implementation only", "why": str(ir)}
    if not isinstance(ir, dict) or "exc" in ir:
        return {"kind": "lookup raised", "why": str(ir)}
    for k, v in mr.items():
        if ir.get(k) != v:
            return {"kind": "lookup by label text returns other records than those whose label equals the text", "why": "%s: impl %s model %s" % (k, ir.get(k), v),
                    "judged_by": "C15_sound / C15_complete / C15_none"}
    for k, v in ir.items():
        if k.endswith("|imp"):
            return {"kind": "label-based impersonation used a record outside the label", "why": "%s: %s" % (k, v)}
    return None


def shrink(c):
    for i in range(len(c["queries"])):
        yield dict(c, queries=c["queries"][:i] + c["queries"][i + 1:])
    ls = c["lines"]
    for i in range(len(ls)):
        yield dict(c, lines=ls[:i] + ls[i + 1:])
