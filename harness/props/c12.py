"""C12: fingerprinting and TCP impersonation never modify the caller's objects (runtime monitor)."""
from harness import tcpgen as G, wire as W, httpgen as H
from harness.props import c16

RULE = ("random call sequences (fingerprint_tcp/mtu/uptime, fingerprint_http, impersonate_tcp by label and by signature with "
        "extra_hops/uptime, impersonate_mtu by signature and by label incl. MTU records at or below the header size) over databases with all and with only some section kinds, over packets given as sniffed (explicit fields) AND as constructed Scapy packets with "
        "unset automatic fields (chksum/ihl/dataofs/len), with PSH/URG/ECE bits, options and payloads, over bytes / bytearray / "
        "ReceiveBuffer payload buffers (incl. one with a consumed prefix), with before/after snapshots around EVERY call of: "
        "bytes(packet), command(), the explicit-field map of every layer and the identity / parent links of its layer objects (the returned packet must share no layer with its input, and edits to it must not reach the input), buffer bytes/length/search cursors, and a deep dump of "
        "every database record, label and signature; non-trivial = sequence with >= 1 impersonation by label and >= 1 HTTP call")
ASSUMPTIONS = ["the Coq side is a frame lemma over a heap model of the calls; which objects each public call may write is RE-DERIVED from /repo's source on every run "
               "(translate/eff2coq.py) and proved to agree with that model (Gen/GenEffP.v); what Scapy / h11 do inside the operations assumed pure is covered by this monitor only"]
GEN_TIE = ["eff"]     # a may-write effect analysis of ALL pyp0f modules, regenerated on every run; Gen/GenEffP.v: the derived summaries of the public entry points agree with Model/Frame.v (gen_model_agrees, C12_translated_frame)
EXHAUSTIVE = {}

generate_base = c16.generate


def generate(R, tier):
    limit = 500 if tier == "quick" else 8000
    for k, c in enumerate(c16.generate(R, tier)):
        if k >= limit:
            break
        c = dict(c, stream="calls")
        # signatures with every flag-affecting quirk so that impersonation has to set/clear PSH, URG, ACK, ...
        c["sigs"] = ["*:64:0:*:mss*10,6:mss,sok,ts,nop,ws:df,id+%s:%s" % (q, pc) for q in ("", ",pushf+", ",urgf+", ",ack-", ",seq-", ",ecn", ",uptr+")
                     for pc in ("0", "*", "+")]
        # extra flag bits; values with 0x1000 REPLACE the flags: packets that are no SYN / SYN+ACK at all (pure ACK, data, FIN, RST) - calls refuse some of
        # them, and a refusal (like a success) leaves the caller's objects alone; impersonate_tcp returns a NEW packet for every base it accepts
        c["flagsets"] = [R.choice([0, 0, 0x08, 0x20, 0x40, 0xC0, 0x01, 0x04, 0x1010, 0x1018, 0x1011, 0x1004, 0x1014]) for _ in c["pkts"]]
        # payloads that are NOT complete messages (headers cut before the blank line, nothing, noise): the call fails, the buffer must stay as it was
        base = bytes.fromhex(c["payloads"][0])
        extra = [base[:max(0, len(base) - 2)], base[:len(base) // 2], b"", b"GET / HTTP/1.1\r\nHost: a\r\n", b"\x00\xff garbage"]
        c["payloads"] = list(c["payloads"]) + [x.hex() for x in extra]
        ops = list(c["ops"])
        for k in range(len(c["payloads"]) - len(extra), len(c["payloads"])):
            ops.insert(R.randint(1, len(ops)), {"op": "http", "payload": k, "btype": "bytes"})
        # MTU records at / below the header size (MSS <= 0 after subtraction), reached by LABEL: whatever the call does with such a
        # value, the record it looked up is the database's own object and must stay as loaded
        tiny = ["[mtu]", "label = Tiny", "sig = 21", "sig = 40", "sig = 41", "label = Tiny6", "sig = 60", "sig = 45", "sig = 61"]
        files = [list(f) + tiny for f in c["files"]]
        # a database WITHOUT some section kind (custom files need not have all three): calls that need the missing kind fail,
        # and failing must not touch what the database holds
        drop = R.choice(["[mtu", "[tcp", "[http", "[tcp:request", "[http:response"])
        part, keep = [], True
        for l in files[0]:
            if l.startswith("["):
                keep = not l.startswith(drop)
            if keep:
                part.append(l)
        c["files"] = files + [part or ["[mtu]"]]
        for _ in range(2):
            ops.insert(R.randint(1, len(ops)), {"op": "imp_mtu", "pkt": R.randrange(len(c["pkts"])), "label": R.choice(["Tiny", "Tiny6"])})
        at = R.randint(1, len(ops))
        burst = [{"op": "load", "file": 2}]
        for _ in range(4):
            j = R.randrange(len(c["pkts"]))
            burst.append(R.choice([{"op": "tcp", "pkt": j, "syn_mss": 0, "md": 35, "mode": "raw"}, {"op": "mtu", "pkt": j, "mode": "raw"},
                                   {"op": "http", "payload": 0, "btype": "bytes"}, {"op": "imp_mtu", "pkt": j, "label": "Tiny"},
                                   {"op": "imp_tcp", "pkt": j, "label": "s:unix:Probe:v", "extra_hops": 0}]))
        ops[at:at] = burst
        c["ops"] = ops
        yield c


def model_cases(cases, impl_res, run_model):
    return [None] * len(cases)


def impl_init():
    from h11._receivebuffer import ReceiveBuffer
    from scapy.layers.inet import IP, TCP
    from scapy.layers.inet6 import IPv6
    from scapy.packet import Raw
    from pyp0f.database import Database
    from pyp0f.exceptions import DatabaseError, PacketError
    from pyp0f.fingerprint import fingerprint_http, fingerprint_mtu, fingerprint_tcp, fingerprint_uptime
    from pyp0f.impersonate import impersonate_mtu, impersonate_tcp
    from pyp0f.net.packet import parse_packet
    from pyp0f.net.signatures import TCPPacketSignature
    from pyp0f.options import Options
    from harness import implutil as U
    import copy
    import os
    import random
    work = os.path.join(os.path.dirname(os.path.dirname(os.path.dirname(os.path.abspath(__file__)))), "work")

    def snap_pkt(p):
        layers = []
        l = p
        while l is not None and l.name != "NoPayload":
            layers.append((l.name, copy.deepcopy(dict(l.fields)), repr(l.fields.get("flags")), id(l), id(l.underlayer) if l.underlayer is not None else None,
                           id(l.payload)))
            l = l.payload
        return (p.command(), layers, bytes(p))

    def layer_ids(p):
        out = set()
        l = p
        while l is not None and l.name != "NoPayload":
            out.add(id(l))
            l = l.payload
        return out

    def snap_buf(b):
        if isinstance(b, ReceiveBuffer):
            return ("rb", bytes(b), len(b), b._next_line_search, b._multiple_lines_search)
        return (type(b).__name__, bytes(b), len(b))

    def constructed(spec):
        s = W.full(spec)
        opts = []
        # the same packet as the sniffed one, but built through the Scapy API with automatic fields left unset
        sn = U.scapy_from_spec(spec)
        sn = sn.getlayer("IP") or sn.getlayer("IPv6")
        t = sn.getlayer("TCP")
        ip = IP(src=sn.src, dst=sn.dst, ttl=sn.ttl, tos=sn.tos, id=sn.id, flags=sn.flags) if s["v"] == 4 else IPv6(src=sn.src, dst=sn.dst, hlim=sn.hlim, tc=sn.tc, fl=sn.fl)
        tcp = TCP(sport=t.sport, dport=t.dport, seq=t.seq, ack=t.ack, flags=int(t.flags), window=t.window, urgptr=t.urgptr, options=list(t.options))
        if (s["seq"] + s["ttl"] + s["win"]) % 5 == 0:
            # a length field that is explicitly 0 (as segmentation-offload captures have it): the caller's header says so, before and after
            if s["v"] == 4:
                ip.len = 0
            else:
                ip.plen = 0
        if (s["seq"] + s["win"] * 3 + s["ttl"]) % 11 == 4:
            # the transport header is there only as undissected BYTES (IP(proto=6) / Raw(...), as a caller gets it from a raw socket or builds it from a
            # capture's payload): pyp0f refuses it or reads it, and either way the caller's packet keeps its layers and its explicitly-set fields
            body = bytes(tcp) + (bytes.fromhex(s["payload"]) if s["payload"] else b"")
            if s["v"] == 4:
                ip.proto = 6
            else:
                ip.nh = 6
            return ip / Raw(load=body)
        p = ip / tcp
        if s["payload"]:
            p = p / Raw(load=bytes.fromhex(s["payload"]))
        elif (s["seq"] + s["win"] + s["ttl"]) % 3 == 0:
            # a payload layer that is there but EMPTY (TCP() / Raw(), TCP() / ""): the caller's object all the same
            p = (p / Raw()) if s["win"] % 2 else (p / "")
        return p

    def impl(c):
        R = random.Random(len(c["ops"]) * 7 + len(c["pkts"]))
        db = Database()
        pkts = []
        for spec, extra in zip(c["pkts"], c["flagsets"]):
            spec = dict(spec, flags=(extra & 0x1FF) if extra & 0x1000 else (spec["flags"] | extra))
            if extra in (0x01, 0x04, 0x1018, 0x1011, 0x1004) and not spec.get("payload"):
                spec["payload"] = "474554202f20485454502f312e300d0a0d0a"          # data after the TCP header
            pkts.append(U.scapy_from_spec(spec))
            pkts.append(constructed(spec))
        from scapy.layers.l2 import Dot1Q, Ether
        for j in range(1, len(pkts), 4):
            # every other constructed packet sits in a frame the caller built (Ether / 802.1Q)
            pkts[j] = (Ether(src="02:00:00:00:00:01", dst="02:00:00:00:00:02") / Dot1Q(vlan=5) / pkts[j]) if j % 8 == 1 else (Ether(src="02:00:00:00:00:01", dst="02:00:00:00:00:02") / pkts[j])
        framed = {j for j, p in enumerate(pkts) if p.name not in ("IP", "IPv6")}
        bufs = []
        for h in c["payloads"]:
            raw = bytes.fromhex(h)
            rb = ReceiveBuffer()
            rb += raw
            rb2 = ReceiveBuffer()
            rb2 += b"junk line\r\n" + raw
            rb2.maybe_extract_next_line()          # a receive buffer with a consumed prefix
            bufs += [raw, bytearray(raw), rb, rb2]
        path = os.path.join(work, "c12-%d.fp" % os.getpid())
        problems = []
        kept_results = []
        last_sig = None
        for k, o in enumerate(c["ops"]):
            before_p = [snap_pkt(p) for p in pkts]
            before_b = [snap_buf(b) for b in bufs]
            before_d = U.dump_db(db)
            exempt = None
            try:
                if o["op"] == "load":
                    with open(path, "w", encoding="utf-8", newline="") as f:
                        f.write("\n".join(c["files"][o["file"]]) + "\n")
                    db.load(path)
                    before_d = U.dump_db(db)
                elif o["op"] == "tcp":
                    j = o["pkt"] * 2 + R.randrange(2)
                    fingerprint_tcp(pkts[j], syn_mss=o["syn_mss"], options=Options(database=db, max_dist=o["md"]))
                elif o["op"] == "mtu":
                    fingerprint_mtu(pkts[o["pkt"] * 2 + R.randrange(2)], options=Options(database=db))
                elif o["op"] == "uptime":
                    j = o["pkt"] * 2 + R.randrange(2)
                    if last_sig is None:
                        last_sig = TCPPacketSignature.from_packet(parse_packet(pkts[j]))
                    fingerprint_uptime(pkts[j], last_sig, options=Options(database=db))
                elif o["op"] == "http":
                    hb = bufs[o["payload"] * 4 + R.randrange(4)]
                    try:
                        kept_results.append(fingerprint_http(hb, options=Options(database=db)))      # the caller keeps the result ...
                    finally:
                        if isinstance(hb, bytearray):
                            # ... and goes on using its buffer: it can still be resized (nothing holds an export of it) and is put back as it was
                            try:
                                hb.append(0)
                                hb.pop()
                            except BufferError as e:
                                problems.append("op %d %s: the caller's bytearray can no longer be resized after fingerprint_http (%s)" % (k, o, e))
                elif o["op"] == "imp_tcp":
                    j = o["pkt"] * 2 + R.randrange(2)
                    given = pkts[j]
                    if j in framed and R.random() < 0.5:
                        # the IP part of the caller's FRAME is handed over (frame[IP]): the frame around it is the caller's too
                        given = pkts[j].getlayer("IP") or pkts[j].getlayer("IPv6") or pkts[j]
                    if R.random() < 0.5:
                        res = impersonate_tcp(given, raw_label=o["label"], extra_hops=o["extra_hops"], database=db, uptime=R.choice([None, 1234]))
                    else:
                        res = impersonate_tcp(given, raw_signature=R.choice(c["sigs"]), extra_hops=o["extra_hops"], database=db)
                    if res is pkts[j] or res is given:
                        problems.append("op %d %s: impersonate_tcp returned its input object" % (k, o))
                    elif layer_ids(res) & layer_ids(pkts[j]):
                        problems.append("op %d %s: the packet returned by impersonate_tcp shares a layer object with its input (not a new packet)" % (k, o))
                    else:
                        # writing to the result must not reach the input
                        mid = snap_pkt(pkts[j])
                        l = res
                        while l is not None and l.name != "NoPayload":
                            if l.name == "Raw":
                                l.load = b"overwritten by the caller"
                            elif l.name == "TCP":
                                l.seq = (l.seq + 1) % 2 ** 32
                                l.options = list(l.options) + [("NOP", None)]
                            elif l.name in ("IP", "IPv6"):
                                l.src, l.dst = l.dst, l.src
                            l = l.payload
                        if snap_pkt(pkts[j]) != mid:
                            problems.append("op %d %s: editing the packet returned by impersonate_tcp changed the input packet" % (k, o))
                elif o["op"] == "imp_mtu":
                    j = o["pkt"] * 2 + R.randrange(2)
                    if "label" in o:
                        impersonate_mtu(pkts[j].copy(), raw_label=o["label"], database=db)
                    else:
                        exempt = j
                        impersonate_mtu(pkts[j], raw_signature=o["sig"], database=db)
            except (PacketError, DatabaseError, ValueError):
                pass
            except Exception as e:   # other failures of impersonation are C05's subject
                if o["op"] not in ("imp_tcp", "imp_mtu"):
                    raise
            after_p = [snap_pkt(p) for p in pkts]
            after_b = [snap_buf(b) for b in bufs]
            after_d = U.dump_db(db)
            for j, (a, b) in enumerate(zip(before_p, after_p)):
                if a != b and j != exempt:
                    d = "bytes" if a[2] != b[2] else ("command" if a[0] != b[0] else "fields")
                    problems.append("op %d %s: packet %d (%s) changed (%s): %s -> %s" % (k, o, j, "sniffed" if j % 2 == 0 else "constructed", d, a[0][:160], b[0][:160]))
            for j, (a, b) in enumerate(zip(before_b, after_b)):
                if a != b:
                    problems.append("op %d %s: buffer %d (%s) changed or consumed" % (k, o, j, a[0]))
            if before_d != after_d:
                problems.append("op %d %s: a database record, label or signature changed" % (k, o))
            if problems:
                break
        try:
            os.unlink(path)
        except OSError:
            pass
        return {"problems": problems}
    return impl


def outcome(c, ir, mr):
    return "clean" if isinstance(ir, dict) and not ir.get("problems") else "modified"


def nontrivial(c, ir, mr):
    ops = [o["op"] for o in c["ops"]]
    return "imp_tcp" in ops and "http" in ops


def judge(c, ir, mr):
    if not isinstance(ir, dict) or "problems" not in ir:
        return {"kind": "call sequence raised", "why": str(ir)}
    if ir["problems"]:
        return {"kind": "a caller-owned object or database record was modified by a call", "why": ir["problems"][0], "judged_by": "C12_frame (model) + runtime monitor"}
    return None


def shrink(c):
    ops = c["ops"]
    for i in range(len(ops) - 1, 0, -1):
        yield dict(c, ops=ops[:i] + ops[i + 1:])
