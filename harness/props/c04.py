"""C04: any packet or payload yields a result or PacketError, in bounded time."""
from harness import tcpgen as G, wire as W, httpgen as H

RULE = ("mutation-based stream over valid SYN/SYN+ACK/ACK packets (byte flips, truncation at every offset for sampled packets, hostile "
        "option bytes, inconsistent IHL / total length / data offset) plus random byte strings, each dissected as IPv4 or IPv6 and given "
        "to fingerprint_tcp / fingerprint_mtu / fingerprint_uptime; HTTP payloads mutated the same way (leading CR/LF, bare LF, folds, "
        "non-ASCII) given to fingerprint_http; every call under a 5 s alarm and a 4 GB address-space limit; outcome classes ok / "
        "PacketError / other:<type> / TIMEOUT (incl. 64 KB payloads with long runs of blanks / colons / CRs / brackets, 4000 headers, 2500 continuation lines); where the model can dissect the input the ok/PacketError class is compared with it; "
        "exhaustive: all option areas of length 4 over {0,1,2,3,4,5,8,255} (4096) and all (kind,len) prefixes")
GEN_TIE = ['options', 'select', 'uptime', 'http', 'httpx', 'h11', 're']     # TCPOptions.parse (the option walker's while loop) is also TRANSLATED from /repo's source on every run and proved equal to the model
ASSUMPTIONS = ["byte strings Scapy itself refuses to dissect (exception inside scapy.layers) are outside the quantifier and counted separately",
               "work/memory proportionality is proved on the model (fuel and layout-length theorems); on the implementation only hangs and gross blow-ups are detectable"]
EXHAUSTIVE = {"all option areas of length 4 over the alphabet {0,1,2,3,4,5,8,255}": True, "all (kind, length) two-byte prefixes 256x256 (thorough)": True}
CASE_TIMEOUT = 6
DB = ["[mtu]", "label = Ethernet", "sig = 1500", "[tcp:request]", "label = s:unix:Linux:3.x", "sig = *:64:0:*:mss*20,7:mss,sok,ts,nop,ws:df,id+:0",
      "[tcp:response]", "label = s:unix:Linux:3.x", "sig = *:64:0:*:mss*10,0:mss:df:0", "[http:request]", "label = s:!:curl:", "sys = Linux",
      "sig = 1:Host,User-Agent,Accept=[*/*]:Connection:curl/", "[http:response]", "label = s:!:Apache:2.x", "sys = Linux", "sig = 1:Date,Server:Via:Apache"]
ALPHA = [0, 1, 2, 3, 4, 5, 8, 255]


def generate(R, tier):
    n = 12000 if tier == "quick" else 1000000
    for a in ALPHA:
        for b in ALPHA:
            for c in ALPHA:
                for d in ALPHA:
                    yield {"stream": "opt-area-4", "v": 4, "raw": W.build({"flags": 2, "opts": bytes([a, b, c, d]).hex()}).hex()}
    step = 1 if tier == "thorough" else 9
    for kind in range(0, 256, step):
        for ln in range(0, 256, step):
            area = bytes([kind, ln]) + bytes([R.choice([0, 1, 2, 255]) for _ in range(38)])
            yield {"stream": "kind-len", "v": 4, "raw": W.build({"flags": 2, "opts": area.hex()}).hex()}
    for i in range(n):
        spec, p, ty = G.rand_wire_pkt(R, flags=R.choice([2, 2, 0x12, 0x10, R.randrange(512)]))
        spec["win"] = 8192
        raw = bytearray(W.build(spec))
        v = spec["v"]
        r = R.random()
        if r < 0.3:
            for _ in range(R.randint(1, 3)):
                raw[R.randrange(len(raw))] = R.choice([0, 1, 2, 4, 5, 15, 0x45, 0x4F, 0x50, 0xF0, 0xFF, R.randrange(256)])
            st = "byte-flip"
        elif r < 0.45:
            raw = raw[:R.randrange(len(raw) + 1)]
            st = "truncated"
        elif r < 0.6:
            # inconsistent lengths
            if v == 4:
                k = R.randrange(3)
                if k == 0:
                    raw[0] = 0x40 | R.randrange(16)
                elif k == 1:
                    raw[2:4] = R.choice([b"\0\0", b"\0\x14", b"\xff\xff", b"\0\x28", bytes([0, R.randrange(256)])])
                else:
                    off = (raw[0] & 15) * 4 + 12
                    if off < len(raw):
                        raw[off] = (R.randrange(16) << 4) | (raw[off] & 15)
            else:
                raw[4:6] = R.choice([b"\0\0", b"\xff\xff", bytes([0, R.randrange(256)])])
            st = "bad-lengths"
        elif r < 0.7:
            raw = bytearray(R.randrange(256) for _ in range(R.randint(0, 80)))
            st = "random"
            v = R.choice([4, 6])
        elif r < 0.8:
            v = 10 - v
            st = "wrong-family"
        else:
            st = "valid"
        c = {"stream": st, "v": v, "raw": bytes(raw).hex()}
        if R.random() < 0.5:
            # the previous packet of the uptime pair: `ticks` timestamp ticks and `ms` milliseconds before this one
            c["up"] = [R.choice([0, 1, 4, 5, 6, 7, 10, 13, 100, 1000, 15000, 2 ** 31, 2 ** 32 - 1, R.randrange(2 ** 32),
                                 # (a clock that steps BACK a little: 2^32 - k)
                                 2 ** 32 - 2, 2 ** 32 - 5, 2 ** 32 - 9, 2 ** 32 - 30, 2 ** 32 - 67, 2 ** 32 - 68, 2 ** 32 - 1000]),
                       R.choice([0, 1, 24, 25, 26, 99, 100, 101, 130, 500, 1000, 2000, 5000, 6000, 7000, 7143, 7200, 10000, 600000, 10 ** 9, R.randrange(1, 10 ** 7)])]
        yield c
        if i % 60 == 0:
            base = bytes(W.build(spec))
            for k in range(len(base)):
                yield {"stream": "truncated", "v": spec["v"], "raw": base[:k].hex()}
    for i in range(n // 2):
        msg, _ = H.render(R, R.choice(["request", "response"]), R.choice([0, 1]), H.rand_headers(R), R.choice([b"", b"x"]))
        b = bytearray(msg)
        r = R.random()
        if r < 0.5:
            for _ in range(R.randint(1, 3)):
                pos = R.randrange(len(b) + 1)
                op = R.randrange(3)
                ch = R.choice([13, 10, 32, 9, 58, 0, 255, 0xC3, 71])
                if op == 0 and pos < len(b):
                    del b[pos]
                elif op == 1:
                    b.insert(pos, ch)
                elif pos < len(b):
                    b[pos] = ch
        elif r < 0.6:
            b = bytearray(R.choice([b"\r\n", b"\n", b"\r", b"\n\n", b" \r\n", b"\r\n\r\n"])) + b
        elif r < 0.7:
            b = b[:R.randrange(len(b) + 1)]
        elif r < 0.8:
            b = bytearray(R.choice([10, 13, 32, 58, 71, 69, 84, 72, 80, 47, 49, 46, 255, 0]) for _ in range(R.randint(0, 30)))
        yield {"stream": "http", "http": bytes(b).hex()}
    for m in H.line_shapes():
        yield {"stream": "http-line-shapes", "http": m.hex()}
    # LARGE payloads (~64 KB): the work must stay proportional to the size whatever the bytes are (each case has CASE_TIMEOUT seconds)
    big = 60000
    for eol in (b"\r\n", b"\n"):
        first = b"GET / HTTP/1.1" + eol
        for body in (b"X-Padding: a" + b" " * big + b"b", b"X-Padding: a" + b"\t " * (big // 2) + b"b", b"X-Padding:" + b" " * big, b"X: " + b":" * big,
                     b"X" * big + b": v", b"X-Padding: a" + b" " * big, b" " * big + b"X: v", b"X: a" + eol + (b" " + b"b" * 20 + eol) * 2500 + b"Y: z",
                     eol.join(b"H%d: v%d" % (i, i) for i in range(4000)), b"X: a" + b"\r" * big + b"b", b"X: " + b"a b " * (big // 4), b"X: " + b"[," * (big // 2)):
            yield {"stream": "http-big", "http": (first + body + eol + eol).hex()}
        yield {"stream": "http-big", "http": (b"GET" + b" " * big + b"/ HTTP/1.1" + eol + b"Host: a" + eol + eol).hex()}
        yield {"stream": "http-big", "http": (b"GET / HTTP/1.1" + b" " * big + eol + b"Host: a" + eol + eol).hex()}
        yield {"stream": "http-big", "http": (b"HTTP/1.1 200 " + b"OK " * (big // 3) + eol + b"Server: a" + eol + eol).hex()}
    # hostile values of the headers pyp0f itself interprets (dates with absurd numbers, huge zones, non-ASCII, empty ...)
    dates = [b"Tue, 01 Mar 2011 20:45:16 +99999999999999", b"Tue, 01 Mar 2011 20:45:16 -99999999999999999999", b"Tue, 01 Mar 99999999999 20:45:16 GMT",
             b"Tue, 99 Mar 2011 20:45:16 GMT", b"Tue, 01 Mar 2011 99:99:99 GMT", b"Tue, 01 Mar 0000 00:00:00 GMT", b"0", b"", b" ", b"\xff\xfe", b"Tue, 01 M\xc3\xa4r 2011",
             b"1 Jan 1 0:0:0 +2400", b"31 Dec 9999 23:59:59 -2359", b"Tue, 01 Mar 2011 20:45:16 +" + b"9" * 400, b"(" * 300, b"Tue, 01 Mar 2011 20:45:16 GMT",
             b"1e9", b"-1", b"9" * 30, b",,,,", b"Mon, 31 Feb 2011 00:00:00 GMT"]
    for eol in (b"\r\n", b"\n"):
        for d in dates:
            for name in (b"Date", b"date", b"Via", b"Accept-Language", b"Content-Length", b"Last-Modified"):
                yield {"stream": "http-interpreted-headers", "http": (b"HTTP/1.1 200 OK" + eol + name + b": " + d + eol + b"Server: Apache" + eol + eol).hex()}
                yield {"stream": "http-interpreted-headers", "http": (b"GET / HTTP/1.1" + eol + b"Host: a" + eol + name + b": " + d + eol + eol).hex()}
    # packets that get as far as the window test of the database's mss*N signatures (everything else matches), for every peer-MSS argument
    for fl, sec_ttl in ((2, 64), (0x12, 64)):
        for mss in (100, 111, 1460):
            for win in (8191, 65535, 0, 14600, mss * 10):
                for syn in (None, 0, 1, 11, 12, 13, 24, 112, 65535):
                    spec = {"v": 4, "ttl": 60, "id": 0 if fl == 0x12 else 1, "df": True, "flags": fl, "ack": 7 if fl == 0x12 else 0, "win": win,
                            "opts": W.o_mss(mss) + ("" if fl == 0x12 else W.o_sok() + W.o_ts(5, 0) + "01" + W.o_ws(7))}
                    yield {"stream": "reaches-window-test", "v": 4, "raw": W.build(spec).hex(), "syn_mss": syn}
    # packets that match the database's records in EVERY combination of the tolerated differences (quirks: df / id+ gone, id- / ecn added; TTL above the
    # signature's or further below it than max_dist) - each difference alone and all of them together
    for fl in (2, 0x12):
        for df in (True, False):
            for pid in (0, 1):
                for tos in (0, 1):
                    for ttl in (64, 60, 20, 29, 28, 65, 100, 255, 1):
                        for ece in (0, 0x40):
                            spec = {"v": 4, "ttl": ttl, "id": pid, "df": df, "tos": tos, "flags": fl | ece, "ack": 7 if fl == 0x12 else 0,
                                    "win": 1460 * (10 if fl == 0x12 else 20), "opts": W.o_mss(1460) + ("" if fl == 0x12 else W.o_sok() + W.o_ts(5, 0) + "01" + W.o_ws(7))}
                            yield {"stream": "every-fuzzy-combination", "v": 4, "raw": W.build(spec).hex()}
    # messages that MATCH a record naming a software, with every kind of User-Agent / Server value (absent, empty, blank, other)
    for eol in (b"\r\n", b"\n"):
        for ua in (None, b"", b" ", b"\t", b"curl/7.81", b"CURL", b"x", b"\xff"):
            hs = [b"Host: a"] + ([b"User-Agent:" + (b" " + ua if ua else ua)] if ua is not None else []) + [b"Accept: */*"]
            yield {"stream": "http-matching", "http": (b"GET / HTTP/1.1" + eol + eol.join(hs) + eol + eol).hex()}
            sv = [b"Date: x"] + ([b"Server:" + (b" " + ua if ua else ua)] if ua is not None else [])
            yield {"stream": "http-matching", "http": (b"HTTP/1.1 200 OK" + eol + eol.join(sv) + eol + eol).hex()}


def model_line(c):
    if c.get("stream") == "http-big":
        return "read_payload -"          # (the extracted model is not built for speed; large payloads are judged on termination and exception class only)
    if "http" in c:
        return "read_payload " + (c["http"] or "-")
    return "extract %d 0 %s" % (c["v"], c["raw"] or "-")


def impl_init():
    import time
    from pyp0f.exceptions import PacketError
    from pyp0f.fingerprint import fingerprint_http, fingerprint_mtu, fingerprint_tcp, fingerprint_uptime
    from pyp0f.net.packet import parse_packet
    from pyp0f.net.signatures import TCPPacketSignature
    from pyp0f.options import Options
    from harness import implutil as U
    db = U.load_db("\n".join(DB) + "\n")
    opts = Options(database=db)
    last = TCPPacketSignature.from_packet(parse_packet(U.scapy_from_spec({"flags": 2, "opts": "0101" + W.o_ts(1000, 0)})))
    last.received -= 500

    def run(f):
        try:
            f()
            return "ok"
        except PacketError:
            return "PacketError"
        except BaseException as e:  # noqa
            if type(e).__name__ == "CaseTimeout":
                raise
            return "other:" + type(e).__name__

    def impl(c):
        if "http" in c:
            raw = bytes.fromhex(c["http"])
            k = len(raw) % 3          # every accepted buffer type: bytes, bytearray, h11 ReceiveBuffer
            if k == 2:
                from h11._receivebuffer import ReceiveBuffer
                buf = ReceiveBuffer()
                buf += raw
            else:
                buf = bytearray(raw) if k else raw
            return {"http": run(lambda: fingerprint_http(buf, options=opts))}
        raw = bytes.fromhex(c["raw"])
        try:
            pkt = U.scapy_from_bytes(raw, c["v"])
        except BaseException as e:  # noqa  Scapy refused the bytes
            if type(e).__name__ == "CaseTimeout":
                raise
            return {"dissect_failed": type(e).__name__}
        prev = last
        if c.get("up"):
            try:
                cur = parse_packet(pkt)
                prev = TCPPacketSignature.from_packet(parse_packet(U.scapy_from_spec({"flags": 2, "opts": "0101" + W.o_ts((cur.tcp.options.timestamp - c["up"][0]) % 2 ** 32, 0)})))
                prev.received -= c["up"][1]
            except Exception:  # noqa  (never a timeout: that one must reach the worker)
                prev = last
        syn_mss = c["syn_mss"] if "syn_mss" in c else [None, 0, 12, 1, 11, 13, 24, 1460, 65535][len(raw) % 9]          # the peer-MSS argument is input too (12: peer MSS - 12 = 0)
        out = {"tcp": run(lambda: fingerprint_tcp(pkt, syn_mss=syn_mss, options=opts)), "mtu": run(lambda: fingerprint_mtu(pkt, options=opts)),
               "uptime": run(lambda: fingerprint_uptime(pkt, prev, options=opts))}
        try:
            k = parse_packet(pkt)
            out["layout_len"] = len(k.tcp.options.layout)
            out["opt_bytes"] = max(0, k.tcp.header_length - 20)
        except Exception:  # noqa
            pass
        return out
    return impl


def expected(mr):
    """ok/PacketError class the model predicts for tcp/mtu/uptime on a framed packet."""
    if not isinstance(mr, dict):
        return None
    if "err" in mr:
        return {"tcp": "PacketError", "mtu": "PacketError", "uptime": "PacketError"} if mr["err"] == "PacketError" else None
    k = mr["ok"]
    frag = k["ip"]["is_fragment"]
    ty = k["tcp"]["type"]
    mss = k["tcp"]["options"]["mss"]
    okk = lambda b: "ok" if b else "PacketError"
    return {"tcp": okk(not frag and ty in (2, 18)), "mtu": okk(not frag and ty in (2, 18) and mss > 0), "uptime": okk(not frag and ty in (2, 18, 16))}


def outcome(c, ir, mr):
    if "http" in c:
        return "http:" + (ir.get("http", "?") if isinstance(ir, dict) else "?")
    if isinstance(ir, dict) and "dissect_failed" in ir:
        return "dissect-failed"
    return ("framed:" if mr != "unframed" else "unframed:") + (ir.get("tcp", "?") if isinstance(ir, dict) else "?")


def nontrivial(c, ir, mr):
    return isinstance(ir, dict) and (ir.get("tcp") == "PacketError" or ir.get("http") == "PacketError" or mr == "unframed")


def judge(c, ir, mr):
    if not isinstance(ir, dict) or "exc" in ir:
        why = str(ir)
        return {"kind": "call did not terminate or the worker died" if "TIMEOUT" in why or "DIED" in why else "harness-level exception", "why": why,
                "judged_by": "C04_walk_fuel (the model's walker terminates within len(buffer) iterations)"}
    if "dissect_failed" in ir:
        return None
    for k in ("tcp", "mtu", "uptime", "http"):
        if k in ir and ir[k] not in ("ok", "PacketError"):
            return {"kind": "an exception other than PacketError escaped from fingerprint_" + k, "why": ir[k], "judged_by": "C04_fp_total / C04_http_total"}
    if "layout_len" in ir and ir["layout_len"] > ir["opt_bytes"]:
        return {"kind": "option layout has more entries than option bytes", "why": str(ir), "judged_by": "C04_layout_le"}
    if c.get("stream") == "http-big":
        return None
    if "http" in c:
        want = "ok" if isinstance(mr, dict) and "ok" in mr else "PacketError"
        if ir["http"] != want:
            return {"kind": "correspondence: HTTP payload accepted/rejected differently from the verified reader (both outcomes are allowed by C04)",
                    "why": "impl %s model %s" % (ir, mr), "no_failing_input": True}
        return None
    exp = expected(mr)
    if exp is not None and all(ir.get(k) == "PacketError" for k in ("tcp", "mtu", "uptime")):
        from harness import findings
        if findings.scapy_ao_short(findings.raw_opt_area(bytes.fromhex(c["raw"]), c["v"])):
            return None      # Scapy cannot dissect a TCP-AO option of length 3 (finding KF-scapy-ao of C03); PacketError is an allowed outcome for C04
    if exp is not None:
        for k, v in exp.items():
            if ir.get(k) != v:
                return {"kind": "correspondence: packet accepted/rejected differently from the verified gate (both outcomes are allowed by C04)",
                        "why": "%s: impl %s model %s" % (k, ir.get(k), v), "no_failing_input": True}
    return None


def shrink(c):
    if c.get("stream") == "http-big":
        return
    key = "http" if "http" in c else "raw"
    b = bytes.fromhex(c[key])
    for n in (8, 4, 1):
        for i in range(20 if key == "raw" else 0, len(b), n):
            yield dict(c, **{key: (b[:i] + b[i + n:]).hex()})
