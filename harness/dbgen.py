"""Generator of p0f database files (valid and single-fault corrupted) for C09 / C10 / C11 / C15."""
from harness import tcpgen as G

NAMES = ["Linux", "Windows", "Mac OS X", "FreeBSD", "nmap", "curl", "Open-BSD (x)", "a.b,c", "X",
         "A\u030angstro\u0308m", "\u2126S"]        # (not NFC-stable: A + combining ring, OHM SIGN - kept as written)
FLAV = ["3.x", "", "7 or 8", "2.6.x (loopback)", "NT kernel", "x,y"]
CLASSES = ["unix", "win", "!", "other", "", "cisco", "Unix", "WIN", "x y"]
HDR_NAMES = ["Host", "User-Agent", "Accept", "Accept-Encoding", "Connection", "Keep-Alive", "Server", "Date", "Content-Type",
             "Content-Length", "X-Tag", "ACCEPT", "accept-language", "Via", "X-Zone-Id", "AUTHORIZATION"]


def rand_tcp_sig(R):
    p = G.rand_pkt(R)
    s = G.matching_sig(R, p, G.rand_md(R))
    for _ in range(R.choice([0, 1, 2])):
        s = G.edit_sig(R, s, p, 35)
    if R.random() < 0.3:
        s["layout"] = [R.choice([0, 1, 2, 3, 4, 5, 8, 6, 7, 9, 77, 254, 255]) for _ in range(R.randint(0, 9))]
        s["eol"] = R.choice([0, 1, 3, 7, 255])
    if R.random() < 0.3:
        s["quirks"] = R.getrandbits(17)
        G.legal_quirks(s)
    s["olen"] = R.choice([0, 0, 0, 4, 40, 255, s["olen"]])
    if R.random() < 0.2:
        s["mss"] = R.choice([0, 1, 65535])
    if R.random() < 0.2:
        s["wscale"] = R.choice([0, 255])
    return s


ND_ZEROS = [0x660, 0x6F0, 0x966, 0xE50, 0xFF10, 0x1D7CE, 0x1D7F6, 0x104A0, 0x1E950]      # zero of some Unicode decimal-digit runs
USPACE = ["\x85", "\xa0", "\u1680", "\u2000", "\u2003", "\u200a", "\u2028", "\u2029", "\u202f", "\u205f", "\u3000"]


def exotic_num(R, digits):
    """The same number as int() reads it: decimal digits of another script, non-ASCII white space around (what str.isspace() accepts)."""
    z = R.choice(ND_ZEROS)
    out = "".join(chr(z + int(ch)) if R.random() < 0.8 else ch for ch in digits)
    if R.random() < 0.4:
        out = R.choice(USPACE) + out
    if R.random() < 0.4:
        out = out + R.choice(USPACE)
    return out


def tcp_sig_text(R, s):
    t = G.sig_text(s)
    if R.random() < 0.1:   # int() leniency that the grammar tolerates
        parts = t.split(":")
        if parts[2].isdigit():
            parts[2] = R.choice(["0", "+", " "]) + parts[2] if R.random() < 0.6 else exotic_num(R, parts[2])
        t = ":".join(parts)
    return t


def rand_http_sig(R):
    ver = R.choice(["0", "1", "*"])
    hs = []
    for _ in range(R.randint(0, 6)):
        r = R.random()
        name = R.choice(HDR_NAMES)
        if R.random() < 0.1:
            name = R.choice([" " + name, name + " ", "\t" + name, name + "\t ", " " + name + " "])      # blanks around a token belong to the NAME (tokens are cut at ',' only)
        if R.random() < 0.3:
            name = "?" + name
        if r < 0.4:
            hs.append(name)
        elif r < 0.9:
            val = R.choice(["keep-alive", "close", "gzip, deflate", "text/html,application/xhtml+xml", "Mozilla/5.0 (", "a=b", "", "x", "[x", "x[", "*/*"])
            hs.append("%s=[%s]" % (name, val))
        else:
            hs.append(R.choice(["", "", "?", "=[x]", "?=[x]", "?=[]", "="]))      # (a token whose NAME is empty is still a header item, not an error)
    absent = ",".join(R.sample(HDR_NAMES, R.randint(0, 3)) + ([R.choice(["\u00dc-Tag", "X-\u212aelvin", "\u0130d", "x-\u00e9t\u00c9"])] if R.random() < 0.1 else []))
    sw = R.choice(["", "Firefox/", "MSIE 8", "Apache", "curl/", "nginx/1.", " Chrom", "M\u00f6z"])
    return ":".join([ver, ",".join(hs), absent, sw])


def rand_label(R, kind):
    if kind == "mtu":
        return R.choice(["Ethernet or modem", "DSL", "generic tunnel or VPN", "GIF", "loopback", "x:y", ""])
    t = R.choice(["s", "s", "g"])
    cls = R.choice(CLASSES)
    lab = "%s:%s:%s:%s" % (t, cls, R.choice(NAMES), R.choice(FLAV))
    if R.random() < 0.05:
        lab += ":extra"
    return lab


SECTIONS = [("mtu", None), ("tcp", "request"), ("tcp", "response"), ("http", "request"), ("http", "response")]


def sec_header(kind, d):
    return "[%s]" % kind if d is None else "[%s:%s]" % (kind, d)


def ws(R):
    return R.choice(["", "", " ", "  ", "\t"])


def rand_sig_line(R, kind):
    if kind == "mtu":
        v = str(R.choice([1, 576, 1280, 1500, 9000, 65535, R.randrange(1, 65536)]))
        if R.random() < 0.05:
            v = exotic_num(R, v)
    elif kind == "tcp":
        v = tcp_sig_text(R, rand_tcp_sig(R))
    else:
        v = rand_http_sig(R)
    return v


def valid_file(R, small=False):
    """Returns the list of lines (without terminators) of a syntactically valid database file."""
    lines = []
    if R.random() < 0.5:
        lines += ["; p0f database", "", "classes = win,unix,other", ""]
    secs = [R.choice(SECTIONS) for _ in range(R.randint(1, 3 if small else 7))]
    app_labels = {}
    for kind, d in secs:
        lines.append(ws(R) + sec_header(kind, d) + ws(R))
        if kind == "http" and R.random() < 0.3:
            lines.append("ua_os = Linux,Windows=NT")
        for _ in range(R.randint(0, 2 if small else 4)):
            lab = rand_label(R, kind)
            if kind != "mtu" and lab.split(":")[1] == "!" and app_labels and R.random() < 0.5:
                lab = R.choice(list(app_labels))        # same application label again, other sys list
            lines.append("%slabel%s=%s%s%s" % (ws(R), ws(R), ws(R), lab, ws(R)))
            if kind != "mtu" and lab.split(":")[1] == "!" and lab.split(":")[0] in ("s", "g"):
                sysv = ",".join(R.sample(["Linux", "Windows", "@unix", "@win", "BSD"], R.randint(1, 3)))
                app_labels[lab] = sysv
                lines.append("sys%s=%s%s" % (ws(R), ws(R), sysv))
            for _ in range(R.randint(0, 2 if small else 3)):
                if R.random() < 0.2:
                    lines.append(R.choice(["", "; comment", "   ", "\t", ";", "; sig = 1:2:3"]))
                lines.append("%ssig%s=%s%s%s" % (ws(R), ws(R), ws(R), rand_sig_line(R, kind), ws(R)))
        if R.random() < 0.3:
            lines.append("")
    return lines


def line_kind(l):
    s = l.strip()
    if not l or l[0] == ";" or not s:
        return "skip"
    if s[0] == "[":
        return "section"
    return s.partition("=")[0].strip()


FIELD_FAULTS = ["", "-1", "256", "65536", "1001", "x", "1x", "0", "1", "*", "**", "999999", "+", "-", "?", "?256", "eol+", "eol+256", "mss*0", "mtu*1001",
                "%1", "%65536", "%", ",", "64+", "+64", "64+200", "0-", "256-", "64--", "nop,", ",nop", "foo", "df,", "flow", "id+", "eol", "sack ", " ts",
                "\u0661", "\uff11\uff10", "\u00b2", "\u20287", "7\u3000", "1\x1c", "\x1c1", "\u0967\u0968\u0969", "1\u00a02", "\u2460", "\u0661_\u0662", "\uff0b5", "+\uff15"]


TCP_FIELD_FAULTS = {
    0: ["", "5", "44", "x", "4 ", "**", "4", "6", "*"],
    1: ["", "0", "256", "64+192", "64+191", "255+1", "1+255", "0-", "256-", "-", "64+", "+64", "64+-1", "64-1", "x", "64+x", "1-", "255-", "255", "1", "1+0", "254+1", "0+1", "0+64", "0+255", "00+128", "0+0", "0+256", "1+254", "1+255"],
    2: ["", "-1", "256", "255", "x", "*", "0"],
    3: ["", "-1", "65536", "65535", "x", "**", "0", "*"],
    6: ["foo", "DF", "df ", "df,,id+", ",df", "df,", "flow", "df", "0+", "id-", "id+", "bad,bad", "ecn,flow", "ts2+"],
    7: ["", "1", "-", "x", "00", "+", "0", "*"],
}
WIN_FAULTS = ["", "-1", "65536", "65535", "0", "mss*0", "mss*1", "mss*1000", "mss*1001", "mtu*0", "mtu*1", "mtu*1000", "mtu*1001", "mtu*65535", "mss*65535",
              "%1", "%2", "%65535", "%65536", "%0", "%", "mss*", "mtu*", "mst*5", "mss5", "x", "*", "**", "mss*+5", "m"]
SCALE_FAULTS = ["", "-1", "256", "255", "x", "*", "0", "**"]
OPT_FAULTS = ["", "?-1", "?256", "?255", "?0", "eol+256", "eol+255", "eol+0", "eol+-1", "eol+", "eol", "foo", "MSS", "?", "nop ", "sack", "ts", "eol+{padding_length}"]
MTU_FAULTS = ["0", "1", "65535", "65536", "", "x", "-5", "1500 ", "*"]
HTTP_VER_FAULTS = ["", "2", "x", "10", "0", "1", "*", "**", "01", "00", "+1", "-0", "0_1", " 1", "1 ", "\uff11", "\u0660", "1.0", "0x1"]   # the version is a KEYWORD (0, 1, *), not a number


def corrupt_sig_field(R, kind, val):
    """Field-aware single fault: one field gets a value on or just beyond a boundary of its grammar, the rest stays valid."""
    if kind == "mtu":
        return R.choice(MTU_FAULTS), "mtu value"
    parts = val.split(":")
    if kind == "http":
        parts[0] = R.choice(HTTP_VER_FAULTS)
        return ":".join(parts), "http version"
    while len(parts) < 8:
        parts.append("")
    j = R.randrange(8)
    if j == 4:
        w, _, sc = parts[4].partition(",")
        r = R.random()
        if r < 0.6:
            w = R.choice(WIN_FAULTS)
        elif r < 0.9:
            sc = R.choice(SCALE_FAULTS)
        else:
            parts[4] = w
            return ":".join(parts), "window without scale"
        parts[4] = w + "," + sc
    elif j == 5:
        opts = parts[5].split(",") if parts[5] else []
        f = R.choice(OPT_FAULTS)
        if opts and R.random() < 0.7:
            opts[R.randrange(len(opts))] = f
        else:
            opts.insert(R.randint(0, len(opts)), f)
        parts[5] = ",".join(opts)
        if R.random() < 0.1:
            parts[5] = R.choice([",", parts[5] + ",", "," + parts[5]])
    else:
        parts[j] = R.choice(TCP_FIELD_FAULTS[j])
    return ":".join(parts), "tcp field %d" % j


def section_kinds(lines):
    kinds, cur = {}, None
    for i, l in enumerate(lines):
        if line_kind(l) == "section":
            cur = l.strip()[1:].split(":")[0].rstrip("]")
        kinds[i] = cur
    return kinds


def corrupt(R, lines):
    """One single-fault corruption; returns (new_lines, description)."""
    lines = list(lines)
    idx = [i for i, l in enumerate(lines) if line_kind(l) != "skip"]
    if not idx:
        return lines + ["junk"], "append junk"
    op = R.randrange(12)
    i = R.choice(idx)
    k = line_kind(lines[i])
    if op <= 3 and any(line_kind(l) == "sig" for l in lines):
        i = R.choice([j for j in idx if line_kind(lines[j]) == "sig"])
        head, _, val = lines[i].partition("=")
        kind = section_kinds(lines).get(i)
        if kind in ("mtu", "tcp", "http"):
            new, what = corrupt_sig_field(R, kind, val.strip())
            lines[i] = head + "= " + new
            return lines, "%s of sig at line %d := %r" % (what, i + 1, new)
    if op <= 4 and any(line_kind(l) == "sig" for l in lines):
        i = R.choice([j for j in idx if line_kind(lines[j]) == "sig"])
        head, _, val = lines[i].partition("=")
        parts = val.strip().split(":")
        j = R.randrange(len(parts))
        f = R.choice(FIELD_FAULTS)
        if R.random() < 0.3 and "," in parts[j]:
            sub = parts[j].split(",")
            sub[R.randrange(len(sub))] = f
            parts[j] = ",".join(sub)
        else:
            parts[j] = f
        lines[i] = head + "= " + ":".join(parts)
        return lines, "field %d of sig at line %d := %r" % (j, i + 1, f)
    if op == 5:
        del lines[i]
        return lines, "delete line %d (%s)" % (i + 1, k)
    if op == 6:
        lines.insert(i, lines[i])
        return lines, "duplicate line %d (%s)" % (i + 1, k)
    if op == 7:
        l = lines.pop(i)
        j = R.randint(0, len(lines))
        lines.insert(j, l)
        return lines, "move line %d (%s) to %d" % (i + 1, k, j + 1)
    if op == 8:
        lines.insert(i, R.choice(["foo = bar", "junk", "sigs = 1", "= x", "label", "sig", "sys", "  ; indented comment", "Label = s:unix:X:y", "[", "]"]))
        return lines, "insert unknown line before %d" % (i + 1)
    if op == 9:
        secs = [j for j in idx if line_kind(lines[j]) == "section"]
        if secs:
            j = R.choice(secs)
            lines[j] = R.choice(["[tcp]", "[http]", "[mtu:request]", "[udp]", "[tcp:both]", "[tcp:request", "[]", "[tcp:]", "[:request]", "[TCP:request]",
                                 "[tcp:request:x]", "[mtu:]", "[ mtu ]", "[tcp :request]",
                                 # the code cuts the first and the last CHARACTER off, whatever they are
                                 "[mtu\u00e9", "[tcp:request\u65e5", "[http:response\U0001d7ce", "[mtu]\u00e9", "[\u00e9mtu]", "[mtu\u2028]", "[mtu)", "[tcp:response}"])
            return lines, "section header at line %d := %s" % (j + 1, lines[j])
    if op == 10:
        labs = [j for j in idx if line_kind(lines[j]) == "label"]
        if labs:
            j = R.choice(labs)
            lines[j] = "label = " + R.choice(["", "x", "x:unix:Linux:1", ":unix:Linux:1", "S:unix:Linux:1", "s", "g:", "s:!:app:1", "g:!:app:", "sg:unix:L:1"])
            return lines, "label at line %d := %s" % (j + 1, lines[j])
    lines.insert(R.choice(idx), R.choice(["sys = Linux", "sig = 1500", "label = s:unix:Linux:3.x", "label = s:!:tool:1"]))
    return lines, "insert out-of-place line"


KIND_LINES = ["[mtu]", "[tcp:request]", "[tcp:response]", "[http:request]", "[http:response]", "label = s:unix:Linux:3.x", "label = g:!:tool:1",
              "label = Ethernet", "sys = Linux,Windows", "sig = 1500", "sig = *:64:0:*:mss*20,7:mss,sok,ts,nop,ws:df,id+:0", "sig = 1:Host,?Accept=[x]:Via:sw",
              "; comment", "", "   ", "junk", "classes = a,b", "sig = 0", "sig = 4:64:0:*:8192,0:mss:flow:0"]
