"""Helpers that run inside the implementation-side worker (they import pyp0f / Scapy)."""
import os
import tempfile

from scapy.layers.inet import IP as ScapyIP
from scapy.layers.inet6 import IPv6 as ScapyIPv6

from pyp0f.database import Database

from harness import wire

_TMP = os.path.join(os.path.dirname(os.path.dirname(os.path.abspath(__file__))), "work")


def scapy_from_spec(spec):
    raw = wire.build(spec)
    return (ScapyIP if wire.full(spec)["v"] == 4 else ScapyIPv6)(raw)


def scapy_from_bytes(raw, v):
    return (ScapyIP if v == 4 else ScapyIPv6)(raw)


def load_db(text):
    os.makedirs(_TMP, exist_ok=True)
    fd, path = tempfile.mkstemp(suffix=".fp", dir=_TMP)
    try:
        with os.fdopen(fd, "w", encoding="utf-8", newline="") as f:
            f.write(text)
        db = Database()
        db.load(path)
        return db
    finally:
        os.unlink(path)


def psig_dict(ps):
    o = ps.options
    return {"ver": ps.ip_version, "olen": ps.ip_options_length, "ttl": ps.ttl, "win": ps.window_size, "layout": [int(x) for x in o.layout],
            "mss": o.mss, "ws": o.window_scale, "ts1": o.timestamp, "eol": o.eol_padding_length, "hdr": ps.headers_length,
            "pay": bool(ps.has_payload), "quirks": ps.quirks.value, "syn_mss": ps.syn_mss}
