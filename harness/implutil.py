"""Helpers that run inside the implementation-side worker (they import pyp0f / Scapy)."""
import os
import pathlib
import tempfile

from scapy.layers.inet import IP as ScapyIP
from scapy.layers.inet6 import IPv6 as ScapyIPv6

from pyp0f.database import Database

from harness import wire

_TMP = os.path.join(os.path.dirname(os.path.dirname(os.path.abspath(__file__))), "work")


_LINK_HDR = {}


def scapy_from_spec(spec):
    """The packet as Scapy dissects it from the wire bytes: a bare IP datagram, or - spec["link"] - the datagram inside an Ethernet /
    802.1Q / Linux cooked-capture frame (dissected from the frame's bytes, so a trailer shows up as Scapy's Padding layer)."""
    raw = wire.build(spec)
    v = wire.full(spec)["v"]
    link = spec.get("link")
    if not link:
        return (ScapyIP if v == 4 else ScapyIPv6)(raw)
    if link == "tunnel":
        # the datagram travels inside an IPv4 tunnel (IP-in-IP / 6in4) and the caller hands over the INNER layer of the dissected frame:
        # that layer, not the tunnel header, is the packet
        outer = ScapyIP(bytes(ScapyIP(src="192.0.2.1", dst="192.0.2.2", ttl=250, id=0, flags=0, proto=4 if v == 4 else 41) / raw))
        return outer.payload
    from scapy.layers.l2 import CookedLinux, Dot1Q, Ether
    et = 0x0800 if v == 4 else 0x86DD
    key = (link, et)
    if key not in _LINK_HDR:
        mac = dict(src="02:00:00:00:00:01", dst="02:00:00:00:00:02")
        if link == "ether":
            _LINK_HDR[key] = (Ether, bytes(Ether(type=et, **mac)))
        elif link == "dot1q":
            _LINK_HDR[key] = (Ether, bytes(Ether(type=0x8100, **mac) / Dot1Q(vlan=7, type=et)))
        else:
            _LINK_HDR[key] = (CookedLinux, bytes(CookedLinux(proto=et)))
    cls, hdr = _LINK_HDR[key]
    return cls(hdr + raw)


def scapy_reused_seq(spec, warm):
    """As scapy_reused_window, for the sequence number (zero / non-zero is the `seq-` quirk)."""
    s = wire.full(spec)
    if spec.get("link"):
        return scapy_from_spec(spec)
    obj = scapy_from_spec(dict(spec, seq=0 if s["seq"] else 12345))
    try:
        warm(obj)
    except Exception:
        pass
    if obj.getlayer("TCP") is None:          # e.g. a non-first fragment: nothing to update
        return scapy_from_spec(spec)
    obj.getlayer("TCP").seq = s["seq"]
    return obj


def scapy_reused_window(spec, warm):
    """As scapy_reused, for the TCP window: the object was built and used with another window, then `tcp.window` was assigned.  Only for option
    areas Scapy re-serialises byte for byte once a field of the TCP layer has been set (callers check c16.simple_opts) and no link framing."""
    s = wire.full(spec)
    if spec.get("link"):
        return scapy_from_spec(spec)
    obj = scapy_from_spec(dict(spec, win=(s["win"] * 4 + 5840) % 65536))
    try:
        warm(obj)
    except Exception:
        pass
    if obj.getlayer("TCP") is None:
        return scapy_from_spec(spec)
    obj.getlayer("TCP").window = s["win"]
    return obj


def scapy_reused(spec, warm):
    """The caller's ONE long-lived packet object: it was built with another TTL / hop limit, has been handed to `warm` (a fingerprint
    call, result ignored), and has been UPDATED IN PLACE since.  What a function reports for it must follow what it holds now.
    (Only for packets whose IP header Scapy rebuilds byte for byte from its fields: no link layer, no IPv4 options.)"""
    s = wire.full(spec)
    if spec.get("link") or (s["v"] == 4 and s["ipopts"]):
        return scapy_from_spec(spec)
    obj = scapy_from_spec(dict(spec, ttl=(s["ttl"] + 37) % 256 or 1))
    try:
        warm(obj)
    except Exception:
        pass
    if s["v"] == 4:
        obj.getlayer("IP").ttl = s["ttl"]
    else:
        obj.getlayer("IPv6").hlim = s["ttl"]
    return obj


def scapy_from_bytes(raw, v):
    return (ScapyIP if v == 4 else ScapyIPv6)(raw)


_LOADS = [0]


def load_db(text, db=None):
    """Loads `text` as a database file.  Every load of a worker process goes through the SAME path with new contents, so that
    anything remembered per path (instead of per contents) shows up as a stale database."""
    os.makedirs(_TMP, exist_ok=True)
    path = os.path.join(_TMP, "db-%d.fp" % os.getpid())
    try:
        with open(path, "w", encoding="utf-8", newline="") as f:
            f.write(text)
        db = Database() if db is None else db
        len(db)                       # (the caller looked at the size before loading: what it sees afterwards is the new size)
        _LOADS[0] += 1
        if _LOADS[0] % 4 == 3:
            # a RELATIVE path, named like the bundled database ("data/p0f.fp" below the current directory): it is the caller's file that is read
            cwd = os.getcwd()
            rel_dir = os.path.join(_TMP, "cwd-%d" % os.getpid())
            os.makedirs(os.path.join(rel_dir, "data"), exist_ok=True)
            name = "p0f.fp" if _LOADS[0] % 16 == 3 else os.path.join("data", "p0f.fp")      # (also the bare file name of the bundled database, in the current directory)
            rel = os.path.join(rel_dir, name)
            os.replace(path, rel)
            path = rel
            try:
                os.chdir(rel_dir)
                db.load(name if _LOADS[0] % 8 == 3 else pathlib.Path(name))
            finally:
                os.chdir(cwd)
            return db
        db.load(path if _LOADS[0] % 2 else pathlib.Path(path))      # both accepted path types
        return db
    finally:
        try:
            os.unlink(path)
        except OSError:
            pass


def psig_dict(ps):
    o = ps.options
    return {"ver": ps.ip_version, "olen": ps.ip_options_length, "ttl": ps.ttl, "win": ps.window_size, "layout": [int(x) for x in o.layout],
            "mss": o.mss, "ws": o.window_scale, "ts1": o.timestamp, "eol": o.eol_padding_length, "hdr": ps.headers_length,
            "pay": bool(ps.has_payload), "quirks": ps.quirks.value, "syn_mss": ps.syn_mss}


# ---- database dump in the canonical form the model prints (texts as hex) ----
def _hx(s):
    if s is None:
        return None
    return (s if isinstance(s, (bytes, bytearray)) else s.encode("utf-8")).hex()


def dump_sig(sig):
    from pyp0f.database.signatures import HTTPSignature, MTUSignature, TCPSignature
    if isinstance(sig, MTUSignature):
        return sig.mtu
    if isinstance(sig, TCPSignature):
        return {"ver": sig.ip_version, "olen": sig.ip_options_length, "ttl": sig.ttl, "bad_ttl": bool(sig.is_bad_ttl),
                "wtype": sig.window.type.value - 1, "wsize": sig.window.size, "wscale": sig.window.scale,
                "layout": [int(x) for x in sig.options.layout], "mss": sig.options.mss, "eol": sig.options.eol_padding_length,
                "pay": sig.payload_class, "quirks": sig.quirks.value}
    assert isinstance(sig, HTTPSignature)
    return {"version": sig.version, "headers": [[_hx(h.name), bool(h.is_optional), _hx(h.value), _hx(h.lower_name)] for h in sig.headers],
            "absent": sorted(_hx(a) for a in sig.absent_headers), "software": _hx(sig.expected_software),
            "header_names": sorted(_hx(a) for a in sig.header_names)}


def dump_record(r):
    from pyp0f.database.labels import Label
    lab = r.label
    return {"line": r.line_number,
            "label": {"dump": _hx(lab.dump()), "sys": [_hx(x) for x in lab.sys] if isinstance(lab, Label) else None, "generic": bool(r.is_generic)},
            "raw": _hx(r.raw_signature), "sig": dump_sig(r.signature)}


def dump_db(db):
    from pyp0f.database.records import HTTPRecord, MTURecord, TCPRecord
    from pyp0f.exceptions import DatabaseError
    from pyp0f.net.packet import Direction

    def sec(cls, d):
        try:
            return [dump_record(r) for r in db.iter_values(cls, d)]
        except DatabaseError:
            return None
    return {"mtu": sec(MTURecord, None), "tcp_req": sec(TCPRecord, Direction.CLIENT_TO_SERVER), "tcp_resp": sec(TCPRecord, Direction.SERVER_TO_CLIENT),
            "http_req": sec(HTTPRecord, Direction.CLIENT_TO_SERVER), "http_resp": sec(HTTPRecord, Direction.SERVER_TO_CLIENT), "len": len(db)}


class options_as:
    """The three ways a caller can hand thresholds / a database to a fingerprint function; all must behave alike:
    style 0: Options(**vals) passed as `options=`; style 1: a default Options() whose attributes are assigned afterwards (it is a plain
    mutable dataclass); style 2: the process-wide OPTIONS object tuned in place and the `options` argument omitted.
    Use as:  with options_as(style, database=db, max_dist=5) as kw: fingerprint_tcp(pkt, **kw)"""

    def __init__(self, style, **vals):
        self.style, self.vals, self.saved = style % 3, vals, None

    def __enter__(self):
        from pyp0f.options import OPTIONS, Options
        if self.style == 0:
            return {"options": Options(**self.vals)}
        if self.style == 1:
            o = Options()
            for k, v in self.vals.items():
                setattr(o, k, v)
            return {"options": o}
        self.saved = {k: getattr(OPTIONS, k) for k in self.vals}
        for k, v in self.vals.items():
            setattr(OPTIONS, k, v)
        return {}

    def __exit__(self, *a):
        if self.saved is not None:
            from pyp0f.options import OPTIONS
            for k, v in self.saved.items():
                setattr(OPTIONS, k, v)
        return False
