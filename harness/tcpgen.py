"""Generators and encoders for TCP signatures / packet signatures (C01, C02, C17, ...).

A packet signature is a dict {ver, olen, ttl, win, layout, mss, ws, ts1, eol, hdr, pay, quirks,
syn_mss}.  A database signature is a dict {ver, ttl, bad_ttl, dist, olen, mss, wtype, wsize,
wscale, layout, eol, pay, quirks}; `sig_text` prints it in the p0f grammar, which is what the
implementation is given, so that TCPSignature.parse is inside the tie.
"""

QUIRKS = ["ecn", "df", "id+", "id-", "0+", "flow", "seq-", "ack+", "ack-", "uptr+", "urgf+", "pushf+",
          "ts1-", "ts2+", "opt+", "exws", "bad"]
QBIT = {n: i for i, n in enumerate(QUIRKS)}
V4_ONLY = (1 << 1) | (1 << 2) | (1 << 3) | (1 << 4)
V6_ONLY = 1 << 5
OPT_NAMES = {1: "nop", 2: "mss", 3: "ws", 4: "sok", 5: "sack", 8: "ts"}
WT = ["NORMAL", "ANY", "MOD", "MSS", "MTU"]


def quirks_text(q):
    return ",".join(n for i, n in enumerate(QUIRKS) if q >> i & 1)


def layout_text(layout, eol):
    out = []
    for k in layout:
        if k == 0:
            out.append("eol+%d" % eol)
        elif k in OPT_NAMES:
            out.append(OPT_NAMES[k])
        else:
            out.append("?%d" % k)
    return ",".join(out)


def sig_text(s):
    ver = "*" if s["ver"] == -1 else str(s["ver"])
    if s["bad_ttl"]:
        ttl = "%d-" % s["ttl"]
    elif s.get("dist"):
        ttl = "%d+%d" % (s["ttl"] - s["dist"], s["dist"])
    else:
        ttl = str(s["ttl"])
    mss = "*" if s["mss"] == -1 else str(s["mss"])
    wt = s["wtype"]
    if wt == 0:
        win = str(s["wsize"])
    elif wt == 1:
        win = "*"
    elif wt == 2:
        win = "%%%d" % s["wsize"]
    elif wt == 3:
        win = "mss*%d" % s["wsize"]
    else:
        win = "mtu*%d" % s["wsize"]
    scale = "*" if s["wscale"] == -1 else str(s["wscale"])
    pay = {-1: "*", 0: "0", 1: "+"}[s["pay"]]
    return ":".join([ver, ttl, str(s["olen"]), mss, win + "," + scale, layout_text(s["layout"], s["eol"]),
                     quirks_text(s["quirks"]), pay])


def enc_list(l):
    return "%d %s" % (len(l), " ".join(map(str, l))) if l else "0"


def enc_sig(s):
    """Model encoding (driver.ml read_sig).  eol of a signature without EOL in the layout is 0
    (that is what parsing its text yields)."""
    eol = s["eol"] if 0 in s["layout"] else 0
    return " ".join(map(str, [s["ver"], s["olen"], s["ttl"], int(s["bad_ttl"]), s["wtype"], s["wsize"], s["wscale"],
                              enc_list(s["layout"]), s["mss"], eol, s["pay"], s["quirks"]]))


def enc_pkt(p):
    return " ".join(map(str, [p["ver"], p["olen"], p["ttl"], p["win"], enc_list(p["layout"]), p["mss"], p["ws"], p["ts1"],
                              p["eol"], p["hdr"], int(p["pay"]), p["quirks"], p["syn_mss"]]))


def rand_layout(R):
    r = R.random()
    if r < 0.5:
        return R.choice([[2], [2, 4, 8, 1, 3], [2, 1, 3, 1, 1, 8], [2, 1, 1, 4], [2, 1, 3, 1, 1, 4], [], [2, 4, 8, 1, 3, 0],
                         [1, 1, 8], [2, 3, 4, 5, 8], [2, 1, 1, 8, 1, 0]])
    return [R.choice([0, 1, 2, 3, 4, 5, 8, 9, 30, 255]) for _ in range(R.randint(0, 7))]


def rand_pkt(R):
    ver = R.choice([4, 4, 6])
    mss = R.choice([0, 50, 99, 100, 101, 536, 1220, 1360, 1400, 1428, 1440, 1448, 1452, 1460, 1500, 9000, 65535, R.randrange(65536)])
    hdr = R.choice([40, 44, 48, 52, 60, 64, 72, 80, 100, 120])
    syn = R.choice([0, 0, 0, 5, 11, 12, 13, 24, 100, 536, 1460, R.randrange(65536)])
    ts1 = R.choice([0, 0, 1, R.randrange(2 ** 32)])
    cands = [mss, mss - 12, 1460, 1448, 1440, 1428, mss + 40, mss + hdr, mss + 60, 1500, syn, syn - 12]
    d = abs(R.choice(cands))
    k = R.choice([1, 2, 3, 4, 5, 10, 11, 20, 22, 44, 45])
    win = R.choice([0, R.randrange(65536), d * k, d * k, d * k, d * k + 1, 8192, 65535, 16384, 5840, 14600])
    if not 0 <= win <= 65535:
        win = R.choice([d, d * 2, d * 3]) if 0 <= d * 3 <= 65535 else R.randrange(65536)
    if not 0 <= win <= 65535:
        win %= 65536
    layout = rand_layout(R)
    q = R.getrandbits(17) if R.random() < 0.4 else R.choice([0, 6, 2, 8, 1, 7, 0x1006, 0x22])
    if R.random() < 0.8:   # mostly coherent with the IP version, as a real packet would be
        q &= ~(V6_ONLY if ver == 4 else V4_ONLY)
    return {"ver": ver, "olen": R.choice([0, 0, 0, 4, 8, 40]) if ver == 4 else 0, "ttl": R.randrange(0, 256), "win": win,
            "layout": layout, "mss": mss, "ws": R.choice([0, 1, 2, 7, 8, 14, 15, 255]), "ts1": ts1,
            "eol": R.choice([0, 0, 1, 2, 3]) if 0 in layout else 0, "hdr": hdr, "pay": R.random() < 0.3, "quirks": q, "syn_mss": syn}


def model_win_multi(p):
    """Harness-side copy of the divisor rule, used only to *aim* the generator (never as an oracle)."""
    if not p["win"] or p["mss"] < 100:
        return None
    divs = [(p["mss"], 0)]
    if p["ts1"]:
        divs.append((p["mss"] - 12, 0))
    divs += [(1460, 0), (1448, 0)]
    if p["ver"] == 6:
        divs += [(1440, 0), (1428, 0)]
    divs += [(p["mss"] + 40, 1), (p["mss"] + p["hdr"], 1)]
    if p["ver"] == 6:
        divs.append((p["mss"] + 60, 1))
    divs.append((1500, 1))
    if p["syn_mss"]:
        divs += [(p["syn_mss"], 0), (p["syn_mss"] - 12, 0)]
    for d, m in divs:
        if d and p["win"] % d == 0:
            return (p["win"] // d, m)
    return None


def matching_sig(R, p, md):
    """A signature constructed to match p exactly (when the packet allows), with random use of
    wildcards and window forms."""
    ver = R.choice([-1, -1, p["ver"]])
    q = p["quirks"]
    if ver == -1 and R.random() < 0.5:   # other-family quirks are ignored on a version-agnostic signature
        q |= R.choice([0, V6_ONLY]) if p["ver"] == 4 else R.choice([0, 1 << R.choice([1, 2, 3, 4])])
    if ver == 4:
        q &= ~V6_ONLY
    if ver == 6:
        q &= ~V4_ONLY
    bad_ttl = R.random() < 0.2
    gap = R.choice([0, 0, 1, md, max(0, md - 1), R.randrange(0, md + 1)]) if md >= 0 else 0
    ttl = min(255, max(1, p["ttl"] + gap))
    dist = R.choice([0, 0, 0, 1, 4]) if not bad_ttl else 0
    if ttl - dist < 1:
        dist = 0
    wm = model_win_multi(p)
    forms = [0, 1]
    if p["win"] >= 2:
        forms.append(2)
    if wm and 1 <= wm[0] <= 1000:
        forms += [3 + wm[1]] * 3
    wt = R.choice(forms)
    if wt == 0:
        wsize = p["win"]
    elif wt == 1:
        wsize = -1
    elif wt == 2:
        divs = [d for d in (2, 3, 4, 5, 8, 16, 64, 256, 1024, 1460, p["win"]) if 2 <= d <= 65535 and p["win"] % d == 0]
        wsize = R.choice(divs) if divs else 2
    else:
        wsize = wm[0]
    return {"ver": ver, "ttl": ttl, "bad_ttl": bad_ttl, "dist": dist, "olen": min(255, p["olen"]),
            "mss": R.choice([-1, p["mss"]]), "wtype": wt, "wsize": wsize,
            "wscale": R.choice([-1, p["ws"]]), "layout": list(p["layout"]), "eol": p["eol"],
            "pay": R.choice([-1, int(p["pay"])]), "quirks": q}


def legal_quirks(s):
    if s["ver"] == 4:
        s["quirks"] &= ~V6_ONLY
    if s["ver"] == 6:
        s["quirks"] &= ~V4_ONLY


def edit_sig(R, s, p, md):
    """Apply one edit from the catalogue (one entry per decision of the matcher)."""
    s = dict(s, layout=list(s["layout"]))
    e = R.randrange(16)
    if e == 0:
        s["quirks"] ^= 1 << R.randrange(17)
    elif e == 1:
        s["quirks"] ^= 1 << R.choice([0, 1, 2, 3])       # the fuzzy-tolerated ones
    elif e == 2:
        s["ttl"] = min(255, max(1, p["ttl"] + R.choice([-1, 0, 1, md - 1, md, md + 1, md + 2])))
        s["dist"] = 0
    elif e == 3:
        s["bad_ttl"] = not s["bad_ttl"]
        s["dist"] = 0
    elif e == 4:
        s["eol"] = max(0, min(255, s["eol"] + R.choice([-1, 1])))
        if 0 not in s["layout"] and R.random() < 0.5:
            s["layout"].append(0)
    elif e == 5:
        s["olen"] = max(0, min(255, s["olen"] + R.choice([-1, 1, 4])))
    elif e == 6:
        s["mss"] = R.choice([-1, p["mss"], min(65535, p["mss"] + 1), max(0, p["mss"] - 1), 0])
    elif e == 7:
        s["wscale"] = R.choice([-1, p["ws"], min(255, p["ws"] + 1), max(0, p["ws"] - 1)])
    elif e == 8:
        s["pay"] = R.choice([-1, 0, 1])
    elif e == 9:
        s["ver"] = R.choice([-1, 4, 6])
    elif e == 10:
        s["wtype"] = 0
        s["wsize"] = max(0, min(65535, p["win"] + R.choice([-1, 0, 1])))
    elif e == 11:
        s["wtype"] = 2
        s["wsize"] = R.choice([2, 3, 7, 256, 1460, max(2, p["win"]), max(2, p["win"] // 2 or 2), R.randrange(2, 65536)])
    elif e == 12:
        wm = model_win_multi(p)
        s["wtype"] = R.choice([3, 4])
        base = wm[0] if wm and 1 <= wm[0] <= 1000 else R.randrange(1, 1001)
        s["wsize"] = max(1, min(1000, base + R.choice([-1, 0, 0, 1])))
    elif e == 13:
        s["wtype"] = 1
        s["wsize"] = -1
    elif e == 14:
        l = s["layout"]
        op = R.randrange(4)
        if op == 0 and l:
            del l[R.randrange(len(l))]
        elif op == 1:
            l.insert(R.randint(0, len(l)), R.choice([0, 1, 2, 3, 4, 5, 8, 77]))
        elif op == 2 and len(l) >= 2:
            i = R.randrange(len(l) - 1)
            l[i], l[i + 1] = l[i + 1], l[i]
        elif l:
            l[R.randrange(len(l))] = R.choice([0, 1, 2, 3, 4, 5, 8, 77])
    else:
        s["quirks"] ^= (1 << R.randrange(17)) | (1 << R.randrange(17))
    legal_quirks(s)
    if s["wtype"] == 1:
        s["wsize"] = -1
    if s["ttl"] - s.get("dist", 0) < 1:
        s["dist"] = 0
    return s


def rand_md(R):
    return R.choice([0, 1, 2, 34, 35, 35, 35, 36, 255, R.randrange(0, 256)])


# --------------------------------------------------------------------------- wire packets with known signature
from harness import wire as W  # noqa: E402


def rand_options(R, syn_type=True):
    """Well-formed option list [(kind, value)] and its hex encoding padded to 4 with NOPs or EOL."""
    r = R.random()
    if r < 0.6:
        opts = R.choice([
            [("mss", None)], [("mss", None), ("sok", None), ("ts", None), ("nop", None), ("ws", None)],
            [("mss", None), ("nop", None), ("ws", None), ("nop", None), ("nop", None), ("ts", None)],
            [("mss", None), ("nop", None), ("nop", None), ("sok", None)],
            [("mss", None), ("nop", None), ("ws", None), ("nop", None), ("nop", None), ("sok", None)],
            [("mss", None), ("nop", None), ("ws", None), ("sok", None), ("ts", None)],
            [], [("nop", None), ("nop", None), ("ts", None)], [("mss", None), ("ws", None), ("eol", None)],
            [("mss", None), ("sok", None), ("eol", None)]])
        opts = [list(o) for o in opts]
    else:
        opts = []
        for _ in range(R.randint(0, 6)):
            opts.append([R.choice(["nop", "mss", "ws", "sok", "ts", "sack", "unk", "nop"]), None])
    out, hexs, used = [], "", 0
    for k, _ in opts:
        if k == "eol":
            continue
        if k == "mss":
            v = R.choice([0, 1, 99, 100, 536, 1220, 1360, 1400, 1440, 1460, 8960, 65535, R.randrange(65536)])
            h = W.o_mss(v)
        elif k == "ws":
            v = R.choice([0, 1, 2, 6, 7, 8, 14, 15, 255])
            h = W.o_ws(v)
        elif k == "ts":
            v = (R.choice([0, 1, R.randrange(2 ** 32), 2 ** 32 - 1]), R.choice([0, 0, 0, 1, R.randrange(2 ** 32)]))
            h = W.o_ts(*v)
        elif k == "sok":
            v, h = None, W.o_sok()
        elif k == "nop":
            v, h = None, W.o_nop()
        elif k == "sack":
            v = R.choice([1, 2, 3, 4])
            h = W.o_sack(v)
        else:
            v = (R.choice([6, 7, 9, 19, 30, 34, 254, 255]), R.choice([2, 3, 4, 6]))
            h = W.o_unk(*v)
        if used + len(h) // 2 > 40:
            break
        used += len(h) // 2
        hexs += h
        out.append((k, v))
    eol = None
    want_eol = any(k == "eol" for k, _ in opts) or R.random() < 0.15
    if want_eol and used < 40:
        padn = (-(used + 1)) % 4
        extra = R.choice([0, 0, 4]) if used + 1 + padn + 4 <= 40 else 0
        nz = R.random() < 0.15 and padn + extra > 0
        fill = ("00" * (padn + extra)) if not nz else ("00" * (padn + extra - 1) + "5a")
        hexs += "00" + fill
        eol = (padn + extra, nz)
    else:
        hexs = W.pad4(hexs, "01")
        out += [("nop", None)] * ((len(hexs) // 2) - used)
    return out, hexs, eol


KIND = {"eol": 0, "nop": 1, "mss": 2, "ws": 3, "sok": 4, "sack": 5, "ts": 8}


def rand_wire_pkt(R, flags=None):
    """Returns (spec for wire.build, expected packet-signature dict, masked type)."""
    v = R.choice([4, 4, 6])
    fl = flags if flags is not None else R.choice([2, 2, 0x12, 0x12])
    extra = R.choice([0, 0, 0, 0x08, 0x20, 0x40, 0xC0, 0x100])
    fl |= extra
    ty = fl & 0x17
    opts, ohex, eol = rand_options(R, ty == 2)
    # IPv4 options: NOPs, and multi-byte ones (Router Alert, Record Route, Timestamp) -- one option is not one byte
    ipopts = R.choice(["01" * 4, "01" * 8, "94040000", "0707040000000000", "94040000" + "01010101", "440c0500" + "00" * 8, "8307040a00000100"]) \
        if v == 4 and R.random() < 0.12 else ""
    spec = {"v": v, "ttl": R.choice([0, 1, 31, 32, 33, 53, 60, 63, 64, 65, 127, 128, 129, 200, 254, 255, R.randrange(256)]),
            "tos": R.choice([0, 0, 0, 1, 2, 3, 0x10, 0xFC]), "id": R.choice([0, 0, 1, R.randrange(65536)]),
            "df": R.random() < 0.6, "evil": R.random() < 0.05, "ipopts": ipopts,
            "fl": R.choice([0, 0, 1, R.randrange(2 ** 20)]),
            "seq": R.choice([0, 1, R.randrange(2 ** 32)]),
            "ack": (R.choice([0, 1, R.randrange(2 ** 32)]) if (fl & 0x10) else R.choice([0, 0, 0, 0, 5])),
            "flags": fl, "win": 0, "urg": R.choice([0, 0, 0, 0, 7]), "opts": ohex,
            "payload": R.choice(["", "", "", "41", "474554202f"]),
            "trailer": R.choice([""] * 6 + ["00", "000000000000", "aabb", "474554", bytes(R.randrange(256) for _ in range(R.randint(1, 18))).hex()])}
    if R.random() < 0.15:
        spec["link"] = R.choice(["ether", "ether", "dot1q", "sll", "tunnel"])      # as sniffed: inside a link-layer frame / an IPv4 tunnel
    if R.random() < 0.05:
        # a payload Scapy dissects as a layer of its own (DNS over TCP, with scapy.layers.dns loaded), not as Raw
        spec["dport"] = 53
        spec["payload"] = "0015000001000001000000000000016101620000010001"
    q = 0
    if spec["tos"] & 3:
        q |= 1
    if v == 4:
        if spec["evil"]:
            q |= 1 << 4
        if spec["df"]:
            q |= 1 << 1
            if spec["id"]:
                q |= 1 << 2
        elif not spec["id"]:
            q |= 1 << 3
    elif spec["fl"]:
        q |= 1 << 5
    if fl & 0x1C0:
        q |= 1
    if not spec["seq"]:
        q |= 1 << 6
    if fl & 0x10:
        if not spec["ack"]:
            q |= 1 << 8
    elif spec["ack"] and not fl & 4:
        q |= 1 << 7
    if fl & 0x20:
        q |= 1 << 10
    elif spec["urg"]:
        q |= 1 << 9
    if fl & 8:
        q |= 1 << 11
    mss = ws = ts1 = 0
    layout = []
    for k, val in opts:
        if k == "unk":
            layout.append(val[0])
            continue
        layout.append(KIND[k])
        if k == "mss":
            mss = val
        elif k == "ws":
            ws = val
            if ws > 14:
                q |= 1 << 15
            else:
                q &= ~(1 << 15) | (q & (1 << 15))
        elif k == "ts":
            ts1 = val[0]
            if not ts1:
                q |= 1 << 12
            if val[1] and ty == 2:
                q |= 1 << 13
    eolpad = 0
    if eol is not None:
        layout.append(0)
        eolpad = eol[0]
        if eol[1]:
            q |= 1 << 14
    hdr = (20 + len(ipopts) // 2 if v == 4 else 40) + 20 + len(ohex) // 2
    p = {"ver": v, "olen": len(ipopts) // 2, "ttl": spec["ttl"], "win": 0, "layout": layout, "mss": mss, "ws": ws, "ts1": ts1,
         "eol": eolpad, "hdr": hdr, "pay": bool(spec["payload"]), "quirks": q, "syn_mss": 0}
    return spec, p, ty


def aim_window(R, p):
    cands = [p["mss"], p["mss"] - 12, 1460, 1448, 1440, 1428, p["mss"] + 40, p["mss"] + p["hdr"], p["mss"] + 60, 1500, p["syn_mss"], p["syn_mss"] - 12]
    d = abs(R.choice(cands))
    k = R.choice([1, 2, 3, 4, 5, 10, 20, 44])
    win = R.choice([0, R.randrange(65536), d * k, d * k, d * k, 8192, 65535, 5840, 14600, 29200])
    return win if 0 <= win <= 65535 else R.randrange(65536)


# --------------------------------------------------------------------------- Coq literals (in-Coq cross-check of extraction)
def coq_z(v):
    return "(%d)" % v


def coq_zlist(l):
    return "[" + "; ".join(coq_z(x) for x in l) + "]"


def coq_pkt(p):
    return ("{| p_ver := %d; p_olen := %d; p_ttl := %d; p_win := %d; p_layout := %s; p_mss := %d; p_ws := %d; p_ts1 := %d; p_eol_pad := %d; "
            "p_hdrlen := %d; p_payload := %s; p_quirks := %d%%N; p_syn_mss := %d |}") % (
        p["ver"], p["olen"], p["ttl"], p["win"], coq_zlist(p["layout"]), p["mss"], p["ws"], p["ts1"], p["eol"], p["hdr"],
        "true" if p["pay"] else "false", p["quirks"], p["syn_mss"])


def coq_sig(s):
    eol = s["eol"] if 0 in s["layout"] else 0
    return ("{| s_ver := %s; s_olen := %d; s_ttl := %d; s_bad_ttl := %s; s_wtype := %s; s_wsize := %s; s_wscale := %s; s_layout := %s; "
            "s_mss := %s; s_eol_pad := %d; s_pay := %s; s_quirks := %d%%N |}") % (
        coq_z(s["ver"]), s["olen"], s["ttl"], "true" if s["bad_ttl"] else "false", ["WNormal", "WAny", "WMod", "WMss", "WMtu"][s["wtype"]],
        coq_z(s["wsize"]), coq_z(s["wscale"]), coq_zlist(s["layout"]), coq_z(s["mss"]), eol, coq_z(s["pay"]), s["quirks"])


def coq_wm(w):
    return "(%s, %s)" % (coq_z(w[0]), "true" if w[1] else "false")
