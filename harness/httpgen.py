"""Generators of HTTP/1.x payloads and HTTP signature databases (C04, C06, C07)."""
NAMES = ["Host", "User-Agent", "Accept", "Accept-Encoding", "Accept-Language", "Connection", "Keep-Alive", "Server", "Date",
         "Content-Type", "Content-Length", "Via", "X-Tag", "Cookie", "X-Zone-Id", "Authorization"]      # (incl. names with every "edge" letter: a, z, A, Z)
VALUES = ["example.com", "Mozilla/5.0 (X11; Linux) Firefox/10.0", "curl/7.81", "*/*", "gzip, deflate", "keep-alive", "close", "", "x", "a:b",
          "text/html", "0", "Apache/2.2", "nginx/1.2", "en-US,en;q=0.5", "MSIE 8.0", " padded ", "a  b",
          "text/html ;q=0.9", "CURL/7.81", "Tue, 01 Mar 2011 20:45:16 +99999999999999", "Tue, 01 Mar 20111111111 20:45:16 GMT", "Tue, 01 Mar 2011 20:45:16 GMT", "apache/2.2", "mozilla/5.0 firefox/10.0", "Mozilla/5.0 (KHTML, like Gecko) HeadlessChrome/41", "Mozilla/5.0 (KHTML, like Gecko) Chrome/41 Safari", "x ;y"]


def case_variant(R, name):
    if not name.isascii():
        # only ASCII letters fold: a non-ASCII name keeps its other characters exactly as written
        return "".join((c.upper() if R.random() < 0.5 else c.lower()) if c.isascii() and R.random() < 0.3 else c for c in name)
    r = R.random()
    if r < 0.6:
        return name
    if r < 0.8:
        return name.lower()
    if r < 0.9:
        return name.upper()
    return "".join(c.upper() if R.random() < 0.5 else c.lower() for c in name)


def rand_headers(R, pool=None):
    pool = pool or NAMES
    hs = []
    for _ in range(R.randint(0, 8)):
        hs.append([case_variant(R, R.choice(pool)), R.choice(VALUES)])
    return hs


NONASCII_NAMES = ["\u00dc-Tag", "\u00fc-tag", "X-\u212aelvin", "x-kelvin"]


def render(R, direction, minor, headers, body=b"", fold=True, eol_choice=None):
    """Message bytes and the header list a faithful reader must return (names as sent, values stripped, folds appended)."""
    def eol():
        if eol_choice is not None:
            return eol_choice
        return R.choice([b"\r\n", b"\r\n", b"\n"])
    if direction == "request":
        first = b"%s %s HTTP/1.%d" % (R.choice([b"GET", b"HEAD"]), R.choice([b"/", b"/index.html?a=b%20c", b"*", b"/x"]), minor)
        if R.random() < 0.2:
            first = first.replace(b" ", R.choice([b"  ", b"\t", b" \t "]), 1)
    else:
        first = b"HTTP/1.%d %s" % (minor, R.choice([b"200 OK", b"404 Not Found", b"304", b"200  OK  "]))
    out = first + eol()
    expect = []
    for name, value in headers:
        pre = R.choice(["", " ", "  ", "\t"])
        post = R.choice(["", " ", "\t "])
        gap = R.choice([""] * 30 + [" ", "\t", "  "])      # blanks between the name and the colon belong to the NAME as sent
        name = name + gap
        line = name.encode() + b":" + pre.encode() + value.encode() + post.encode()
        out += line + eol()
        val = value.strip(" \t\r\n\x0b\x0c").encode()
        if fold and R.random() < 0.15:
            for _ in range(R.randint(1, 3)):
                cont = R.choice([b"second part", b"x", b"more  ", b"a:b"])
                out += R.choice([b" ", b"\t", b"   "]) + cont + eol()
                val = val + b"\r\n " + cont.strip()
        expect.append([name.encode().hex(), val.hex()])
    out += eol() + body
    return out, expect


def rand_http_sig(R, headers=None):
    """Signature text; when `headers` is given it is derived from that message so that it often matches."""
    ver = R.choice(["0", "1", "*", "*"] * 60 + [""])      # (an EMPTY version field is no wildcard: the file is refused)
    items = []
    if headers:
        keep = [h for h in headers if R.random() < 0.7]
        seen = set()
        for name, value in keep:
            if name.lower() in seen and R.random() < 0.7:
                continue
            seen.add(name.lower())
            n = case_variant(R, name)
            r = R.random()
            v = value.strip()
            if r < 0.5 or not v or "]" in v or "[" in v:
                items.append(n)
            else:
                a = R.randrange(len(v))
                b = R.randint(a + 1, len(v))
                items.append("%s=[%s]" % (n, v[a:b]))
        for _ in range(R.choice([0, 0, 1, 2])):
            items.insert(R.randint(0, len(items)), "?" + R.choice(NAMES))
        if R.random() < 0.2 and len(items) >= 2:
            i = R.randrange(len(items) - 1)
            items[i], items[i + 1] = items[i + 1], items[i]
        if R.random() < 0.15:
            items.insert(R.randint(0, len(items)), R.choice(NAMES) + R.choice(["", "=[zz]"]))
    else:
        for _ in range(R.randint(0, 5)):
            n = ("?" if R.random() < 0.3 else "") + R.choice(NAMES)
            items.append(n + (("=[%s]" % R.choice(["keep", "e", "Mozilla", ",", "a,b"])) if R.random() < 0.3 else ""))
    present = {h[0].lower() for h in headers} if headers else set()
    cand = [n for n in NAMES if n.lower() not in present] if R.random() < 0.8 else NAMES
    exotic = [h[0] for h in headers if not h[0].isascii()] if headers else []
    absent = ",".join([case_variant(R, x) for x in R.sample(cand, min(len(cand), R.choice([0, 0, 1, 2])))] +
                      ([R.choice(["\u00dc-Tag", "X-\u212aelvin", "\u0130d", "x-\u00e9t\u00c9"])] if R.random() < 0.1 else []) +
                      ([case_variant(R, R.choice(exotic))] if exotic and R.random() < 0.5 else []))
    sw = R.choice(["", "", "Firefox/", "curl", "Apache", "MSIE", "nginx", " Chrom", " Chrom", "Chrom", " Safari", "E 8", " ;y"])
    return ":".join([ver, ",".join(items), absent, sw])


WEIRD_LINES = [b"", b"\r", b"\r\r", b"\r\r\r", b" ", b"\t", b" \r", b"\r ", b":", b" :", b": ", b":\r", b"a", b"a\r", b"a:", b"a:\r", b"a:\r\r", b"a :b", b"a: b\r",
               b"\x00", b"\x0b", b"\x0c", b"\x0b:", b" a: b", b"\ta: b", b"a:b:c", b"\xff: v", b"a: \xff", b"A" * 70 + b": v", b"a: " + b"v" * 300, b"::", b": :",
               b"\r:", b"\r a: b", b"a\r: b", b"a: b\r\rc"]


def line_shapes():
    """Complete messages in which ONE line (first line, first / middle / last header) is a pathological line, for both line ends."""
    for w in WEIRD_LINES:
        for eol in (b"\r\n", b"\n"):
            for first in (b"GET / HTTP/1.1", b"HTTP/1.1 200 OK"):
                hs = [b"Host: a", b"Accept: */*", b"Connection: close"]
                yield w + eol + eol.join(hs) + eol + eol
                for pos in (0, 1, 3):
                    l = hs[:pos] + [w] + hs[pos:]
                    yield first + eol + eol.join(l) + eol + eol
                yield first + eol + w + eol + eol
