"""Shared machinery of the pyp0f checks.

One check = (1) build the Coq development and re-check the property's theorem file,
(2) run the executable model (extracted to OCaml) and the real pyp0f from /repo's working
tree on the same generated cases, (3) judge every disagreement against the property,
(4) report and write evidence.  See DESIGN.md sections 1-2.
"""
import fcntl
import hashlib
import importlib
import json
import os
import random
import re
import shutil
import subprocess
import sys
import tempfile
import threading
import time
from pathlib import Path

VERIF = Path(__file__).resolve().parent.parent
REPO = Path(os.environ.get("PYP0F_REPO", "/repo"))
COQ = VERIF / "coq"
OCAML = VERIF / "ocaml"
WORK = VERIF / "work"
PY = os.environ.get("PYP0F_PYTHON", "/venv/bin/python")
NPROC = int(os.environ.get("VERIF_JOBS", str(min(16, os.cpu_count() or 4))))

ALLOWED_AXIOMS = {
    # none needed so far; stdlib axioms would have to be listed in DESIGN.md first
}


def log(*a):
    print(*a, file=sys.stderr, flush=True)


def sh(cmd, timeout, cwd=None, env=None):
    try:
        p = subprocess.run(cmd, shell=True, cwd=cwd, env=env, capture_output=True, text=True,
                           timeout=timeout)
        return p.returncode, p.stdout + p.stderr
    except subprocess.TimeoutExpired as e:
        return 124, "TIMEOUT after %ss: %s\n%s" % (timeout, cmd, (e.stdout or b"").decode("utf8", "replace") if isinstance(e.stdout, bytes) else (e.stdout or ""))


# --------------------------------------------------------------------------- build

def build():
    """Full .vo build of the Coq development and of the extracted driver."""
    t0 = time.time()
    if not (COQ / "Makefile").exists() or (COQ / "Makefile").stat().st_mtime < (COQ / "_CoqProject").stat().st_mtime:
        rc, out = sh("coq_makefile -f _CoqProject -o Makefile", 60, cwd=COQ)
        if rc:
            return False, out
    rc, out = sh("timeout 3000 make -j%d" % NPROC, 3100, cwd=COQ)
    if rc:
        return False, out
    rc, out2 = sh("timeout 600 make", 700, cwd=OCAML)
    return rc == 0, out + out2 + "\n[build %.1fs]" % (time.time() - t0)


FORBIDDEN = re.compile(r"\b(Admitted|admit|Axiom|Axioms|Parameter|Parameters|Conjecture|Hypothesis|Variable|"
                       r"Unset\s+Guard|bypass_check|Admit\s+Obligations|type-in-type|Unset\s+Universe\s+Checking|"
                       r"Unset\s+Positivity)\b")


def hygiene():
    """No Admitted/Axiom/... anywhere in the development.  Variable / Hypothesis declare an axiom only OUTSIDE a section: inside a `Section X. ... End X.`
    block they are ordinary abstraction (discharged at `End`) and are allowed there (coq/Gen/GenReLib.v uses two); everything else is forbidden everywhere."""
    bad = []
    for f in sorted(COQ.rglob("*.v")):
        txt = re.sub(r"\(\*.*?\*\)", "", f.read_text(), flags=re.S)
        open_sections = []
        for i, line in enumerate(txt.split("\n"), 1):
            ms = re.match(r"\s*Section\s+(\w+)\s*\.", line)
            if ms:
                open_sections.append(ms.group(1))
            me = re.match(r"\s*End\s+(\w+)\s*\.", line)
            if me and open_sections and open_sections[-1] == me.group(1):
                open_sections.pop()
            mf = FORBIDDEN.search(line)
            if mf and not (open_sections and mf.group(1) in ("Variable", "Hypothesis") and not FORBIDDEN.search(line.replace(mf.group(1), "", 1))):
                bad.append("%s:%d: %s" % (f.relative_to(VERIF), i, line.strip()))
    return bad


def prove(prop):
    """Re-check Properties/<prop>.v from scratch and read Print Assumptions."""
    src = COQ / "Properties" / (prop + ".v")
    info = {"file": str(src.relative_to(VERIF)), "ok": False, "obligations": 0, "discharged": 0,
            "axioms": [], "theorems": [], "log": ""}
    if not src.exists():
        info["log"] = "missing " + str(src)
        return info
    text = re.sub(r"\(\*.*?\*\)", "", src.read_text(), flags=re.S)
    thms = re.findall(r"^\s*(?:Theorem|Example|Lemma|Corollary)\s+(\w+)", text, flags=re.M)
    info["theorems"] = thms
    info["obligations"] = len(thms)
    for ext in (".vo", ".vok", ".vos", ".glob"):
        p = src.with_suffix(ext)
        if p.exists():
            p.unlink()
    cmd = "timeout 900 coqc -Q . PV Properties/%s.v" % prop
    info["checker_cmd"] = "make -C coq (full .vo build) && cd coq && " + cmd
    rc, out = sh(cmd, 1000, cwd=COQ)
    info["log"] = out[-4000:]
    if rc != 0:
        m = re.search(r"line (\d+)", out)
        if m:
            ln = int(m.group(1))
            before = "\n".join(src.read_text().split("\n")[:ln])
            done = re.findall(r"^\s*(?:Theorem|Example|Lemma|Corollary)\s+(\w+)", re.sub(r"\(\*.*?\*\)", "", before, flags=re.S), flags=re.M)
            info["broken"] = done[-1] if done else "?"
            info["discharged"] = max(0, len(done) - 1)
        else:
            info["broken"] = "build of " + info["file"]
        return info
    closed = out.count("Closed under the global context")
    axioms = []
    for blk in re.findall(r"Axioms:\n((?:.+\n?)+?)(?=\n\S|\Z)", out):
        for l in blk.split("\n"):
            m = re.match(r"^(\S+)\s*:", l)
            if m:
                axioms.append(m.group(1))
    info["axioms"] = sorted(set(axioms))
    info["print_assumptions"] = {"closed": closed, "with_axioms": out.count("Axioms:")}
    bad = [a for a in info["axioms"] if a not in ALLOWED_AXIOMS]
    if bad:
        info["broken"] = "axioms not in the allowed list: " + ", ".join(bad)
        return info
    info["discharged"] = len(thms)
    info["ok"] = True
    return info


GEN_GROUPS = {   # group -> (groups it builds on, proof files, theorems whose `Print Assumptions` must report "Closed under the global context")
    "match": ([], ["GenP_match.v"], ["gen_divisors_eq", "gen_win_multi_eq", "gen_tcp_signatures_match_eq"]),
    "uptime": ([], ["GenP_uptime.v", "GenUptC.v"], ["gen_round_frequency_eq", "gen_should_fingerprint_eq", "gen_valid_for_uptime_fingerprint_eq", "gen_uptime_post_init_eq",
                                                    "gen_fingerprint_uptime_eq", "gen_fingerprint_uptime_eq_sane", "C13_translated_gate", "C13_translated_fields",
                                                    "C13_translated_fields_obj", "C13_translated_packet_gate", "C13_translated_packet_gate_any_options"]),
    "select": (["match"], ["GenP_select.v"], ["gen_guess_distance_eq", "gen_should_fingerprint_eq", "gen_valid_for_tcp_fingerprint_eq", "gen_find_tcp_match_eq", "gen_distance_eq", "gen_fingerprint_tcp_eq"]),
    "mtu": ([], ["GenP_mtu.v"], ["gen_should_fingerprint_eq", "gen_valid_for_mtu_fingerprint_eq", "gen_mtu_from_mss_eq", "gen_mtu_from_mss_reject", "gen_mtu_signatures_match_eq",
                                 "gen_find_mtu_match_eq", "gen_impersonate_mtu_eq", "C08_translated_roundtrip", "C08_translated_untouched", "gen_fingerprint_mtu_eq"]),
    "options": ([], ["GenOptP.v"], ["gen_parse_options_eq", "gen_parse_options_terminates"]),
    "layers": (["options", "uptime"], ["GenP_layers.v", "GenLayC.v"],
               ["gen_from_ipv4_eq", "fields_ip4_unframed", "gen_from_ipv6_eq", "fields_ip6_unframed", "gen_IP_from_packet_v4", "gen_IP_from_packet_v6", "gen_IP_from_packet_none",
                "gen_TCP_from_packet_eq", "gen_TCP_from_packet_none", "fields_tcp_unframed", "fields_tcp_flags", "gen_sig_from_packet_eq", "gen_extract_eq", "gen_extract_sig_eq",
                "gen_extract_ok", "C03_translated_fields4", "C03_translated_fields6", "C03_translated_tcp", "C03_translated_packet4", "C03_translated_packet6", "C03_translated_sig_of",
                "C03_translated_trailer_ignored", "C03_translated_parse_packet", "C03_translated_should_fingerprint"]),
    "api": (["layers", "select", "mtu", "http"], ["GenApiC.v"],
            ["gen_api_fp_tcp_eq", "gen_api_fp_mtu_eq", "gen_api_fp_http_eq", "gen_exec_eq", "gen_run_ops_eq", "C16_translated_history", "C16_translated_repeat"]),
    "http": ([], ["GenP_http.v", "GenHdrP.v"], ["gen_find_http_match_eq", "gen_software_eq", "gen_dishonest_eq", "gen_headers_match_eq", "gen_http_signatures_match_eq", "gen_rec_matches_eq", "gen_fingerprint_http_eq"]),
}
FORCE_TIE = [False]     # thorough tier: recompile every tie (no cache), so that coqchk sees the .vo files of this very translation
GEN_PRELIB = {"layers": ["GenLayLib.v"]}      # hand-written libraries a group's generated file imports (compiled before it, part of its hash)
GEN_NEEDS = {"layers": ["Properties/C03.v"]}      # files outside _CoqProject (property files are compiled per check) that a group's proofs import
GEN_EXTRA_TRANSLATOR = {"layers": "lay2coq.py"}   # groups written by a translator of their own (built on py2coq as a library)
GEN_MODEL_FILES = ["Model/Prelude.v", "Model/Bits.v", "Model/Sig.v", "Model/Matcher.v", "Model/Select.v", "Model/Uptime.v", "Model/Mtu.v", "Model/Options.v", "Model/Text.v",
                   "Model/SigParse.v", "Model/DbParse.v", "Model/HttpRead.v", "Model/HttpMatch.v", "Proofs/BitsP.v", "Proofs/OptionsP.v", "Proofs/MtuP.v", "Proofs/UptimeP.v", "Model/Wire.v", "Spec/C03.v", "Proofs/WireP.v",
                   "Proofs/ExtractP.v", "Proofs/TrimP.v", "Properties/C03.v", "Model/Api.v", "Model/DbState.v", "Proofs/ApiP.v", "Gen/GenLib.v"]


def gen_tie(groups=None):
    """Regenerate Gallina from /repo's current source (translate/py2coq.py, one file per group of functions) and re-check that each
    requested group equals the hand-written models (coq/Gen/GenP_<group>.v ...).  A group's result is cached on the generated
    text itself plus the proof and model files; failures are recomputed on every run."""
    groups = list(groups or GEN_GROUPS)
    order = []

    def visit(g):
        for d in GEN_GROUPS[g][0]:
            visit(d)
        if g not in order:
            order.append(g)
    for g in groups:
        visit(g)
    WORK.mkdir(exist_ok=True)
    (WORK / "gen_tie_cache").mkdir(exist_ok=True)
    lock = open(WORK / "gen_tie.lock", "w")
    fcntl.flock(lock, fcntl.LOCK_EX)          # concurrent checks share coq/Gen: one translation + compile at a time
    res = {"ok": True, "obligations": 0, "discharged": 0, "theorems": [], "detail": "", "groups": {}}
    try:
        rc, out = sh("%s %s %s %s" % (PY, VERIF / "translate" / "py2coq.py", REPO, COQ / "Gen"), 120)
        m = re.search(r"^STATUS (\{.*\})$", out, flags=re.M)
        status = json.loads(m.group(1)) if (rc == 0 and m) else {}
        for g in order:
            if g in GEN_EXTRA_TRANSLATOR:
                rc, out = sh("%s %s %s %s" % (PY, VERIF / "translate" / GEN_EXTRA_TRANSLATOR[g], REPO, COQ / "Gen"), 120)
                m = re.search(r"^STATUS (\{.*\})$", out, flags=re.M)
                status.update(json.loads(m.group(1)) if (rc == 0 and m) else {g: "translator failed: " + out.strip()[-300:]})
        model_hash = hashlib.sha1()
        for f in GEN_MODEL_FILES + ["../translate/py2coq.py"] + ["../translate/" + t for t in GEN_EXTRA_TRANSLATOR.values()] + ["Gen/" + x for v in GEN_PRELIB.values() for x in v]:
            q = COQ / f
            model_hash.update(q.read_bytes() if q.exists() else b"<missing>")
        done = {}
        for g in order:
            deps, proofs, thms = GEN_GROUPS[g]
            r = {"ok": False, "detail": ""}
            res["obligations"] += len(thms)
            res["theorems"] += ["%s:%s" % (proofs[0], t) for t in thms]
            st = status.get(g, "translator failed: " + out.strip()[-300:])
            if st != "ok":
                r["detail"] = "translator (group %s): %s" % (g, st)
            elif any(not done[d]["ok"] for d in deps):
                r["detail"] = "group %s builds on group %s, whose equivalence no longer checks" % (g, [d for d in deps if not done[d]["ok"]][0])
            else:
                closure = []

                def close(x):
                    for y in GEN_GROUPS[x][0]:
                        close(y)
                        if y not in closure:
                            closure.append(y)
                close(g)
                h = hashlib.sha1(model_hash.digest())
                for d in closure + [g]:
                    h.update((COQ / "Gen" / ("Generated_%s.v" % d)).read_bytes())
                    for pf in GEN_GROUPS[d][1]:
                        h.update((COQ / "Gen" / pf).read_bytes())
                cache = WORK / "gen_tie_cache" / ("%s-%s.json" % (g, h.hexdigest()))
                if cache.exists() and not FORCE_TIE[0]:
                    r = json.load(open(cache))
                else:
                    cmds = ["timeout 300 coqc -Q . PV Gen/GenLib.v"] if not (COQ / "Gen" / "GenLib.vo").exists() or \
                        (COQ / "Gen" / "GenLib.vo").stat().st_mtime < (COQ / "Gen" / "GenLib.v").stat().st_mtime else []
                    for d in closure + [g]:
                        cmds += ["timeout 900 coqc -Q . PV %s" % x for x in GEN_NEEDS.get(d, []) if not (COQ / x).with_suffix(".vo").exists()
                                 or (COQ / x).with_suffix(".vo").stat().st_mtime < (COQ / x).stat().st_mtime]
                    for d in closure:      # everything it builds on (transitively) must be compiled from THIS translation
                        cmds += ["timeout 600 coqc -Q . PV Gen/%s" % x for x in GEN_PRELIB.get(d, [])]
                        cmds.append("timeout 600 coqc -Q . PV Gen/Generated_%s.v" % d)
                        cmds += ["timeout 900 coqc -Q . PV Gen/%s" % pf for pf in GEN_GROUPS[d][1]]
                    cmds += ["timeout 600 coqc -Q . PV Gen/%s" % x for x in GEN_PRELIB.get(g, [])]
                    cmds.append("timeout 600 coqc -Q . PV Gen/Generated_%s.v" % g)
                    rc2, out2 = sh(" && ".join(cmds), 3000, cwd=COQ)
                    closed = 0
                    if rc2 == 0:
                        rc2, out2 = sh(" && ".join("timeout 900 coqc -Q . PV Gen/%s" % pf for pf in proofs), 3000, cwd=COQ)
                        closed = out2.count("Closed under the global context")
                    if rc2 == 0 and closed == len(thms):
                        r = {"ok": True, "detail": ""}
                        json.dump(r, open(cache, "w"))
                    else:
                        r["detail"] = "Gen/%s no longer checks (the definition generated from the source differs from the model): %s" % (proofs[0], out2.strip()[-500:])
            done[g] = r
            res["groups"][g] = r
            if r["ok"]:
                res["discharged"] += len(thms)
            elif res["ok"]:
                res["ok"] = False
                res["detail"] = r["detail"]
    finally:
        lock.close()
    return res


IMP_SOURCES = ["pyp0f/impersonate/tcp.py", "pyp0f/impersonate/utils.py", "pyp0f/net/layers/tcp/flags.py", "pyp0f/net/layers/tcp/options.py", "pyp0f/net/quirks.py",
               "pyp0f/database/signatures/tcp.py", "pyp0f/database/parse/wildcard.py", "pyp0f/net/layers/ip.py"]
IMP_THEOREMS = ["gen_impersonate_ip_eq", "gen_impersonate_options_eq", "gen_impersonate_window_eq", "gen_impersonate_payload_eq", "gen_impersonate_eq",
                "gen_select_signature_given", "gen_select_signature_label", "gen_select_signature_neither", "parsed_wsize_ok", "C05_translated_code_sound", "C05_translated_code_no_raise", "C14_translated_options"]


SIG_THEOREMS = ["gen_is_wildcard_eq", "gen_parse_number_in_range_eq", "gen_parse_from_options_eq", "gen_split_parts_eq", "gen_parse_ttl_eq", "gen_parse_window_eq",
                "gen_parse_options_eq", "gen_parse_quirks_eq", "gen_TCPSignature_parse_eq", "gen_MTUSignature_parse_eq", "gen_TCPOptions_dump_eq", "gen_dump_quirks_eq",
                "C10_translated_tcp_ranges", "C09_translated_sig_roundtrip", "C18_translated_layout", "C18_translated_quirks", "C10_translated_mtu_range"]


def gen_tie_single(tag, translator, generated, proofs, theorems, model_files, pre=(), lib=()):
    """One translator -> one generated file -> proof files.  Cached on the generated text, the proof files and the model files;
    failures are recomputed on every run; the compile step is serialised by a lock.
    pre = [(translator, generated file, proof file)...]: translations this one builds on; they are regenerated from the SAME source
    under the same lock and compiled first (their own theorems are counted by their own tie)."""
    WORK.mkdir(exist_ok=True)
    (WORK / "gen_tie_cache").mkdir(exist_ok=True)
    res = {"ok": False, "obligations": len(theorems), "discharged": 0, "theorems": theorems, "detail": ""}
    lock = open(WORK / "gen_tie.lock", "w")
    fcntl.flock(lock, fcntl.LOCK_EX)
    try:
        for ptr, pgen, _ in pre:
            rc, out = sh("%s %s %s %s" % (PY, VERIF / "translate" / ptr, REPO, COQ / "Gen" / pgen), 120)
            if rc != 0:
                res["detail"] = "builds on translate/%s, which refuses the source: %s" % (ptr, out.strip()[-300:])
                return res
        rc, out = sh("%s %s %s %s" % (PY, VERIF / "translate" / translator, REPO, COQ / "Gen" / generated), 120)
        if rc != 0:
            res["detail"] = "translator: " + out.strip()[-400:]
            return res
        h = hashlib.sha1()
        for f in [COQ / "Gen" / generated] + [COQ / "Gen" / pf for pf in list(lib) + list(proofs)] + [COQ / f for f in model_files] + [VERIF / "translate" / translator] \
                + [COQ / "Gen" / x for _, pgen, ppf in pre for x in (pgen, ppf)] + [VERIF / "translate" / ptr for ptr, _, _ in pre]:
            h.update(f.read_bytes() if f.exists() else b"<missing>")
        cache = WORK / "gen_tie_cache" / ("%s-%s.json" % (tag, h.hexdigest()))
        if cache.exists() and not FORCE_TIE[0]:
            return json.load(open(cache))
        if pre:
            rc, out = sh(" && ".join("timeout 1200 coqc -Q . PV Gen/%s" % f for _, pgen, ppf in pre for f in (pgen, ppf)), 3900, cwd=COQ)
            if rc != 0:
                res["detail"] = "builds on Gen/%s, which no longer checks: %s" % (pre[0][2], out.strip()[-400:])
                return res
        rc, out = sh(" && ".join("timeout 1200 coqc -Q . PV Gen/%s" % f for f in list(lib) + [generated] + proofs), 3900, cwd=COQ)
        if rc == 0 and out.count("Closed under the global context") == len(theorems):
            res["ok"] = True
            res["discharged"] = len(theorems)
            json.dump(res, open(cache, "w"))
        else:
            res["detail"] = "Gen/%s no longer checks (the definition generated from the source differs from the model): %s" % (proofs[0], out.strip()[-600:])
        return res
    finally:
        lock.close()


def gen_tie_imp():
    """pyp0f/impersonate/tcp.py -> Gallina in the random-tape monad (translate/imp2coq.py), proved equal to the hand-written
    impersonation model (coq/Gen/GenImpP.v), corollaries in coq/Gen/GenImpC.v."""
    return gen_tie_single("imp", "imp2coq.py", "GeneratedImp.v", ["GenImpP.v", "GenImpC.v"], IMP_THEOREMS,
                          ["Model/Imperson.v", "Model/Sig.v", "Model/Bits.v", "Model/SigParse.v", "Model/Wire.v", "Model/Options.v", "Spec/C05.v", "Proofs/SigTextP.v",
                           "Proofs/ImpSoundP.v", "Proofs/SatCohP.v", "Proofs/DbParseP.v"])


def gen_tie_sig():
    """database/parse/utils.py, wildcard.py, signatures/tcp.py, signatures/mtu.py -> Gallina over text in the res monad
    (translate/sig2coq.py), proved equal to Model/SigParse.v (coq/Gen/GenSigP.v), corollaries in coq/Gen/GenSigC.v."""
    return gen_tie_single("sig", "sig2coq.py", "GeneratedSig.v", ["GenSigP.v", "GenSigC.v"], SIG_THEOREMS,
                          ["Model/Text.v", "Model/SigParse.v", "Model/Sig.v", "Model/Bits.v", "Model/Dump.v", "Model/Matcher.v", "Spec/C01.v", "Proofs/DbParseP.v", "Proofs/DumpP.v", "Proofs/SigTextP.v",
                           "Proofs/TextP.v", "Proofs/BitsP.v"])


FILE_THEOREMS = ["gen_Label_parse_eq", "gen_Label_dump_eq", "gen_dump_eq", "gen_parse_section_eq", "gen_parsing_error_wrapper_eq", "gen_db_create_sim", "gen_db_add_sim",
                 "gen_step_g_sim", "gen_step_eq_variant", "gen_step_leading_nl", "gen_step_g_unterminated", "gen_run_eq_variant", "gen_run_g_sim", "gen_run_file_lines_eq",
                 "gen_parse_text_eq", "C09_translated_file", "C09_translated_file_text", "C10_translated_file", "C10_translated_file_text", "C10_translated_file_line",
                 "C15_translated_file",
                 # the read side and load (Gen/GenDbP.v, Gen/GenDbC.v)
                 "gen_iter_values_all", "gen_iter_values_sim", "gen_get_random_all", "gen_get_random_eq", "gen_db_create_ok", "gen_db_add_ok", "gen_len_eq", "gen_step_g_db",
                 "gen_load_eq", "gen_load_text_eq", "gen_load_keeps_invariants", "C15_translated_sound", "C15_translated_complete", "C15_translated_none", "C15_translated_unloaded",
                 "C11_translated_failed_load_preserves", "C11_translated_failed_load_preserves_map", "C11_translated_no_accumulation", "C11_translated_no_accumulation_map",
                 "C11_translated_idempotent", "C11_translated_idempotent_map", "C11_translated_text", "C11_translated_len"]


def gen_tie_file():
    """database/parse/parser.py (the line loop of _parse_file as a step function, _parse_section), labels/*.py, records/*.py, records_database.py
    (create / add / _get / iter_values / get_random / __len__ / _replace over a dictionary model), database.py (Database.load) -> Gallina (translate/file2coq.py + db2coq.py), proved to simulate Model/DbParse.v's step / run / parse_text
    (coq/Gen/GenFileP.v), corollaries for C09 / C10 / C15 in coq/Gen/GenFileC.v.  Builds on the signature-text translation (sig2coq)."""
    return gen_tie_single("file", "file2coq.py", "GeneratedFile.v", ["GenFileP.v", "GenFileC.v", "GenDbP.v", "GenDbC.v"], FILE_THEOREMS,
                          ["Model/Text.v", "Model/SigParse.v", "Model/DbParse.v", "Model/Sig.v", "Model/Bits.v", "Model/Dump.v", "Spec/C01.v", "Spec/C09.v", "Proofs/DbParseP.v",
                           "Proofs/TextP.v", "Proofs/LabelsP.v", "Model/DbState.v", "Proofs/DbStateP.v", "../translate/db2coq.py", "../translate/sig2coq.py"],
                          pre=[("sig2coq.py", "GeneratedSig.v", "GenSigP.v")])


HTTPX_THEOREMS = ["gen_extract_minor_version_eq_variant", "gen_extract_minor_version_spec", "gen_read_first_line_core", "gen_read_first_line_agree", "gen_read_first_line_eq_variant",
                  "gen_read_first_line_ok", "gen_read_first_line_differs", "gen_read_headers_eq", "gen_read_payload_eq", "gen_HTTP_get_header_value_eq", "gen_HTTP_software_eq",
                  "gen_HTTP_from_buffer_eq", "gen_http_parse_version_eq", "gen_http_parse_headers_eq", "gen_HTTPSignature_parse_eq", "gen_HTTPSignature_header_names_occur",
                  "C07_translated_request_line", "C07_translated_status_line", "C07_translated_headers", "C07_translated_roundtrip", "C07_translated_reject_method",
                  "C07_translated_version_variant", "C07_translated_version_all", "C07_translated_reject_no_colon", "C07_translated_reject_empty_name",
                  "C07_translated_reject_no_colon_first", "C07_translated_reject_empty_name_first", "C07_translated_reject_orphan_continuation", "C07_translated_total",
                  "C07_translated_example", "C09_translated_http_sig_roundtrip", "C09_translated_http_sig_roundtrip_ascii"]


def gen_tie_httpx():
    """net/layers/http/read.py (first line, header lines with continuations, read_payload), header.py / http.py (lower_name, _get_header_value, software,
    from_buffer) and database/signatures/http.py (HTTPSignature.parse, _parse_headers, _parse_version, header_names) -> Gallina (translate/http2coq.py, on top of
    sig2coq), proved equal to Model/HttpRead.v / Model/SigParse.v (coq/Gen/GenHttpP.v), corollaries for C07 / C09 in coq/Gen/GenHttpC.v."""
    return gen_tie_single("httpx", "http2coq.py", "GeneratedHttp.v", ["GenHttpP.v", "GenHttpC.v"], HTTPX_THEOREMS,
                          ["Model/Text.v", "Model/SigParse.v", "Model/DbParse.v", "Model/HttpRead.v", "Model/HttpMatch.v", "Model/Dump.v", "Spec/C07.v", "Proofs/TextP.v",
                           "Proofs/HttpReadP.v", "Proofs/HttpSigP.v", "../translate/sig2coq.py"],
                          pre=[("sig2coq.py", "GeneratedSig.v", "GenSigP.v")])


H11_THEOREMS = ["gen_copy_buffer_fresh", "gen_rb_iadd_spec", "gen_rb_extract_spec", "gen_h11_full_from", "gen_h11_full", "gen_h11_extract_lines_eq", "gen_h11_lines_eq",
                "gen_h11_assert_unreachable", "gen_h11_consumed", "gen_h11_none_keeps_data", "C07_translated_read_payload_h11", "C07_translated_read_payload_h11_split",
                "C07_translated_total_h11"]


def gen_tie_h11():
    """h11's ReceiveBuffer (__init__, __iadd__, _extract, maybe_extract_lines) AS INSTALLED and pyp0f's copy_buffer -> Gallina over an explicit buffer state
    (translate/h112coq.py; the one regular expression b"\\n\\r?\\n" is read literally and bound to the hand-written find_blank_end of Gen/GenH11Lib.v), proved equal to the
    hand model's extract_lines for every byte string (coq/Gen/GenH11P.v), and composed with the translated read_payload of the http2coq tie."""
    return gen_tie_single("h11", "h112coq.py", "GeneratedH11.v", ["GenH11P.v"], H11_THEOREMS,
                          ["Model/Text.v", "Model/HttpRead.v", "Spec/C07.v", "Proofs/TextP.v", "Proofs/HttpReadP.v", "Model/SigParse.v", "../translate/sig2coq.py", "../translate/http2coq.py",
                           "Gen/GenSigP.v", "Gen/GenHttpP.v"],
                          pre=[("sig2coq.py", "GeneratedSig.v", "GenSigP.v"), ("http2coq.py", "GeneratedHttp.v", "GenHttpP.v")], lib=["GenH11Lib.v"])


RE_THEOREMS = ["gen_re_blank_eq", "gen_re_blank_end_unique", "gen_re_version_eq", "gen_re_version_match_unique", "gen_re_version_group_participates", "gen_re_header_eq",
               "gen_re_header_one_byte"]


def gen_tie_re():
    """The three regular expressions the code uses (read.py HTTP_VERSION_PATTERN, signatures/http.py _HEADER_PATTERN, h11's blank_line_regex) are read from the CURRENT sources,
    parsed by CPython's own re._parser and emitted as terms of a small generic regex AST (translate/re2coq.py -> Gen/GeneratedRe.v); coq/Gen/GenReP.v proves, against the generic
    relational semantics of Gen/GenReLib.v, that the hand recognisers the other ties bind them to (gen_re_http_version, hsplit, find_blank_end) are exactly what .match / .split /
    .search denote, and that the match is unique in each case."""
    return gen_tie_single("re", "re2coq.py", "GeneratedRe.v", ["GenReP.v"], RE_THEOREMS,
                          ["Model/Text.v", "Model/SigParse.v", "Proofs/HttpReadP.v", "../translate/sig2coq.py", "../translate/http2coq.py", "Gen/GenH11Lib.v"],
                          pre=[("sig2coq.py", "GeneratedSig.v", "GenSigP.v"), ("http2coq.py", "GeneratedHttp.v", "GenHttpP.v")], lib=["GenH11Lib.v", "GenReLib.v"])


EFF_THEOREMS = ["exec_call_frame", "gen_fingerprint_calls_write_nothing", "gen_fingerprint_calls_only_copy_their_input", "gen_http_buffer_only_converted_to_bytes",
                "gen_impersonate_tcp_writes_only_rng", "gen_impersonate_mtu_writes_only_its_packet_variant", "gen_impersonate_mtu_writes_only_its_packet",
                "gen_database_readers_write_nothing", "gen_database_load_writes_only_self", "gen_no_global_object_written", "gen_call_summary_total",
                "gen_only_param0_may_be_written", "gen_model_agrees", "C12_translated_frame", "C12_translated_fingerprint_and_impersonate_tcp"]


def gen_tie_eff():
    """ALL modules of pyp0f -> a may-write effect summary per public entry point (translate/eff2coq.py: a fail-closed, flow-insensitive, interprocedural
    analysis over the AST: which caller-owned objects - parameters and what is reachable from them, module-level objects - a call may WRITE, which
    of them it hands to library code, what its result may alias), emitted as Gallina data (Gen/GeneratedEff.v) and connected to the heap / frame
    model of C12 in coq/Gen/GenEffP.v (gen_model_agrees, C12_translated_frame)."""
    return gen_tie_single("eff", "eff2coq.py", "GeneratedEff.v", ["GenEffP.v"], EFF_THEOREMS, ["Model/Frame.v", "Proofs/FrameP.v"], lib=["GenEffLib.v"])


# --------------------------------------------------------------------------- model side

def run_model(lines):
    """Feed command lines to the extracted driver; returns parsed JSON per line."""
    if not lines:
        return []
    WORK.mkdir(exist_ok=True)
    p = subprocess.run(["bash", "-c", "ulimit -s unlimited 2>/dev/null; exec %s" % (OCAML / "driver")],
                       input="\n".join(lines) + "\n", capture_output=True, text=True, timeout=3600)
    outs = p.stdout.split("\n")
    if outs and outs[-1] == "":
        outs.pop()
    if len(outs) != len(lines):
        raise RuntimeError("model driver returned %d lines for %d cases (rc=%s) %s" % (len(outs), len(lines), p.returncode, p.stderr[-500:]))
    res = []
    for o in outs:
        try:
            res.append(json.loads(o))
        except Exception:
            res.append({"driver_error": o[:200]})
    return res


# --------------------------------------------------------------------------- implementation side

def impl_env():
    env = dict(os.environ)
    env["PYTHONPATH"] = str(REPO) + os.pathsep + str(VERIF)
    env["PYTHONHASHSEED"] = "0"
    env["PYP0F_VERIF"] = "1"
    env["PYTHONDONTWRITEBYTECODE"] = "1"
    return env


def run_impl(prop, cases, jobs=None, per_case_timeout=5):
    """Run harness.props.<prop>.impl on every case in worker processes that import pyp0f
    from /repo's working tree."""
    if not cases:
        return []
    jobs = max(1, min(jobs or NPROC, (len(cases) + 199) // 200))
    WORK.mkdir(exist_ok=True)
    tmp = Path(tempfile.mkdtemp(prefix="impl-", dir=WORK))
    per = (len(cases) + jobs - 1) // jobs
    chunks = [cases[i * per:(i + 1) * per] for i in range(jobs)]     # contiguous: history effects stay inside one worker
    procs = []
    for k, ch in enumerate(chunks):
        inp = tmp / ("in%d.jsonl" % k)
        with open(inp, "w") as f:
            for c in ch:
                f.write(json.dumps(c) + "\n")
        outp = tmp / ("out%d.jsonl" % k)
        errf = open(tmp / ("err%d.txt" % k), "w")          # a file, not a pipe: nobody has to drain it while the worker runs
        pr = subprocess.Popen([PY, "-m", "harness.worker", prop, str(inp), str(outp), str(per_case_timeout)],
                              cwd=VERIF, env=impl_env(), stdout=subprocess.DEVNULL, stderr=errf, text=True)
        errf.close()
        procs.append((pr, outp, len(ch)))
    results = [None] * len(cases)
    # watchdog: a worker gets the time its cases could need if EVERY one of them ran into the per-case limit (the worker's own circuit
    # breaker stops after three), plus start-up; a worker that hangs outside a case (import, impl_init) is killed and its cases count as died
    # The watchdog looks at PROGRESS, not at a fixed budget (a loaded machine or heavier cases must not look like a hang): a worker is
    # killed when its result file has not grown for `stall` seconds - longer than start-up plus any single case can take, since the
    # worker's own timer ends a case after per_case_timeout - or when an absolute cap far above any honest run is reached.
    stall = 180 + 6 * per_case_timeout
    cap = 900 + per * (per_case_timeout + 1.0)
    t0 = time.time()
    last = {k: (t0, -1) for k in range(len(procs))}
    errs = {}
    alive = set(range(len(procs)))
    while alive:
        time.sleep(0.5)
        now = time.time()
        for k in sorted(alive):
            pr, outp, n = procs[k]
            if pr.poll() is not None:
                alive.discard(k)
                continue
            size = outp.stat().st_size if outp.exists() else 0
            if size != last[k][1]:
                last[k] = (now, size)
            elif now - last[k][0] > stall or now - t0 > cap:
                pr.kill()
                try:
                    pr.wait(timeout=10)
                except Exception:
                    pass
                errs[k] = "\n[killed by the harness watchdog: no result for %.0f s (stall limit %.0f s, total %.0f s)]" % (now - last[k][0], stall, now - t0)
                alive.discard(k)
    for k, (pr, outp, n) in enumerate(procs):
        try:
            err = open(tmp / ("err%d.txt" % k)).read()[-2000:] + errs.get(k, "")
        except Exception:
            err = errs.get(k, "")
        outs = []
        if outp.exists():
            for l in open(outp):
                try:
                    outs.append(json.loads(l))
                except Exception:
                    outs.append({"exc": "WORKER_GARBLED"})
        while len(outs) < n:
            outs.append({"exc": "WORKER_DIED", "stderr": (err or "")[-300:]})
        for j, o in enumerate(outs[:n]):
            results[k * per + j] = o
    shutil.rmtree(tmp, ignore_errors=True)
    return results


# --------------------------------------------------------------------------- findings

def load_findings():
    p = VERIF / "known_findings.json"
    if not p.exists():
        return []
    return json.load(open(p))


# --------------------------------------------------------------------------- driver of one check

class Rng(random.Random):
    pass


def case_key(c):
    return hashlib.sha1(json.dumps(c, sort_keys=True).encode()).hexdigest()


def run_check(prop, tier, replay=None):
    t0 = time.time()
    seed = int(os.environ.get("VERIF_SEED", "1"))
    mod = importlib.import_module("harness.props." + prop.lower())
    ev = {"property_id": prop, "tier": tier, "seed": seed, "level": "proof", "coverage": {}, "assumptions": [],
          "wall_s": 0.0, "violations": 0}
    violations = []      # (description, replay_path, no_input_flag)
    known_hits = {}

    ok, blog = build()
    hyg = hygiene()
    if not ok:
        proof = {"ok": False, "broken": "build of the Coq development / extraction", "log": blog[-3000:],
                 "obligations": 1, "discharged": 0, "axioms": [], "theorems": [], "checker_cmd": "make -C coq && make -C ocaml"}
    elif hyg:
        proof = {"ok": False, "broken": "forbidden vernacular: " + "; ".join(hyg[:5]), "log": "",
                 "obligations": 1, "discharged": 0, "axioms": [], "theorems": [], "checker_cmd": "grep"}
    else:
        proof = prove(prop)
        if getattr(mod, "GEN_TIE", False):
            spec = getattr(mod, "GEN_TIE")
            spec = [spec] if isinstance(spec, str) else list(spec)
            groups = [x for x in spec if x in GEN_GROUPS]
            ties = []
            if groups:
                ties.append(("Gen/", "Gen/GenP_<group>.v", " && translate/py2coq.py /repo coq/Gen && coqc Gen/Generated_<group>.v Gen/GenP_<group>.v", gen_tie(groups)))
            if "imp" in spec:
                ties.append(("Gen/GenImpP.v:", "Gen/GenImpP.v", " && translate/imp2coq.py /repo coq/Gen/GeneratedImp.v && coqc Gen/GeneratedImp.v Gen/GenImpP.v Gen/GenImpC.v", gen_tie_imp()))
            if "sig" in spec:
                ties.append(("Gen/GenSigP.v:", "Gen/GenSigP.v", " && translate/sig2coq.py /repo coq/Gen/GeneratedSig.v && coqc Gen/GeneratedSig.v Gen/GenSigP.v Gen/GenSigC.v", gen_tie_sig()))
            if "httpx" in spec:
                ties.append(("Gen/GenHttpP.v:", "Gen/GenHttpP.v", " && translate/http2coq.py /repo coq/Gen/GeneratedHttp.v && coqc Gen/GeneratedHttp.v Gen/GenHttpP.v Gen/GenHttpC.v", gen_tie_httpx()))
            if "re" in spec:
                ties.append(("Gen/GenReP.v:", "Gen/GenReP.v", " && translate/re2coq.py /repo coq/Gen/GeneratedRe.v && coqc Gen/GenReLib.v Gen/GeneratedRe.v Gen/GenReP.v", gen_tie_re()))
            if "h11" in spec:
                ties.append(("Gen/GenH11P.v:", "Gen/GenH11P.v", " && translate/h112coq.py /repo coq/Gen/GeneratedH11.v && coqc Gen/GenH11Lib.v Gen/GeneratedH11.v Gen/GenH11P.v", gen_tie_h11()))
            if "eff" in spec:
                ties.append(("Gen/GenEffP.v:", "Gen/GenEffP.v", " && translate/eff2coq.py /repo coq/Gen/GeneratedEff.v && coqc Gen/GenEffLib.v Gen/GeneratedEff.v Gen/GenEffP.v", gen_tie_eff()))
            if "file" in spec:
                ties.append(("Gen/GenFileP.v:", "Gen/GenFileP.v", " && translate/file2coq.py /repo coq/Gen/GeneratedFile.v && coqc Gen/GeneratedFile.v Gen/GenFileP.v Gen/GenFileC.v", gen_tie_file()))
            proof["gen_tie"] = {}
            for prefix, where, cmd, g in ties:
                proof["obligations"] += g["obligations"]
                proof["discharged"] += g["discharged"]
                proof["theorems"] = proof.get("theorems", []) + [prefix + t for t in g["theorems"]]
                proof["checker_cmd"] = proof.get("checker_cmd", "") + cmd
                proof["gen_tie"][where] = g
                if not g["ok"] and proof["ok"]:
                    proof["ok"] = False
                    proof["broken"] = "code-to-model equivalence (translator + %s): " % where + g["detail"]
                    proof["log"] = g["detail"]

    coqchk = None
    if tier == "thorough" and proof.get("ok") and not replay and proof.get("gen_tie"):
        # the ties were re-checked above from the cache or by coqc; for the thorough tier they are recompiled now (no cache) under the lock and
        # their last proof file (which depends on the generated file, the equivalence proofs and the corollaries) goes through coqchk as well
        spec = getattr(mod, "GEN_TIE")
        spec = [spec] if isinstance(spec, str) else list(spec)
        last = []
        for x in spec:
            if x in GEN_GROUPS:
                last.append(GEN_GROUPS[x][1][-1])
        last += {"imp": ["GenImpC.v"], "sig": ["GenSigC.v"], "file": ["GenDbC.v"], "httpx": ["GenHttpC.v"]}.get("imp" if "imp" in spec else "", [])
        for k, f in (("sig", "GenSigC.v"), ("file", "GenDbC.v"), ("httpx", "GenHttpC.v"), ("eff", "GenEffP.v"), ("h11", "GenH11P.v"), ("re", "GenReP.v")):
            if k in spec:
                last.append(f)
        FORCE_TIE[0] = True
        lock = open(WORK / "gen_tie.lock2", "w")
        fcntl.flock(lock, fcntl.LOCK_EX)          # one thorough tie re-check at a time (the inner lock is taken per tie)
        try:
            groups = [x for x in spec if x in GEN_GROUPS]
            redo = ([gen_tie(groups)] if groups else []) + [f() for k, f in (("imp", gen_tie_imp), ("sig", gen_tie_sig), ("file", gen_tie_file), ("httpx", gen_tie_httpx), ("eff", gen_tie_eff), ("h11", gen_tie_h11), ("re", gen_tie_re)) if k in spec]
            chk = []
            if all(r["ok"] for r in redo):
                for f in last:
                    rc, out = sh("timeout 1500 coqchk -silent -o -Q . PV PV.Gen.%s" % f[:-2], 1600, cwd=COQ)
                    m = re.search(r"\* Axioms:(.*?)\n\s*\n\* Constants/Inductives relying on type-in-type:(.*?)\n", out, flags=re.S)
                    chk.append({"file": "Gen/" + f, "rc": rc, "axioms": m.group(1).strip() if m else "?", "type_in_type": m.group(2).strip() if m else "?"})
        finally:
            FORCE_TIE[0] = False
            lock.close()
        proof["gen_tie_coqchk"] = chk
        bad = [r for r in redo if not r["ok"]] or [c for c in chk if c["rc"] != 0 or c["axioms"] != "<none>" or c["type_in_type"] != "<none>"]
        if bad:
            proof["ok"] = False
            proof["broken"] = "thorough re-check of the translator ties (fresh compile + coqchk -o): %s" % str(bad[0])[:400]
            proof["log"] = str(bad)[:1500]
    if tier == "thorough" and proof.get("ok") and not replay:
        # independent re-check of the compiled property file and everything it depends on
        rc, out = sh("timeout 1500 coqchk -silent -o -Q . PV PV.Properties.%s" % prop, 1600, cwd=COQ)
        m = re.search(r"\* Axioms:(.*?)\n\s*\n\* Constants/Inductives relying on type-in-type:(.*?)\n", out, flags=re.S)
        coqchk = {"rc": rc, "axioms": m.group(1).strip() if m else "?", "type_in_type": m.group(2).strip() if m else "?", "tail": out[-600:]}
        if rc != 0 or not m or m.group(1).strip() != "<none>" or m.group(2).strip() != "<none>":
            proof["ok"] = False
            proof["broken"] = "coqchk -o does not accept Properties/%s.vo axiom-free" % prop
            proof["log"] = out[-1500:]

    rng = Rng("%s/%s/%d" % (prop, tier, seed))
    model_available = ok or (OCAML / "driver").exists()

    if replay:
        r = json.load(open(replay))
        cases = (r.get("history") or []) + [r["input"]] if "input" in r else []
    else:
        cases = []
        corpus = VERIF / "corpus" / (prop + ".jsonl")
        if corpus.exists():
            for l in open(corpus):
                l = l.strip()
                if l:
                    c = json.loads(l)
                    c.setdefault("stream", "corpus")
                    cases.append(c)
        for f in load_findings():
            if f["property"] == prop and f.get("witness") is not None:
                c = dict(f["witness"])
                c["stream"] = "finding:" + f["id"]
                cases.append(c)
        gen_iter = mod.generate(rng, tier)

    stats = {"streams": {}, "outcomes": {}}
    disagreements = []
    n_eval = 0
    nontrivial = set()
    samples = []
    exhaustive = getattr(mod, "EXHAUSTIVE", {})

    # the generated stream is evaluated in batches so that the thorough tier can be large without holding it in memory
    BATCH = int(os.environ.get("VERIF_BATCH", "150000"))
    findings = [f for f in load_findings() if f["property"] == prop and f["status"] == "finding"]
    fresh = []
    n_disagree = 0
    fresh_overflow = 0
    history_of = {}          # id(case) -> preceding cases of the same batch (for history-dependent replays)
    sample_pool = []
    coq_pool = []
    total_cases = 0

    def batches():
        first = list(cases)
        it = iter(()) if replay else gen_iter
        cur = first
        for c in it:
            cur.append(c)
            if len(cur) >= BATCH:
                yield cur
                cur = []
        if cur:
            yield cur
    for batch in (batches() if model_available else []):
        total_cases += len(batch)
        impl_res = run_impl(prop, batch, per_case_timeout=getattr(mod, "CASE_TIMEOUT", 5))
        if hasattr(mod, "model_cases"):
            model_res = mod.model_cases(batch, impl_res, run_model)
        else:
            model_res = run_model([mod.model_line(c) for c in batch])
        for k, (c, ir, mr) in enumerate(zip(batch, impl_res, model_res)):
            if isinstance(ir, dict) and "skipped" in ir and len(ir) == 1:
                stats["outcomes"]["skipped-after-timeouts"] = stats["outcomes"].get("skipped-after-timeouts", 0) + 1
                continue
            n_eval += 1
            st = c.get("stream", "?")
            stats["streams"][st] = stats["streams"].get(st, 0) + 1
            oc = mod.outcome(c, ir, mr)
            stats["outcomes"][oc] = stats["outcomes"].get(oc, 0) + 1
            if mod.nontrivial(c, ir, mr):
                nontrivial.add(case_key({k2: v for k2, v in c.items() if k2 != "stream"}))
            verdict = mod.judge(c, ir, mr)      # None | dict(kind=..., why=...)
            if verdict is not None:
                n_disagree += 1
                fid = mod.classify(c, ir, mr, verdict, findings) if hasattr(mod, "classify") else None
                if fid:
                    known_hits[fid] = known_hits.get(fid, 0) + 1
                elif len(fresh) < 300:
                    fresh.append((c, ir, mr, verdict))
                    history_of[id(c)] = batch[max(0, k - 40):k]
                else:
                    fresh_overflow += 1
        step = max(1, len(batch) // 3)
        sample_pool += [{"input": c, "impl": ir, "model": mr} for c, ir, mr in list(zip(batch, impl_res, model_res))[::step][:3]]
        if tier == "thorough" and hasattr(mod, "coq_case") and len(coq_pool) < 4000:
            stepc = max(1, len(batch) // 1500)
            coq_pool += list(zip(batch, model_res))[::stepc]
    samples = sample_pool[:6]
    cases_seen = total_cases

    # thorough tier: re-evaluate a shard of the cases INSIDE Coq (vm_compute) against the extracted code's answers,
    # so that extraction and the OCaml driver are themselves cross-checked
    coq_shard = None
    if tier == "thorough" and hasattr(mod, "coq_case") and coq_pool and model_available and not replay:
        coq_shard = coq_cross_check(prop, mod, [c for c, _ in coq_pool], [m for _, m in coq_pool])
        if coq_shard["mismatch"]:
            path = VERIF / "replays" / ("%s-%d-extraction.json" % (prop, seed))
            json.dump({"property": prop, "broken": "extracted code disagrees with vm_compute on the same cases", "detail": coq_shard}, open(path, "w"), indent=1)
            violations.append(("extraction cross-check failed", str(path), True))

    # classify disagreements
    (VERIF / "replays").mkdir(exist_ok=True)
    for f in findings:
        if f["id"] in known_hits:
            print("KNOWN-FINDING: property=%s %s %s (%d cases this run)" % (prop, f["id"], f["what_fails"], known_hits[f["id"]]))
        else:
            print("KNOWN-FINDING: property=%s %s %s (witness not reproduced this run: stale?)" % (prop, f["id"], f["what_fails"]))

    k = 0
    seen_kinds = {}
    for c, ir, mr, verdict in fresh:
        kind = verdict.get("kind", "disagreement")
        seen_kinds[kind] = seen_kinds.get(kind, 0) + 1
        if seen_kinds[kind] > 3:
            continue
        history = None
        if not replay:
            # does the case fail on its own?  If not, the failure depends on what the same
            # process evaluated before it: keep the preceding cases as the replay history.
            alone = run_impl(prop, [c], jobs=1, per_case_timeout=getattr(mod, "CASE_TIMEOUT", 5))
            m_alone = mod.model_cases([c], alone, run_model) if hasattr(mod, "model_cases") else run_model([mod.model_line(c)])
            if mod.judge(c, alone[0], m_alone[0]) is None:
                history = history_of.get(id(c)) or None
            elif hasattr(mod, "shrink"):
                c, ir, mr, verdict = shrink_case(prop, mod, c, ir, mr, verdict)
        path = VERIF / "replays" / (("%s-replayed-%d.json" % (prop, k)) if replay else ("%s-%d-%d.json" % (prop, seed, k)))
        if replay:
            history = json.load(open(replay)).get("history")
        k += 1
        json.dump({"property": prop, "stream": c.get("stream"), "seed": seed, "tier": tier, "input": c, "history": history,
                   "history_dependent": history is not None, "impl": ir, "model": mr,
                   "judged_by": verdict.get("judged_by", "model = implementation on the observable the property fixes"),
                   "why": verdict.get("why"), "kind": kind,
                   "replay_cmd": "./check %s --replay %s" % (prop, path)}, open(path, "w"), indent=1)
        no_input = verdict.get("no_failing_input", False)
        violations.append((kind, str(path), no_input))

    if not proof["ok"] and not violations:
        path = VERIF / "replays" / ("%s-%d-proof.json" % (prop, seed))
        json.dump({"property": prop, "broken": proof.get("broken", "?"), "file": proof.get("file"), "log_tail": proof.get("log", "")[-2000:],
                   "searched": {"cases": n_eval, "streams": stats["streams"]}}, open(path, "w"), indent=1)
        violations.append(("proof obligation no longer checks: %s" % proof.get("broken"), str(path), True))
    if cases_seen == 0 and not model_available:
        path = VERIF / "replays" / ("%s-%d-build.json" % (prop, seed))
        json.dump({"property": prop, "broken": "model could not be built", "log_tail": blog[-2000:]}, open(path, "w"), indent=1)
        violations.append(("model build broken", str(path), True))

    for kind, path, no_input in violations:
        print("VIOLATION property=%s replay=%s%s" % (prop, path, " no-failing-input-found" if no_input else ""))
        log("  -> " + kind)

    tb = ["Coq 8.16.1 kernel (coqc full .vo build; vm_compute in Examples only)",
          "Print Assumptions: %d theorem(s) closed under the global context; axioms: %s" % (proof.get("print_assumptions", {}).get("closed", 0), ", ".join(proof["axioms"]) or "none"),
          "extraction: ExtrOcamlBasic only (bool, option, unit, list, prod, sumbool, sumor mapped to OCaml; Z/N/positive/nat kept as extracted inductives); ocaml/driver.ml line protocol",
          "correspondence harness: harness/props/%s.py generators + harness/worker.py running pyp0f from %s (CPython %s, Scapy, h11 as installed)" % (prop.lower(), REPO, PY),
          "hand-written Gallina model of the anchored code path (coq/Model/*.v): tied to the code by the differential run recorded under 'evaluations'"]
    spec = getattr(mod, "GEN_TIE", None)
    if spec:
        spec = [spec] if isinstance(spec, str) else list(spec)
        groups = [x for x in spec if x in GEN_GROUPS]
        if groups:
            tb.append("translator translate/py2coq.py (fail-closed Python-ast -> Gallina, groups %s): its reading of the accepted Python subset; the generated "
                      "definitions are proved equal to the model on every run (Gen/GenP_<group>.v, GenOptP.v, GenHdrP.v)" % ", ".join(groups))
            if "layers" in groups:
                tb.append("translator translate/lay2coq.py (IP._from_ipv4/_from_ipv6/from_packet, TCP.from_packet + __post_init__, Packet.from_packet, TCPPacketSignature.from_packet over records of "
                          "SCAPY FIELDS): ASSUMED: the dissection functions fields_ip4 / fields_ip6 / fields_tcp of Gen/GenLayLib.v (what Scapy reads from the header bytes; they frame exactly "
                          "like Model/Wire.v), Scapy's flag-letter tables, the three payload lines of TCP.from_packet (checked literally) as the opaque payload input; "
                          "TCPOptions.parse is bound to the translated walker of group options; Gen/GenP_layers.v + GenLayC.v re-checked on every run")
        if "imp" in spec:
            tb.append("translator translate/imp2coq.py (impersonate/tcp.py -> random-tape monad): its reading of the subset, the attribute table base packet -> abstract base, "
                      "the literally checked hint prelude / tcp_payload / random_string, constant folding by evaluation with /repo's enum classes; Gen/GenImpP.v + GenImpC.v re-checked on every run")
        if "sig" in spec:
            tb.append("translator translate/sig2coq.py (database/parse/utils.py, wildcard.py, signatures/tcp.py, signatures/mtu.py -> text/res monad): its reading of the subset, "
                      "int() = py_int, str methods = Model/Text.v list functions, module tables by evaluation; Gen/GenSigP.v + GenSigC.v re-checked on every run")
        if "httpx" in spec:
            tb.append("translator translate/http2coq.py (read.py, header.py, http.py, signatures/http.py -> text/res monad): its reading of the subset; ASSUMED primitives, each read "
                      "LITERALLY from the source and refused if different: the regex ^HTTP/1\\.(?P<version>\\d)$ (as Python applies it: `$` also matches before one trailing LF), "
                      "the regex ,(?![^\\[]*\\]) = the model's hsplit, h11's maybe_extract_lines = the model's extract_lines, bytes.split(None, 2) / strip / lower / partition = "
                      "Model/Text.v + Model/HttpRead.v functions; Gen/GenHttpP.v + GenHttpC.v re-checked on every run")
        if "re" in spec:
            tb.append("translate/re2coq.py + Gen/GenReLib.v: the three regular expressions are read from the current sources and parsed by CPython's own re._parser; TRUSTED is the generic relational "
                      "semantics of the regex constructs they use (literal, class, \\d as ASCII digits, negated literal, concatenation, alternation, ?, *, negative lookahead, ^ and $ with Python's "
                      "bytes / MULTILINE rules, groups; about 60 lines of definitions in Gen/GenReLib.v; backtracking priority is not modelled - uniqueness of the match is proved for each pattern instead); "
                      "with it the bindings of http2coq / h112coq (gen_re_http_version, hsplit, find_blank_end) are theorems (Gen/GenReP.v), no longer assumptions")
        if "h11" in spec:
            tb.append("translator translate/h112coq.py (h11/_receivebuffer.py AS INSTALLED + pyp0f's copy_buffer -> functions over an explicit buffer state): its reading of the subset (slices, "
                      "del, in-place edits of list elements as a map, the assert as an explicit outcome proved unreachable); ASSUMED: the regular expression b'\\n\\r?\\n' (pattern and flag read "
                      "literally, refused if different) means find_blank_end of Gen/GenH11Lib.v (end of the leftmost match at or after the start index); Gen/GenH11Lib.v + GenH11P.v re-checked on every run")
        if "eff" in spec:
            tb.append("translator translate/eff2coq.py (ALL pyp0f modules -> may-write effect summaries): its abstract domain (origins Param / Glob / Fresh, self vs content, flow-insensitive union, "
                      "call-graph fixpoint, method resolution by name), and its explicit tables, printed into the generated file (gen_assumed_externals, gen_mutating_methods, gen_trusted_rebindings, gen_lib_reads): "
                      "ASSUMED pure / deep-copying externals (bytes(), str / bytes methods, Scapy Packet.copy() and the `/` operator copying both operands, struct, re ...), container and h11 / Scapy "
                      "mutators; three facts are re-checked on the INSTALLED Scapy / h11 sources on every run (FlagValue has no in-place operator, Packet.__div__ copies both operands, every Packet / "
                      "ReceiveBuffer method that stores into self is in the mutating table); what Scapy / h11 do INSIDE the assumed-pure operations stays with the run-time monitor; "
                      "Gen/GenEffLib.v + GenEffP.v re-checked on every run")
        if "file" in spec:
            tb.append("translator translate/file2coq.py + db2coq.py (parser.py's line loop / _parse_section, labels/*.py, records/*.py, records_database.py create / add / _get / iter_values / "
                      "get_random / __len__ / _replace, Database.load -> step function over a generated state; random.choice(l) = nth pick l for an index argument, open() / always_path assumed): its reading of the subset; ASSUMED: HTTPSignature.parse = the model's parse_http_sig, a dict = insertion-ordered association list, "
                      "`label.sys = ..` as a functional update (no record holds that label yet), class / enum tables by name; Gen/GenFileP.v + GenFileC.v re-checked on every run")
    tb += getattr(mod, "TRUSTED", [])
    ev["coverage"] = {
        "obligations": proof["obligations"], "discharged": proof["discharged"],
        "checker_cmd": proof.get("checker_cmd", ""), "trusted_base": tb,
        "theorems": proof.get("theorems", []), "axioms": proof["axioms"],
        "evaluations": n_eval, "distinct_nontrivial": len(nontrivial),
        "rule": getattr(mod, "RULE", ""), "samples": samples,
        "streams": stats["streams"], "outcomes": stats["outcomes"],
        "disagreements_checked": n_disagree, "known_findings_hit": known_hits,
        "exhaustive": False, "exhaustive_subdomains": exhaustive if isinstance(exhaustive, (dict, list)) else {},
        "proof_ok": proof["ok"],
        "in_coq_cross_check_of_extraction": coq_shard,
        "coqchk": coqchk, "gen_tie_coqchk": proof.get("gen_tie_coqchk"),
    }
    ev["assumptions"] = getattr(mod, "ASSUMPTIONS", [])
    ev["violations"] = len(violations)
    ev["wall_s"] = round(time.time() - t0, 2)
    evdir = Path(os.environ.get("VERIF_EVIDENCE_DIR", str(VERIF / "evidence")))     # redirected when checks are run against seeded changes
    evdir.mkdir(parents=True, exist_ok=True)
    json.dump(ev, open(evdir / (prop + ".json"), "w"), indent=1)
    log("[%s %s] proof_ok=%s obligations=%d/%d cases=%d nontrivial=%d disagreements=%d violations=%d known=%s %.1fs" % (
        prop, tier, proof["ok"], proof["discharged"], proof["obligations"], n_eval, len(nontrivial), n_disagree, len(violations), known_hits, time.time() - t0))
    log("  outcomes: %s" % json.dumps(stats["outcomes"], sort_keys=True))
    return 1 if violations else 0


def coq_cross_check(prop, mod, cases, model_res, per_file=400, max_cases=2000):
    """Writes cases.v shards: each states, as a boolean evaluated by vm_compute inside Coq, that the model applied to the
    case gives what the extracted OCaml code printed.  Returns counts."""
    step = max(1, len(cases) // max_cases)
    picked = [(c, m) for c, m in list(zip(cases, model_res))[::step]]
    terms = [t for t in (mod.coq_case(c, m) for c, m in picked) if t]
    d = WORK / ("coqcases-%s" % prop)
    shutil.rmtree(d, ignore_errors=True)
    d.mkdir(parents=True)
    files = []
    for k in range(0, len(terms), per_file):
        f = d / ("Cases%d.v" % (k // per_file))
        f.write_text("From PV Require Import Model.Prelude Model.Bits Model.Sig Model.Matcher Model.Uptime Proofs.CaseEq.\n"
                     "Definition cases := [\n  %s\n].\nEval vm_compute in forallb %s cases.\n" % (";\n  ".join(terms[k:k + per_file]), mod.COQ_CHECKER))
        files.append(f)
    ok = bad = 0
    procs = [(f, subprocess.Popen("ulimit -s unlimited; timeout 900 coqc -Q %s PV %s" % (COQ, f), shell=True, cwd=d, stdout=subprocess.PIPE, stderr=subprocess.STDOUT, text=True)) for f in files]
    for f, p in procs:
        out = p.communicate()[0]
        if "= true" in out and p.returncode == 0:
            ok += 1
        else:
            bad += 1
            log("in-Coq cross-check failed for %s: %s" % (f, out[-400:]))
    shutil.rmtree(d, ignore_errors=True)
    return {"cases": len(terms), "files": len(files), "files_true": ok, "mismatch": bad}


def shrink_case(prop, mod, c, ir, mr, verdict, budget=150):
    """Greedy shrinking: accept any candidate on which the judge still reports a violation
    of the same kind."""
    kind = verdict.get("kind")
    improved = True
    while improved and budget > 0:
        improved = False
        cands = list(mod.shrink(c))[:40]
        if not cands:
            break
        budget -= len(cands)
        irs = run_impl(prop, cands, jobs=1, per_case_timeout=getattr(mod, "CASE_TIMEOUT", 5))
        if hasattr(mod, "model_cases"):
            mrs = mod.model_cases(cands, irs, run_model)
        else:
            mrs = run_model([mod.model_line(x) for x in cands])
        for x, i2, m2 in zip(cands, irs, mrs):
            v2 = mod.judge(x, i2, m2)
            if v2 is not None and v2.get("kind") == kind:
                c, ir, mr, verdict = x, i2, m2, v2
                improved = True
                break
    return c, ir, mr, verdict
