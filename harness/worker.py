"""Implementation-side worker: runs harness.props.<prop>.impl on each case, inside a process
whose sys.path starts with /repo (so the working tree's pyp0f is what runs)."""
import importlib
import json
import resource
import signal
import sys


class CaseTimeout(BaseException):
    pass


def _alarm(*_):
    # the timer repeats: should an `except BaseException` on the way out swallow the timeout, it fires again
    raise CaseTimeout()


def exc_result(e):
    r = {"exc": type(e).__name__}
    ln = getattr(e, "line_number", None)
    if ln is not None:
        r["line"] = ln
    r["msg"] = str(e)[:160]
    return r


def main():
    prop, inp, outp, tmo = sys.argv[1], sys.argv[2], sys.argv[3], int(sys.argv[4])
    try:
        resource.setrlimit(resource.RLIMIT_AS, (4 << 30, 4 << 30))
    except Exception:
        pass
    signal.signal(signal.SIGALRM, _alarm)
    signal.setitimer(signal.ITIMER_REAL, 90, 5)        # start-up (imports, default database, impl_init) must not hang either
    try:
        # as after `from scapy.all import *`: application-layer bindings are loaded, so a TCP payload to port 53 is dissected as a DNS
        # layer (not Raw) -- it is payload all the same
        import scapy.layers.dns  # noqa: F401
    except Exception:
        pass
    try:
        # as in ordinary use, the process-wide default database holds the shipped p0f.fp: a database passed explicitly
        # (loaded, empty or never loaded) must still be the one that is consulted
        from pyp0f.database import DATABASE
        DATABASE.load()
    except Exception:
        pass
    mod = importlib.import_module("harness.props." + prop.lower())
    impl = mod.impl_init()
    signal.setitimer(signal.ITIMER_REAL, 0)
    signal.signal(signal.SIGALRM, _alarm)
    timeouts = 0
    with open(outp, "w") as out:
        for line in open(inp):
            case = json.loads(line)
            if timeouts >= 3:
                # circuit breaker: a hanging implementation is already established; do not spend
                # the per-case alarm on every remaining case of this chunk
                out.write(json.dumps({"skipped": "after 3 timeouts in this worker"}) + "\n")
                continue
            try:
                signal.setitimer(signal.ITIMER_REAL, tmo, max(1.0, tmo / 4))
                try:
                    res = impl(case)
                finally:
                    signal.setitimer(signal.ITIMER_REAL, 0)
            except CaseTimeout:
                res = {"exc": "TIMEOUT"}
                timeouts += 1
            except MemoryError:
                res = {"exc": "MemoryError"}
            except BaseException as e:  # noqa
                res = exc_result(e)
            out.write(json.dumps(res) + "\n")
            out.flush()


if __name__ == "__main__":
    main()
