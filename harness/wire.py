"""Byte-level IPv4/IPv6 + TCP packet builder (no Scapy): the same bytes go to Scapy->pyp0f and to
the Coq model's own dissector.

spec = {v, ttl, tos, id, df, mf, evil, frag, ipopts(hex), fl, sport, dport, seq, ack, flags(9 bit),
        win, urg, opts(hex, TCP option area, padded by the caller to a multiple of 4), payload(hex),
        src, dst (ints)}
"""
import struct


def csum(b):
    if len(b) % 2:
        b += b"\0"
    s = sum(struct.unpack("!%dH" % (len(b) // 2), b))
    while s >> 16:
        s = (s & 0xFFFF) + (s >> 16)
    return (~s) & 0xFFFF


DEFAULT = {"v": 4, "ttl": 64, "tos": 0, "id": 1, "df": True, "mf": False, "evil": False, "frag": 0, "ipopts": "", "fl": 0,
           "sport": 40000, "dport": 80, "seq": 1000, "ack": 0, "flags": 2, "win": 8192, "urg": 0, "opts": "", "payload": "",
           "src": 0x0A000001, "dst": 0x0A000002, "trailer": ""}      # trailer: bytes after the end of the datagram (link-layer padding)


def full(spec):
    s = dict(DEFAULT)
    s.update(spec)
    return s


def tcp_bytes(s, pseudo):
    opts = bytes.fromhex(s["opts"])
    assert len(opts) % 4 == 0 and len(opts) <= 40
    doff = 5 + len(opts) // 4
    fl = s["flags"] & 0x1FF
    hdr = struct.pack("!HHIIHHHH", s["sport"], s["dport"], s["seq"], s["ack"], (doff << 12) | fl, s["win"], 0, s["urg"]) + opts
    pay = bytes.fromhex(s["payload"])
    c = csum(pseudo(len(hdr) + len(pay)) + hdr + pay)
    return hdr[:16] + struct.pack("!H", c) + hdr[18:] + pay


def build(spec):
    s = full(spec)
    if s["v"] == 4:
        ipopts = bytes.fromhex(s["ipopts"])
        assert len(ipopts) % 4 == 0 and len(ipopts) <= 40
        ihl = 5 + len(ipopts) // 4
        src = struct.pack("!I", s["src"])
        dst = struct.pack("!I", s["dst"])
        tcp = tcp_bytes(s, lambda n: src + dst + struct.pack("!BBH", 0, 6, n))
        total = ihl * 4 + len(tcp)
        fl = (4 if s["evil"] else 0) | (2 if s["df"] else 0) | (1 if s["mf"] else 0)
        hdr = struct.pack("!BBHHHBBH", (4 << 4) | ihl, s["tos"], total, s["id"], (fl << 13) | (s["frag"] & 0x1FFF), s["ttl"], 6, 0) + src + dst + ipopts
        c = csum(hdr)
        hdr = hdr[:10] + struct.pack("!H", c) + hdr[12:]
        return hdr + tcp + bytes.fromhex(s["trailer"])
    src = b"\x20\x01\x0d\xb8" + b"\0" * 8 + struct.pack("!I", s["src"])
    dst = b"\x20\x01\x0d\xb8" + b"\0" * 8 + struct.pack("!I", s["dst"])
    tcp = tcp_bytes(s, lambda n: src + dst + struct.pack("!IHBB", n, 0, 0, 6))
    hdr = struct.pack("!IHBB", (6 << 28) | ((s["tos"] & 0xFF) << 20) | (s["fl"] & 0xFFFFF), len(tcp), 6, s["ttl"]) + src + dst
    return hdr + tcp + bytes.fromhex(s["trailer"])


# ---- TCP option encoders (hex strings) ----
def o_eol():
    return "00"


def o_nop():
    return "01"


def o_mss(v):
    return "0204%04x" % v


def o_ws(v):
    return "0303%02x" % v


def o_sok():
    return "0402"


def o_ts(a, b):
    return "080a%08x%08x" % (a, b)


def o_sack(nblocks, fill=0):
    return "05%02x" % (2 + 8 * nblocks) + ("%02x" % fill) * (8 * nblocks)


def o_unk(kind, length, fill=0):
    return "%02x%02x" % (kind, length) + ("%02x" % fill) * max(0, length - 2)


def pad4(hexs, fill="00"):
    n = len(hexs) // 2
    return hexs + fill * ((-n) % 4)
