#!/venv/bin/python
"""Fail-closed translator from a small subset of Python (the loop-free decision functions of pyp0f) to Gallina.

It is run on every check of C01 / C02 / C13 / C17 against /repo's CURRENT source; the generated definitions are then
proved equal to the hand-written models (coq/Gen/GenP.v), so that for these functions the tie between model and code
is a theorem about what the code says now, not a sample.  Anything outside the subset raises Unsupported (the check then
reports the correspondence as broken and falls back to the differential search for a failing input).

Functions: tcp_signatures_match, calculate_window_multiplier, round_frequency, guess_distance, should_fingerprint,
valid_for_tcp_fingerprint; group uptime also: the body of fingerprint_uptime after parse_packet and Uptime.__post_init__
(section "fingerprint_uptime (body)" below: floats are rendered as exact rationals, an ASSUMED abstraction stated there).
"""
import ast
import os
import sys
import textwrap


class Unsupported(Exception):
    pass


def fail(node, why):
    raise Unsupported("%s (line %s: %s)" % (why, getattr(node, "lineno", "?"), ast.unparse(node)[:80] if node is not None else ""))


COQ_RESERVED = {"match", "end", "fix", "let", "in", "with", "fun", "if", "then", "else", "return", "at", "as", "using", "where", "for",
                "forall", "exists", "Type", "Set", "Prop", "struct", "cofix", "exists2"}


def dotted(node):
    if isinstance(node, ast.Name):
        return node.id + "_" if node.id in COQ_RESERVED else node.id
    if isinstance(node, ast.Attribute):
        b = dotted(node.value)
        return None if b is None else b + "." + node.attr
    return None


# ---------------------------------------------------------------- expressions
class Env:
    def __init__(self, table, consts, calls=None, attrs=None):
        self.table = dict(table)      # dotted path -> (coq term, type)
        self.consts = dict(consts)
        self.locals = {}              # python local -> type
        self.calls = dict(calls or {})   # function name -> (arity, lambda coq_args -> (term, type))
        self.attrs = dict(attrs or {})   # (type, attribute path) -> (lambda base_term -> term, type)


def expr(e, env):
    """-> (coq term, type) with type in Z N B L W MT"""
    d = dotted(e)
    if d is not None:
        if d in env.locals:
            return d, env.locals[d]
        if d in env.table:
            return env.table[d]
        if d in env.consts:
            return env.consts[d]
        for pre, fresh in sorted(getattr(env, "refined", {}).items(), key=lambda kv: -len(kv[0])):
            if d.startswith(pre + ".") and (env.locals.get(fresh), d[len(pre) + 1:]) in env.attrs:
                f, ty = env.attrs[(env.locals[fresh], d[len(pre) + 1:])]
                return f(fresh), ty
        head, _, path = d.partition(".")
        if head in env.locals and (env.locals[head], path) in env.attrs:
            f, ty = env.attrs[(env.locals[head], path)]
            return f(head), ty
        if not (isinstance(e, ast.Attribute) and e.attr == "size"):
            fail(e, "unknown name")
    if isinstance(e, ast.Subscript):
        b, tb = expr(e.value, env)
        if isinstance(e.slice, ast.Slice):
            if tb != "LIST Z" or e.slice.step is not None or e.slice.lower is None or e.slice.upper is None:
                fail(e, "slice")
            lo, tl = expr(e.slice.lower, env)
            hi, th = expr(e.slice.upper, env)
            return "(firstn (Z.to_nat (%s - %s)) (skipn (Z.to_nat %s) %s))" % (hi, lo, lo, b), "LIST Z"
        if tb == "FMTS":
            k, tk = expr(e.slice, env)
            return k, "FMT"
        i, ti = expr(e.slice, env)
        if tb == "LIST PHDR" and ti == "Z":
            return "(nth (Z.to_nat %s) %s gen_default_header)" % (i, b), "PHDR"
        if tb != "LIST Z" or ti != "Z":
            fail(e, "subscript")
        return "(nth (Z.to_nat %s) %s 0)" % (i, b), "Z"
    if isinstance(e, ast.Call) and dotted(e.func) == "len" and len(e.args) == 1:
        b, tb = expr(e.args[0], env)
        if not tb.startswith("LIST "):
            fail(e, "len of a non-list")
        return "(Z.of_nat (length %s))" % b, "Z"
    if isinstance(e, ast.Call) and isinstance(e.func, ast.Attribute) and e.func.attr == "unpack" and len(e.args) == 1:
        f, tf = expr(e.func.value, env)
        a, ta = expr(e.args[0], env)
        if tf != "FMT" or ta != "LIST Z":
            fail(e, "unpack")
        return "(gen_unpack %s %s)" % (f, a), "LIST Z"
    if isinstance(e, ast.Attribute) and e.attr == "size":
        f, tf = expr(e.value, env)
        if tf == "FMT":
            return "(gen_fmt_size %s)" % f, "Z"
    if isinstance(e, ast.Attribute) and isinstance(e.value, ast.Subscript):
        b, tb = expr(e.value, env)
        if (tb, e.attr) in env.attrs:
            f, ty = env.attrs[(tb, e.attr)]
            return f(b), ty
        fail(e, "attribute of a subscript")
    if isinstance(e, ast.Call) and dotted(e.func) == "any" and len(e.args) == 1 and isinstance(e.args[0], ast.GeneratorExp):
        g = e.args[0]
        if len(g.generators) != 1 or g.generators[0].ifs or not isinstance(g.generators[0].target, ast.Name):
            fail(e, "any(...) shape")
        it, ity = expr(g.generators[0].iter, env)
        if not ity.startswith("LIST "):
            fail(e, "any over a non-list")
        v = g.generators[0].target.id
        saved = dict(env.locals)
        env.locals[v] = ity[5:]
        body = truthy(g.elt, env)
        env.locals = saved
        return "(existsb (fun %s => %s) %s)" % (v, body, it), "B"
    if isinstance(e, ast.Call):
        fn = dotted(e.func)
        if fn in env.calls and not e.keywords and len(e.args) == env.calls[fn][0]:
            return env.calls[fn][1]([expr(a, env) for a in e.args], e)
        fail(e, "call")
    if isinstance(e, ast.Constant):
        if e.value is None:
            return "None", "NONE"
        if isinstance(e.value, bytes):
            return "[" + "; ".join(str(c) for c in e.value) + "]", "TEXT"
        if isinstance(e.value, bool):
            return ("true" if e.value else "false"), "B"
        if isinstance(e.value, int):
            return "(%d)" % e.value, "Z"
        if isinstance(e.value, float) and e.value == int(e.value):
            return "(%d)" % int(e.value), "Z"
        fail(e, "constant")
    if isinstance(e, ast.UnaryOp):
        if isinstance(e.op, ast.Not):
            return "(negb %s)" % truthy(e.operand, env), "B"
        if isinstance(e.op, ast.USub):
            t, ty = expr(e.operand, env)
            if ty != "Z":
                fail(e, "negation of non-integer")
            return "(- %s)" % t, "Z"
        fail(e, "unary operator (a bare ~ is only supported as the right operand of &)")
    if isinstance(e, ast.BinOp):
        if isinstance(e.op, ast.BitAnd) and isinstance(e.right, ast.UnaryOp) and isinstance(e.right.op, ast.Invert):
            a, ta = expr(e.left, env)
            m, tm = expr(e.right.operand, env)
            if ta != "N" or tm != "N":
                fail(e, "& ~ on non-flags")
            return "(N.ldiff %s %s)" % (a, m), "N"
        a, ta = expr(e.left, env)
        b, tb = expr(e.right, env)
        ops = {ast.BitAnd: ("N", "N.land"), ast.BitOr: ("N", "N.lor"), ast.BitXor: ("N", "N.lxor"),
               ast.Sub: ("Z", "Z.sub"), ast.Add: ("Z", "Z.add"), ast.Mod: ("Z", "Z.modulo"), ast.FloorDiv: ("Z", "Z.div"), ast.Mult: ("Z", "Z.mul")}
        if isinstance(e.op, ast.BitOr) and ta == "Z" and tb == "Z":
            return "(Z.lor %s %s)" % (a, b), "Z"
        for k, (ty, f) in ops.items():
            if isinstance(e.op, k):
                if ta != ty or tb != ty:
                    fail(e, "operand types %s %s for %s" % (ta, tb, f))
                return "(%s %s %s)" % (f, a, b), ty
        fail(e, "binary operator")
    if isinstance(e, ast.BoolOp) and isinstance(e.op, ast.And) and any(
            isinstance(v, ast.Compare) and isinstance(v.ops[0], ast.IsNot) and isinstance(v.comparators[0], ast.Constant) and v.comparators[0].value is None
            for v in e.values):
        # a and (X is not None) and b(X) ...  ->  a && match X with Some x => b(x) ... | None => false end
        def chain(vals):
            if not vals:
                return "true"
            v = vals[0]
            if isinstance(v, ast.Compare) and isinstance(v.ops[0], ast.IsNot) and isinstance(v.comparators[0], ast.Constant) and v.comparators[0].value is None:
                d = dotted(v.left)
                t, ty = expr(v.left, env)
                if d is None or not ty.startswith("OPT "):
                    fail(v, "'is not None' on a non-optional")
                fresh = "v_" + d.replace(".", "_")
                saved_l, saved_t = dict(env.locals), dict(env.table)
                env.locals[fresh] = ty[4:]
                if d in env.locals:
                    env.locals[d] = ty[4:]
                    fresh = d
                else:
                    env.table[d] = (fresh, ty[4:])
                    for (ty0, path), val in list(env.attrs.items()):
                        pass
                    env.refined = getattr(env, "refined", {})
                    env.refined[d] = fresh
                inner = chain(vals[1:])
                env.locals, env.table = saved_l, saved_t
                env.refined = {k: v2 for k, v2 in getattr(env, "refined", {}).items() if k != d}
                return "(match %s with Some %s => %s | None => false end)" % (t, fresh, inner)
            rest = chain(vals[1:])
            return truthy(v, env) if rest == "true" else "(%s && %s)" % (truthy(v, env), rest)
        return chain(list(e.values)), "B"
    if isinstance(e, ast.BoolOp) and isinstance(e.op, ast.Or) and len(e.values) == 2:
        a, ta = expr(e.values[0], env)
        if ta == "OPT TEXT":
            b, tb = expr(e.values[1], env)
            if tb != ta:
                fail(e, "'or' between different types")
            return "(match %s with Some (c :: v) => Some (c :: v) | _ => %s end)" % (a, b), ta
    if isinstance(e, ast.BoolOp):
        parts = [truthy(v, env) for v in e.values]
        op = " && " if isinstance(e.op, ast.And) else " || "
        return "(" + op.join(parts) + ")", "B"
    if isinstance(e, ast.Compare):
        if len(e.ops) == 2 and all(isinstance(o, ast.LtE) for o in e.ops):          # a <= x <= b
            a, ta = expr(e.left, env)
            x, tx = expr(e.comparators[0], env)
            b, tb = expr(e.comparators[1], env)
            if (ta, tx, tb) != ("Z", "Z", "Z"):
                fail(e, "chained comparison on non-integers")
            return "((%s <=? %s) && (%s <=? %s))" % (a, x, x, b), "B"
        if len(e.ops) != 1:
            fail(e, "chained comparison")
        a, ta = expr(e.left, env)
        op = e.ops[0]
        if isinstance(op, (ast.In, ast.NotIn)) and dotted(e.comparators[0]) is not None and env.table.get(dotted(e.comparators[0]), ("", ""))[1] == "FMTS":
            t = "(gen_has_format %s)" % a
            return (t if isinstance(op, ast.In) else "(negb %s)" % t), "B"
        if isinstance(op, (ast.In, ast.NotIn)) and not isinstance(e.comparators[0], ast.Tuple):
            b, tb = expr(e.comparators[0], env)
            if ta == "TEXT" and tb == "TEXT":
                t = "(infix %s %s)" % (a, b)
                return (t if isinstance(op, ast.In) else "(negb %s)" % t), "B"
        if isinstance(op, (ast.In, ast.NotIn)):
            if not isinstance(e.comparators[0], ast.Tuple):
                fail(e, "'in' needs a literal tuple")
            alts = []
            for v in e.comparators[0].elts:
                b, tb = expr(v, env)
                alts.append(eq(a, ta, b, tb, e))
            t = "(" + " || ".join(alts) + ")"
            return (t if isinstance(op, ast.In) else "(negb %s)" % t), "B"
        if isinstance(op, (ast.Is, ast.IsNot)):
            if not (isinstance(e.comparators[0], ast.Constant) and e.comparators[0].value is None and ta.startswith("OPT ")):
                fail(e, "'is' is only supported as a None test on an optional value")
            t = "(match %s with None => true | Some _ => false end)" % a
            return (t if isinstance(op, ast.Is) else "(negb %s)" % t), "B"
        b, tb = expr(e.comparators[0], env)
        if isinstance(op, ast.Eq):
            return eq(a, ta, b, tb, e), "B"
        if isinstance(op, ast.NotEq):
            return "(negb %s)" % eq(a, ta, b, tb, e), "B"
        if ta != "Z" or tb != "Z":
            fail(e, "ordering on non-integers")
        sym = {ast.Lt: "<?", ast.Gt: ">?", ast.LtE: "<=?", ast.GtE: ">=?"}
        for k, s in sym.items():
            if isinstance(op, k):
                return "(%s %s %s)" % (a, s, b), "B"
        fail(e, "comparison operator")
    if isinstance(e, ast.IfExp):
        c = truthy(e.test, env)
        a, ta = expr(e.body, env)
        b, tb = expr(e.orelse, env)
        if ta != tb:
            fail(e, "branches of different type")
        return "(if %s then %s else %s)" % (c, a, b), ta
    fail(e, "expression")


def eq(a, ta, b, tb, node):
    if ta != tb:
        fail(node, "comparison between %s and %s" % (ta, tb))
    f = {"TEXT": "text_eqb", "Z": "Z.eqb", "N": "N.eqb", "L": "list_eqb", "W": "wtype_eqb", "B": "Bool.eqb", "MT": "mtype_eqb"}[ta]
    return "(%s %s %s)" % (f, a, b)


def truthy(e, env):
    t, ty = expr(e, env)
    if ty == "B":
        return t
    if ty == "Z":
        return "(negb (Z.eqb %s 0))" % t
    if ty == "N":
        return "(negb (N.eqb %s 0%%N))" % t
    fail(e, "truthiness of %s" % ty)


# ---------------------------------------------------------------- statements (continuation duplication)
def always_returns(stmts):
    for s in stmts:
        if isinstance(s, ast.Return):
            return True
        if isinstance(s, ast.If) and s.orelse and always_returns(s.body) and always_returns(s.orelse):
            return True
    return False


OPT_ANNOTATIONS = {"Optional[TCPMatch]": "OPT TMATCH", "Optional[HTTPRecord]": "OPT HTTPREC"}
COQ_TYPES_EXTRA = {}
COQ_TYPES = {"PHDR": "pkt_header", "SHDR": "sig_header", "TEXT": "text", "LIST Z": "(list Z)", "FMT": "Z", "Z": "Z", "N": "N", "B": "bool", "MT": "mtype", "TCPREC": "tcp_rec", "MTUREC": "mtu_rec", "HTTPREC": "rec", "TMATCH": "(mtype * tcp_rec)"}


def coq_type(ty):
    return "(option %s)" % coq_type(ty[4:]) if ty.startswith("OPT ") else COQ_TYPES[ty]


STRUCT_FORMATS = {"!B": ("1", "[a]", "[a]"), "!H": ("2", "[a; b]", "[a * 256 + b]"),
                  "!II": ("8", "[a; b; c; d; e; f; g; h]", "[((a * 256 + b) * 256 + c) * 256 + d; ((e * 256 + f) * 256 + g) * 256 + h]"), "": ("0", "[]", "[]")}


def gen_options(repo, consts):
    src = open(os.path.join(repo, "pyp0f/net/layers/tcp/options.py")).read()
    tree = ast.parse(src)
    kinds = {}
    fmts = {}
    for n in tree.body:
        if isinstance(n, ast.ClassDef) and n.name == "TCPOption":
            for m in n.body:
                if isinstance(m, ast.Assign) and isinstance(m.value, ast.Constant) and isinstance(m.value.value, int):
                    kinds[m.targets[0].id] = m.value.value
        if isinstance(n, ast.Assign) and dotted(n.targets[0]) == "OPTION_FORMATS":
            if not isinstance(n.value, ast.Dict):
                fail(n, "OPTION_FORMATS")
            for k, v in zip(n.value.keys, n.value.values):
                if not (dotted(k) or "").startswith("TCPOption.") or not (isinstance(v, ast.Call) and dotted(v.func) == "Struct" and isinstance(v.args[0], ast.Constant)):
                    fail(n, "OPTION_FORMATS entry")
                f = v.args[0].value
                if f not in STRUCT_FORMATS:
                    fail(v, "struct format %r" % f)
                fmts[kinds[dotted(k).split(".")[1]]] = f
    if not kinds or not fmts:
        raise Unsupported("TCPOption / OPTION_FORMATS not found")
    c2 = dict(consts)
    for k, v in kinds.items():
        c2["TCPOption." + k] = ("(%d)" % v, "Z")
    pre = ["Definition gen_has_format (k : Z) : bool := %s." % " || ".join("(k =? %d)" % k for k in fmts),
           "Definition gen_fmt_size (k : Z) : Z := %s 0." % " ".join("if k =? %d then %s else" % (k, STRUCT_FORMATS[f][0]) for k, f in fmts.items()),
           "Definition gen_unpack (k : Z) (v : list Z) : list Z :=\n  %s []." % " ".join(
               "if k =? %d then (match v with %s => %s | _ => [] end) else" % (k, STRUCT_FORMATS[f][1], STRUCT_FORMATS[f][2]) for k, f in fmts.items())]
    f = find_function(tree, "parse", cls="TCPOptions")
    if [a.arg for a in f.args.args] != ["cls", "buffer"] or [a.arg for a in f.args.kwonlyargs] != ["is_syn"]:
        fail(f, "TCPOptions.parse parameters")
    env = Env({"buffer": ("buffer", "LIST Z"), "is_syn": ("is_syn", "B"), "OPTION_FORMATS": ("tt", "FMTS")}, c2)

    def ret(v, env):
        if not (isinstance(v, ast.Call) and dotted(v.func) == "cls" and not v.args):
            fail(v, "expected return cls(...)")
        kw = {k.arg: expr(k.value, env) for k in v.keywords}
        want = {"layout": "LIST Z", "quirks": "N", "mss": "Z", "timestamp": "Z", "window_scale": "Z", "eol_padding_length": "Z"}
        if {k: t for k, (_, t) in kw.items()} != want:
            fail(v, "fields of the returned TCPOptions")
        return ("(Ok {| o_layout := %s; o_quirks := %s; o_mss := %s; o_ts1 := %s; o_ws := %s; o_eol := %s |})"
                % (kw["layout"][0], kw["quirks"][0], kw["mss"][0], kw["timestamp"][0], kw["window_scale"][0], kw["eol_padding_length"][0]))
    body = [s for s in f.body if not (isinstance(s, ast.Expr) and isinstance(s.value, ast.Constant))]
    # typed initialisers the generic code cannot infer: layout: List[int] = [] ; quirks = Quirk(0)
    init = []
    rest = []
    for st in body:
        tgt = st.target if isinstance(st, ast.AnnAssign) else (st.targets[0] if isinstance(st, ast.Assign) else None)
        if isinstance(tgt, ast.Name) and ast.unparse(st.value) == "[]":
            env.locals[tgt.id] = "LIST Z"
            init.append("(let %s := (@nil Z) in" % tgt.id)
        elif isinstance(tgt, ast.Name) and ast.unparse(st.value) == "Quirk(0)":
            env.locals[tgt.id] = "N"
            init.append("(let %s := 0%%N in" % tgt.id)
        else:
            rest.append(st)
    term = block(rest, env, ret)
    return "\n".join(pre) + "\nDefinition gen_parse_options (fuel0 : nat) (buffer : list Z) (is_syn : bool) : res topts :=\n %s\n %s%s." % (
        "\n ".join(init), term, ")" * len(init))


def assigned(stmts):
    """Names (re)bound anywhere inside the statements: plain / augmented / annotated / tuple assignments and x.append(...)."""
    out = []

    def add(n):
        if n not in out:
            out.append(n)
    for n in stmts:
        for m in ast.walk(n):
            if isinstance(m, (ast.Assign, ast.AugAssign, ast.AnnAssign)):
                ts = m.targets if isinstance(m, ast.Assign) else [m.target]
                for t in ts:
                    if isinstance(t, ast.Name):
                        add(dotted(t))
                    elif isinstance(t, ast.Tuple):
                        for x in t.elts:
                            if isinstance(x, ast.Name):
                                add(dotted(x))
                            else:
                                fail(m, "assignment target")
                    else:
                        fail(m, "assignment target")
            elif isinstance(m, ast.Expr) and isinstance(m.value, ast.Call) and isinstance(m.value.func, ast.Attribute):
                if m.value.func.attr == "append" and isinstance(m.value.func.value, ast.Name):
                    add(m.value.func.value.id)
                else:
                    fail(m, "method call with a side effect")
            elif isinstance(m, (ast.Delete, ast.Global, ast.Nonlocal, ast.With, ast.Try)):
                fail(m, "statement")
    return out


LOOP_COUNTER = [0]


def fresh_loop():
    LOOP_COUNTER[0] += 1
    return "loop%d" % LOOP_COUNTER[0]


def block(stmts, env, ret, fall=None, brk=None):
    """ret: function (ast expr or None) -> coq term of the function's result type; fall: term to use when control
    reaches the end of the block (loop bodies), or None when that is an error"""
    if not stmts:
        if fall is None:
            fail(None, "control reaches the end of the function without return")
        return fall
    s, rest = stmts[0], stmts[1:]
    if isinstance(s, ast.Continue):
        if fall is None:
            fail(s, "continue outside a loop")
        return fall
    if isinstance(s, ast.Break):
        if brk is None:
            fail(s, "break outside a while loop")
        return brk
    if isinstance(s, ast.While):
        if s.orelse:
            fail(s, "while-else")
        carried = [v for v in assigned(s.body) if v in env.locals]
        saved = dict(env.locals)
        after = block(rest, env, ret, fall, brk)
        env.locals = dict(saved)
        test = truthy(s.test, env)
        args = " ".join("(%s : %s)" % (v, coq_type(env.locals[v])) for v in carried)
        ln = fresh_loop()
        call = "(%s %s_fuel'" % (ln, ln) + "".join(" " + v for v in carried) + ")"
        body = block(list(s.body), env, ret, call, after)
        env.locals = saved
        return ("((fix %s (%s_fuel : nat) %s {struct %s_fuel} := match %s_fuel with\n | O => Err OutOfFuel\n | S %s_fuel' => if %s\n then %s\n else %s\n end) fuel0%s)"
                % (ln, ln, args, ln, ln, ln, test, body, after, "".join(" " + v for v in carried)))
    if isinstance(s, ast.Expr) and isinstance(s.value, ast.Call) and isinstance(s.value.func, ast.Attribute) and s.value.func.attr == "append" \
            and isinstance(s.value.func.value, ast.Name) and env.locals.get(s.value.func.value.id, "").startswith("LIST "):
        x = s.value.func.value.id
        v, tv = expr(s.value.args[0], env)
        if "LIST " + tv != env.locals[x]:
            fail(s, "append of a %s to a %s" % (tv, env.locals[x]))
        return "(let %s := (%s ++ [%s]) in\n %s)" % (x, x, v, block(rest, env, ret, fall, brk))
    if isinstance(s, ast.Assign) and len(s.targets) > 1 and all(isinstance(t, ast.Name) for t in s.targets):
        # a = b = c = value
        new = [ast.Assign(targets=[t], value=s.value, lineno=s.lineno) for t in s.targets]
        return block(new + rest, env, ret, fall, brk)
    if isinstance(s, ast.Assign) and len(s.targets) == 1 and isinstance(s.targets[0], ast.Tuple):
        v, tv = expr(s.value, env)
        if tv != "LIST Z":
            fail(s, "tuple unpacking of a non-list")
        new = [ast.Assign(targets=[t], value=ast.Subscript(value=s.value, slice=ast.Constant(value=k), ctx=ast.Load()), lineno=s.lineno)
               for k, t in enumerate(s.targets[0].elts)]
        return block(new + rest, env, ret, fall, brk)
    if isinstance(s, ast.For):
        if s.orelse or not isinstance(s.target, ast.Name):
            fail(s, "for loop shape")
        it, ity = expr(s.iter, env)
        if not ity.startswith("LIST "):
            fail(s, "iteration over a non-list")
        elt = ity[5:]
        carried = [v for v in assigned(s.body) if v in env.locals]
        args = " ".join("(%s : %s)" % (v, coq_type(env.locals[v])) for v in carried)
        ln = fresh_loop()
        call = "%s_rest" % ln + "".join(" " + v for v in carried)
        saved = dict(env.locals)
        nil_case = block(rest, env, ret, fall, brk)
        env.locals = dict(saved)
        env.locals[s.target.id] = elt
        cons_case = block(list(s.body), env, ret, "(%s %s)" % (ln, call))
        env.locals = saved
        return ("((fix %s (%s_list : list %s) %s {struct %s_list} := match %s_list with\n | [] => %s\n | %s :: %s_rest => %s\n end) %s%s)"
                % (ln, ln, coq_type(elt), args, ln, ln, nil_case, s.target.id, ln, cons_case, it, "".join(" " + v for v in carried)))
    # 'if X is None: <block that never falls through>'  refines X to its content afterwards
    if isinstance(s, ast.If) and not s.orelse and isinstance(s.test, ast.Compare) and isinstance(s.test.ops[0], ast.Is) \
            and isinstance(s.test.left, ast.Name) and env.locals.get(s.test.left.id, "").startswith("OPT ") \
            and isinstance(s.test.comparators[0], ast.Constant) and s.test.comparators[0].value is None \
            and (always_returns(s.body) or isinstance(s.body[-1], ast.Continue)):
        x = s.test.left.id
        saved = dict(env.locals)
        none_case = block(list(s.body), env, ret, fall, brk)
        env.locals = dict(saved)
        env.locals[x] = saved[x][4:]
        some_case = block(rest, env, ret, fall, brk)
        env.locals = saved
        return "(match %s with\n | None => %s\n | Some %s => %s\n end)" % (x, none_case, x, some_case)
    if isinstance(s, ast.Expr) and isinstance(s.value, ast.Constant) and isinstance(s.value.value, str):
        return block(rest, env, ret)                                        # docstring
    if isinstance(s, ast.Return):
        return ret(s.value, env)
    if isinstance(s, (ast.Assign, ast.AnnAssign)):
        tgt = s.targets[0] if isinstance(s, ast.Assign) else s.target
        if not isinstance(tgt, ast.Name) or (isinstance(s, ast.Assign) and len(s.targets) != 1):
            fail(s, "assignment target")
        t, ty = expr(s.value, env)
        ann = getattr(s, "annotation", None)
        if ty == "NONE":
            if dotted(tgt) in env.locals and env.locals[dotted(tgt)].startswith("OPT "):
                ty = env.locals[dotted(tgt)]
            elif ann is not None and ast.unparse(ann) in OPT_ANNOTATIONS:
                ty = OPT_ANNOTATIONS[ast.unparse(ann)]
            else:
                fail(s, "None assigned to a variable of unknown optional type")
        elif dotted(tgt) in env.locals and env.locals[dotted(tgt)] == "OPT " + ty:
            t, ty = "(Some %s)" % t, "OPT " + ty
        name = dotted(tgt)
        saved = dict(env.locals)
        env.locals[name] = ty
        body = block(rest, env, ret, fall, brk)
        env.locals = saved
        return "(let %s := %s in\n %s)" % (name, t, body)
    if isinstance(s, ast.AugAssign):
        if not isinstance(s.target, ast.Name) or s.target.id not in env.locals:
            fail(s, "augmented assignment target")
        x = s.target.id
        if isinstance(s.op, ast.BitAnd):
            v = s.value
            if isinstance(v, ast.IfExp) and all(isinstance(z, ast.UnaryOp) and isinstance(z.op, ast.Invert) for z in (v.body, v.orelse)):
                c = truthy(v.test, env)
                a, ta = expr(v.body.operand, env)
                b, tb = expr(v.orelse.operand, env)
                t = "(N.ldiff %s (if %s then %s else %s))" % (x, c, a, b)
            elif isinstance(v, ast.UnaryOp) and isinstance(v.op, ast.Invert):
                a, ta = expr(v.operand, env)
                t = "(N.ldiff %s %s)" % (x, a)
            else:
                a, ta = expr(v, env)
                t = "(N.land %s %s)" % (x, a)
            if env.locals[x] != "N":
                fail(s, "&= on non-flags")
        elif isinstance(s.op, ast.BitOr):
            a, ta = expr(s.value, env)
            t = "(N.lor %s %s)" % (x, a)
        elif isinstance(s.op, ast.Add) and env.locals[x] == "Z":
            a, ta = expr(s.value, env)
            if ta != "Z":
                fail(s, "+= of a non-integer")
            t = "(Z.add %s %s)" % (x, a)
        else:
            fail(s, "augmented assignment operator")
        return "(let %s := %s in\n %s)" % (x, t, block(rest, env, ret, fall, brk))
    if isinstance(s, ast.If):
        c = truthy(s.test, env)
        saved = dict(env.locals)
        ends = always_returns(s.body) or (bool(s.body) and isinstance(s.body[-1], ast.Continue))
        a = block(list(s.body) + ([] if ends else rest), env, ret, fall, brk)
        env.locals = dict(saved)
        b = block(list(s.orelse) + rest, env, ret, fall, brk) if (s.orelse or rest or fall is not None) else fail(s, "if without continuation")
        env.locals = saved
        return "(if %s\n then %s\n else %s)" % (c, a, b)
    fail(s, "statement")


def find_function(tree, name, cls=None):
    for n in ast.walk(tree):
        if isinstance(n, ast.ClassDef) and cls and n.name == cls:
            for m in n.body:
                if isinstance(m, ast.FunctionDef) and m.name == name:
                    return m
        if isinstance(n, ast.FunctionDef) and n.name == name and not cls:
            return n
    raise Unsupported("function %s not found" % name)


# ---------------------------------------------------------------- the functions
QUIRKS = {"ECN": "qECN", "DF": "qDF", "NZ_ID": "qNZID", "ZERO_ID": "qZID", "NZ_MBZ": "qMBZ", "FLOW": "qFLOW", "ZERO_SEQ": "qZSEQ", "NZ_ACK": "qNZACK",
          "ZERO_ACK": "qZACK", "NZ_URG": "qNZURG", "URG": "qURG", "PUSH": "qPUSH", "OPT_ZERO_TS1": "qZTS1", "OPT_NZ_TS2": "qNZTS2", "OPT_EOL_NZ": "qEOLNZ",
          "OPT_EXWS": "qEXWS", "OPT_BAD": "qBAD"}


def common_consts(repo):
    """Numeric constants are read from the source too (fail-closed if they are not literal)."""
    c = {"WILDCARD": ("(-1)", "Z"), "None": ("None", "OPT")}
    ip = ast.parse(open(os.path.join(repo, "pyp0f/net/layers/ip.py")).read())
    tcp = ast.parse(open(os.path.join(repo, "pyp0f/net/layers/tcp/tcp.py")).read())
    wc = ast.parse(open(os.path.join(repo, "pyp0f/database/parse/wildcard.py")).read())
    vals = {}
    for tree in (ip, tcp, wc):
        for n in tree.body:
            if isinstance(n, ast.Assign) and isinstance(n.targets[0], ast.Name):
                try:
                    vals[n.targets[0].id] = eval(compile(ast.Expression(n.value), "<const>", "eval"), {"__builtins__": {}}, dict(vals))
                except Exception:
                    pass
    for k in ("IPV4", "IPV6", "MIN_TCP4", "MIN_TCP6", "WILDCARD"):
        if not isinstance(vals.get(k), int):
            raise Unsupported("constant %s is not a literal integer" % k)
        c[k] = ("(%d)" % vals[k], "Z")
    quirks = ast.parse(open(os.path.join(repo, "pyp0f/net/quirks.py")).read())
    order = []
    for n in ast.walk(quirks):
        if isinstance(n, ast.ClassDef) and n.name == "Quirk":
            for m in n.body:
                if isinstance(m, ast.Assign) and isinstance(m.value, ast.Call) and dotted(m.value.func) == "auto":
                    order.append(m.targets[0].id)
                elif isinstance(m, ast.Assign):
                    raise Unsupported("Quirk member %s is not auto()" % ast.unparse(m))
    if order != list(QUIRKS):
        raise Unsupported("Quirk enum members/order changed: %s" % order)
    for k, v in QUIRKS.items():
        c["Quirk." + k] = ("(mask_of [%s])" % v, "N")
    for k, v in (("EXACT", "Exact"), ("FUZZY_TTL", "FuzzyTTL"), ("FUZZY_QUIRKS", "FuzzyQuirks")):
        c["TCPMatchType." + k] = (v, "MT")
    for k, v in (("NORMAL", "WNormal"), ("ANY", "WAny"), ("MOD", "WMod"), ("MSS", "WMss"), ("MTU", "WMtu")):
        c["WindowType." + k] = (v, "W")
    flags = ast.parse(open(os.path.join(repo, "pyp0f/net/layers/tcp/flags.py")).read())
    for n in ast.walk(flags):
        if isinstance(n, ast.ClassDef) and n.name == "TCPFlag":
            for m in n.body:
                if isinstance(m, ast.Assign) and isinstance(m.value, ast.Constant):
                    c["TCPFlag." + m.targets[0].id] = ("(%d)" % m.value.value, "Z")
    return c


def gen_match(repo, consts):
    src = open(os.path.join(repo, "pyp0f/fingerprint/tcp.py")).read()
    f = find_function(ast.parse(src), "tcp_signatures_match")
    if [a.arg for a in f.args.args] != ["signature", "packet_signature", "options"]:
        raise Unsupported("tcp_signatures_match parameters changed")
    table = {
        "signature.options.layout": ("(s_layout s)", "L"), "packet_signature.options.layout": ("(p_layout p)", "L"),
        "signature.quirks": ("(s_quirks s)", "N"), "packet_signature.quirks": ("(p_quirks p)", "N"),
        "signature.ip_version": ("(s_ver s)", "Z"), "packet_signature.ip_version": ("(p_ver p)", "Z"),
        "signature.options.eol_padding_length": ("(s_eol_pad s)", "Z"), "packet_signature.options.eol_padding_length": ("(p_eol_pad p)", "Z"),
        "signature.ip_options_length": ("(s_olen s)", "Z"), "packet_signature.ip_options_length": ("(p_olen p)", "Z"),
        "signature.is_bad_ttl": ("(s_bad_ttl s)", "B"), "signature.ttl": ("(s_ttl s)", "Z"), "packet_signature.ttl": ("(p_ttl p)", "Z"),
        "options.max_dist": ("md", "Z"),
        "signature.options.mss": ("(s_mss s)", "Z"), "packet_signature.options.mss": ("(p_mss p)", "Z"),
        "signature.window.scale": ("(s_wscale s)", "Z"), "packet_signature.options.window_scale": ("(p_ws p)", "Z"),
        "signature.payload_class": ("(s_pay s)", "Z"), "packet_signature.has_payload": ("(b2z (p_payload p))", "Z"),
        "signature.window.type": ("(s_wtype s)", "W"), "signature.window.size": ("(s_wsize s)", "Z"),
        "packet_signature.window_size": ("(p_win p)", "Z"),
        "packet_signature.window_multiplier.is_mtu": ("(snd (gen_win_multi p))", "B"),
        "packet_signature.window_multiplier.value": ("(fst (gen_win_multi p))", "Z"),
    }
    env = Env(table, consts)

    def ret(v, env):
        if v is None or (isinstance(v, ast.Constant) and v.value is None):
            return "None"
        t, ty = expr(v, env)
        if ty != "MT":
            fail(v, "return of a non match type")
        return "(Some %s)" % t
    return "Definition gen_tcp_signatures_match (md : Z) (s : tcp_sig) (p : pkt_sig) : option mtype :=\n %s." % block(f.body, env, ret)


def gen_win_multi(repo, consts):
    src = open(os.path.join(repo, "pyp0f/net/signatures/tcp.py")).read()
    f = find_function(ast.parse(src), "calculate_window_multiplier", cls="TCPPacketSignature")
    table = {"self.window_size": ("(p_win p)", "Z"), "self.options.mss": ("(p_mss p)", "Z"), "self.options.timestamp": ("(p_ts1 p)", "Z"),
             "self.ip_version": ("(p_ver p)", "Z"), "self.headers_length": ("(p_hdrlen p)", "Z"), "self.syn_mss": ("(p_syn_mss p)", "Z")}
    env = Env(table, consts)
    body = [s for s in f.body if not (isinstance(s, ast.Expr) and isinstance(s.value, ast.Constant))]

    def wm(call):
        if not (isinstance(call, ast.Call) and dotted(call.func) == "WindowMultiplier"):
            fail(call, "expected WindowMultiplier(...)")
        args = list(call.args) + [k.value for k in call.keywords]
        if len(args) != 2 or any(k.arg != "is_mtu" for k in call.keywords):
            fail(call, "WindowMultiplier arguments")
        v, tv = expr(args[0], env)
        if isinstance(args[1], ast.Name):
            m = args[1].id
        else:
            m, tm = expr(args[1], env)
        return "(%s, %s)" % (v, m)
    # 1. guard
    g = body[0]
    if not (isinstance(g, ast.If) and len(g.body) == 1 and isinstance(g.body[0], ast.Return) and not g.orelse):
        fail(g, "expected the initial guard")
    guard, none_val = truthy(g.test, env), wm(g.body[0].value)
    # 2. divs = [] ; def add_div ; add_div calls ; for loop ; return
    i = 1
    if not (isinstance(body[i], (ast.Assign, ast.AnnAssign)) and ast.unparse(body[i].value) == "[]"):
        fail(body[i], "expected divs = []")
    lst = (body[i].targets[0] if isinstance(body[i], ast.Assign) else body[i].target).id
    i += 1
    d = body[i]
    if not (isinstance(d, ast.FunctionDef) and d.name == "add_div" and len(d.body) == 1 and
            ast.unparse(d.body[0]) == "%s.append((div, use_mtu))" % lst and [a.arg for a in d.args.args] == ["div", "use_mtu"]
            and len(d.args.defaults) == 1 and ast.unparse(d.args.defaults[0]) == "False"):
        fail(d, "expected def add_div(div, use_mtu=False): divs.append((div, use_mtu))")
    i += 1
    pieces = []

    def add(call):
        if not (isinstance(call, ast.Expr) and isinstance(call.value, ast.Call) and dotted(call.value.func) == "add_div"):
            fail(call, "expected add_div(...)")
        c = call.value
        if len(c.args) != 1 or any(k.arg != "use_mtu" for k in c.keywords) or len(c.keywords) > 1:
            fail(call, "add_div arguments")
        v, tv = expr(c.args[0], env)
        if tv != "Z":
            fail(call, "divisor type")
        m = "false"
        if c.keywords:
            m, tm = expr(c.keywords[0].value, env)
        return "(%s, %s)" % (v, m)
    while i < len(body) and not isinstance(body[i], ast.For):
        s = body[i]
        if isinstance(s, ast.If):
            if s.orelse:
                fail(s, "else branch in the divisor list")
            pieces.append("(if %s then [%s] else [])" % (truthy(s.test, env), "; ".join(add(x) for x in s.body)))
        else:
            pieces.append("[%s]" % add(s))
        i += 1
    loop = body[i]
    want = "for div, use_mtu in %s:\n    if div and (not self.window_size %% div):\n        return WindowMultiplier(self.window_size // div, use_mtu)" % lst
    if ast.unparse(loop) != want:
        fail(loop, "the search loop is not 'first divisor that is non-zero and divides the window'")
    final = body[i + 1]
    if not (isinstance(final, ast.Return) and i + 2 == len(body)) or wm(final.value) != none_val:
        fail(final, "final return")
    return ("Definition gen_divisors (p : pkt_sig) : list (Z * bool) :=\n  %s.\n"
            "Definition gen_win_multi (p : pkt_sig) : Z * bool :=\n  if %s then %s else\n"
            "  match find (fun d => negb (Z.eqb (fst d) 0) && negb (negb (Z.eqb (Z.modulo (p_win p) (fst d)) 0))) (gen_divisors p) with\n"
            "  | Some (d, m) => (Z.div (p_win p) d, m)\n  | None => %s\n  end.") % ("\n  ++ ".join(pieces), guard, none_val, none_val)


def gen_round(repo, consts):
    src = open(os.path.join(repo, "pyp0f/fingerprint/results/uptime.py")).read()
    f = find_function(ast.parse(src), "round_frequency")
    body = [s for s in f.body if not (isinstance(s, ast.Expr) and isinstance(s.value, ast.Constant))]
    first = body[0]
    if ast.unparse(first) != "frequency = int(raw_frequency)":
        fail(first, "expected frequency = int(raw_frequency)")
    env = Env({}, consts)
    env.locals["frequency"] = "Z"

    def ret(v, env):
        t, ty = expr(v, env)
        if ty != "Z":
            fail(v, "return type")
        return t
    return "(* the argument is int(raw_frequency): truncation of the float is modelled in Model/Uptime.v as Z.quot *)\nDefinition gen_round_frequency (frequency : Z) : Z :=\n %s." % block(body[1:], env, ret)


def gen_guess(repo, consts):
    src = open(os.path.join(repo, "pyp0f/fingerprint/results/tcp.py")).read()
    f = find_function(ast.parse(src), "guess_distance")
    body = [s for s in f.body if not (isinstance(s, ast.Expr) and isinstance(s.value, ast.Constant))]
    if len(body) != 1 or not isinstance(body[0], ast.Return):
        fail(f, "guess_distance body")
    c = body[0].value
    # next((initial_ttl - ttl for initial_ttl in (32, 64, 128) if ttl <= initial_ttl), 255 - ttl)
    if not (isinstance(c, ast.Call) and dotted(c.func) == "next" and len(c.args) == 2 and isinstance(c.args[0], ast.GeneratorExp)):
        fail(c, "expected next(generator, default)")
    g = c.args[0]
    if len(g.generators) != 1 or len(g.generators[0].ifs) != 1 or not isinstance(g.generators[0].iter, ast.Tuple):
        fail(g, "generator shape")
    var = g.generators[0].target.id
    env = Env({}, consts)
    env.locals["ttl"] = "Z"
    env.locals[var] = "Z"
    default, td = expr(c.args[1], env)
    out = default
    for v in reversed(g.generators[0].iter.elts):
        if not (isinstance(v, ast.Constant) and isinstance(v.value, int)):
            fail(v, "initial TTL list")
        cond = truthy(g.generators[0].ifs[0], env)
        val, tv = expr(g.elt, env)
        out = "(let %s := (%d) in if %s then %s else %s)" % (var, v.value, cond, val, out)
    return "Definition gen_guess_distance (ttl : Z) : Z :=\n %s." % out


def gen_gates(repo, consts):
    src = open(os.path.join(repo, "pyp0f/net/packet.py")).read()
    f = find_function(ast.parse(src), "should_fingerprint", cls="Packet")
    body = [s for s in f.body if not (isinstance(s, ast.Expr) and isinstance(s.value, ast.Constant))]
    if len(body) != 1 or not isinstance(body[0], ast.Return):
        fail(f, "should_fingerprint body")
    table = {"self.ip.is_fragment": ("frag", "B"), "self.tcp.type": ("ty", "Z")}
    env = Env(table, consts)

    def e2(e):
        # (TCPFlag.A | TCPFlag.B) not in self.tcp.type  ->  negb (has_all ty (a + b))
        if isinstance(e, ast.Compare) and isinstance(e.ops[0], (ast.NotIn, ast.In)) and dotted(e.comparators[0]) == "self.tcp.type":
            l = e.left
            if not (isinstance(l, ast.BinOp) and isinstance(l.op, ast.BitOr)):
                fail(e, "flag combination")
            a, _ = expr(l.left, env)
            b, _ = expr(l.right, env)
            t = "(has_all ty (%s + %s))" % (a, b)
            return t if isinstance(e.ops[0], ast.In) else "(negb %s)" % t
        return truthy(e, env)
    r = body[0].value
    if not (isinstance(r, ast.BoolOp) and isinstance(r.op, ast.And)):
        fail(r, "should_fingerprint expression")
    return "Definition gen_should_fingerprint (frag : bool) (ty : Z) : bool :=\n  %s." % " && ".join(e2(v) for v in r.values)


VALID_TABLE = {"packet.should_fingerprint": ("(gen_should_fingerprint frag ty)", "B"), "packet.tcp.type": ("ty", "Z"),
               "packet.tcp.options.mss": ("mss", "Z")}
VALID_FNS = {"tcp": ("pyp0f/fingerprint/tcp.py", "valid_for_tcp_fingerprint", "(frag : bool) (ty : Z)"),
             "mtu": ("pyp0f/fingerprint/mtu.py", "valid_for_mtu_fingerprint", "(frag : bool) (ty mss : Z)"),
             "uptime": ("pyp0f/fingerprint/uptime.py", "valid_for_uptime_fingerprint", "(frag : bool) (ty : Z)")}


def gen_valid_for(repo, consts, which):
    path, fn, args = VALID_FNS[which]
    f = find_function(ast.parse(open(os.path.join(repo, path)).read()), fn)
    body = [s for s in f.body if not (isinstance(s, ast.Expr) and isinstance(s.value, ast.Constant))]
    if len(body) != 1 or not isinstance(body[0], ast.Return) or [a.arg for a in f.args.args] != ["packet"]:
        fail(f, "%s shape" % fn)
    env = Env(VALID_TABLE, consts)
    return "Definition gen_%s %s : bool :=\n  %s." % (fn, args, truthy(body[0].value, env))


def gen_mtu_sig(repo, consts):
    out = []
    # MTUPacketSignature.from_mss
    f = find_function(ast.parse(open(os.path.join(repo, "pyp0f/net/signatures/mtu.py")).read()), "from_mss", cls="MTUPacketSignature")
    body = [s for s in f.body if not (isinstance(s, ast.Expr) and isinstance(s.value, ast.Constant))]
    if not (len(body) == 2 and isinstance(body[0], ast.If) and len(body[0].body) == 1 and isinstance(body[0].body[0], ast.Raise) and not body[0].orelse
            and dotted(body[0].body[0].exc.func) == "PacketError" and isinstance(body[1], ast.Return)
            and isinstance(body[1].value, ast.Call) and dotted(body[1].value.func) == "cls" and len(body[1].value.args) == 1):
        fail(f, "from_mss shape")
    env = Env({}, consts)
    env.locals["mss"] = "Z"
    env.locals["ip_version"] = "Z"
    v, tv = expr(body[1].value.args[0], env)
    out.append("Definition gen_mtu_from_mss (mss ip_version : Z) : option Z :=\n  if %s then None (* raise PacketError *) else Some %s." % (truthy(body[0].test, env), v))
    # mtu_signatures_match
    f = find_function(ast.parse(open(os.path.join(repo, "pyp0f/fingerprint/mtu.py")).read()), "mtu_signatures_match")
    body = [s for s in f.body if not (isinstance(s, ast.Expr) and isinstance(s.value, ast.Constant))]
    env = Env({"signature.mtu": ("sig_mtu", "Z"), "packet_signature.mtu": ("pkt_mtu", "Z")}, consts)
    if len(body) != 1 or not isinstance(body[0], ast.Return):
        fail(f, "mtu_signatures_match shape")
    out.append("Definition gen_mtu_signatures_match (sig_mtu pkt_mtu : Z) : bool :=\n  %s." % truthy(body[0].value, env))
    return "\n".join(out)


def opt_ret(want):
    def ret(v, env):
        if v is None:
            return "None"
        t, ty = expr(v, env)
        if ty == "NONE":
            return "None"
        if ty == "OPT " + want:
            return t
        if ty == want:
            return "(Some %s)" % t
        fail(v, "return type %s (expected %s)" % (ty, want))
    return ret


def gen_find_tcp(repo, consts):
    out = []
    # find_tcp_match
    f = find_function(ast.parse(open(os.path.join(repo, "pyp0f/fingerprint/tcp.py")).read()), "find_tcp_match")
    calls = {"tcp_signatures_match": (3, lambda a, e: ("(gen_tcp_signatures_match md %s p)" % a[0][0], "OPT MT")),
             "TCPMatch": (2, lambda a, e: ("(%s, %s)" % (a[0][0], a[1][0]), "TMATCH") if (a[0][1], a[1][1]) == ("MT", "TCPREC") else fail(e, "TCPMatch argument types")),
             "options.database.iter_values": (2, lambda a, e: ("recs", "LIST TCPREC"))}
    attrs = {("TCPREC", "signature"): (lambda b: "(r_sig %s)" % b, "SIG"), ("TCPREC", "is_generic"): (lambda b: "(r_generic %s)" % b, "B"),
             ("TMATCH", "record.label.is_user_app"): (lambda b: "(r_userapp (snd %s))" % b, "B")}
    table = {"packet_signature": ("p", "PSIG"), "options": ("md", "OPTIONS"), "TCPRecord": ("tt", "CLS"), "direction": ("tt", "DIR")}
    env = Env(table, consts, calls, attrs)
    out.append("Definition gen_find_tcp_match (md : Z) (recs : list tcp_rec) (p : pkt_sig) : option (mtype * tcp_rec) :=\n %s." % block(f.body, env, opt_ret("TMATCH")))
    return "\n".join(out)


def gen_find_mtu(repo, consts):
    out = []
    # find_mtu_match
    f = find_function(ast.parse(open(os.path.join(repo, "pyp0f/fingerprint/mtu.py")).read()), "find_mtu_match")
    calls = {"mtu_signatures_match": (2, lambda a, e: ("(gen_mtu_signatures_match %s %s)" % (a[0][0], a[1][0]), "B")),
             "database.iter_values": (1, lambda a, e: ("recs", "LIST MTUREC"))}
    attrs = {("MTUREC", "signature"): (lambda b: "(m_mtu %s)" % b, "Z")}
    env = Env({"packet_signature": ("mtu", "Z"), "MTURecord": ("tt", "CLS")}, consts, calls, attrs)
    out.append("Definition gen_find_mtu_match (recs : list mtu_rec) (mtu : Z) : option mtu_rec :=\n %s." % block(f.body, env, opt_ret("MTUREC")))
    return "\n".join(out)


# ---------------------------------------------------------------- impersonate/mtu.py: the rewrite of the Scapy option list
def olist_expr(e, env, loc):
    """Expressions over Scapy's TCP option list [(name, value), ...] -> Gallina over `list topt` (Model/Mtu.v: OMss v | OOther id).
    -> (term, type) with type in OPT, LIST, B; integer sub-expressions go through `expr`."""
    if isinstance(e, ast.Name) and e.id in loc:
        return loc[e.id]
    if dotted(e) == "tcp.options":
        return "opts", "LIST"
    if isinstance(e, ast.Tuple) and len(e.elts) == 2 and isinstance(e.elts[0], ast.Constant) and e.elts[0].value == "MSS":
        v, tv = expr(e.elts[1], env)
        if tv != "Z":
            fail(e, "MSS option value is not an integer")
        return "(OMss %s)" % v, "OPT"
    if isinstance(e, ast.IfExp):
        t, tt = olist_expr(e.test, env, loc)
        a, ta = olist_expr(e.body, env, loc)
        b, tb = olist_expr(e.orelse, env, loc)
        if tt != "B" or ta != tb:
            fail(e, "conditional expression types")
        return "(if %s then %s else %s)" % (t, a, b), ta
    if isinstance(e, ast.UnaryOp) and isinstance(e.op, ast.Not):
        t, tt = olist_expr(e.operand, env, loc)
        if tt != "B":
            fail(e, "not of a non-boolean")
        return "(negb %s)" % t, "B"
    if isinstance(e, ast.Compare) and len(e.ops) == 1:
        l, r, op = e.left, e.comparators[0], e.ops[0]
        # option[0] == "MSS"
        if isinstance(l, ast.Subscript) and isinstance(l.slice, ast.Constant) and l.slice.value == 0 and isinstance(r, ast.Constant) and r.value == "MSS" \
                and isinstance(op, (ast.Eq, ast.NotEq)):
            b, tb = olist_expr(l.value, env, loc)
            if tb != "OPT":
                fail(e, "[0] of a non-option")
            return ("(is_mss %s)" if isinstance(op, ast.Eq) else "(negb (is_mss %s))") % b, "B"
        # dict(<list>).get("MSS") is [not] None      (Scapy never stores None as the value of an MSS option: assumed)
        if isinstance(op, (ast.Is, ast.IsNot)) and isinstance(r, ast.Constant) and r.value is None and isinstance(l, ast.Call) \
                and isinstance(l.func, ast.Attribute) and l.func.attr == "get" and len(l.args) == 1 and not l.keywords \
                and isinstance(l.args[0], ast.Constant) and l.args[0].value == "MSS" and isinstance(l.func.value, ast.Call) \
                and dotted(l.func.value.func) == "dict" and len(l.func.value.args) == 1 and not l.func.value.keywords:
            b, tb = olist_expr(l.func.value.args[0], env, loc)
            if tb != "LIST":
                fail(e, "dict() of a non-list")
            return ("(existsb is_mss %s)" if isinstance(op, ast.IsNot) else "(negb (existsb is_mss %s))") % b, "B"
        fail(e, "comparison")
    if isinstance(e, ast.ListComp) and len(e.generators) == 1 and isinstance(e.generators[0].target, ast.Name) and not e.generators[0].is_async:
        g = e.generators[0]
        src, ts = olist_expr(g.iter, env, loc)
        if ts != "LIST":
            fail(e, "comprehension over a non-list")
        v = g.target.id + "_"
        loc2 = dict(loc)
        loc2[g.target.id] = (v, "OPT")
        for c in g.ifs:
            t, tt = olist_expr(c, env, loc2)
            if tt != "B":
                fail(c, "comprehension filter")
            src = "(filter (fun %s => %s) %s)" % (v, t, src)
        b, tb = olist_expr(e.elt, env, loc2)
        if tb != "OPT":
            fail(e, "comprehension element")
        return "(map (fun %s => %s) %s)" % (v, b, src), "LIST"
    if isinstance(e, ast.List):
        parts = []
        for x in e.elts:
            if isinstance(x, ast.Starred):
                b, tb = olist_expr(x.value, env, loc)
                if tb != "LIST":
                    fail(x, "* of a non-list")
                parts.append(b)
            else:
                b, tb = olist_expr(x, env, loc)
                if tb != "OPT":
                    fail(x, "list element")
                parts.append("[%s]" % b)
        return "(%s)" % " ++ ".join(parts or ["[]"]), "LIST"
    if isinstance(e, ast.BinOp) and isinstance(e.op, ast.Add):
        a, ta = olist_expr(e.left, env, loc)
        b, tb = olist_expr(e.right, env, loc)
        if (ta, tb) != ("LIST", "LIST"):
            fail(e, "+ of non-lists")
        return "(%s ++ %s)" % (a, b), "LIST"
    fail(e, "option-list expression")


def gen_imp_mtu(repo, consts):
    """impersonate/mtu.py: everything after the signature has been chosen - the new MSS value and the rewritten option list."""
    f = find_function(ast.parse(open(os.path.join(repo, "pyp0f/impersonate/mtu.py")).read()), "impersonate")
    body = [s for s in f.body if not (isinstance(s, ast.Expr) and isinstance(s.value, ast.Constant))]
    pre = ["validate_for_impersonation(packet)", "tcp = packet[ScapyTCP]"]
    if [ast.unparse(x) for x in body[:2]] != pre:
        fail(f, "impersonate_mtu prologue")
    sel = body[2]
    want = ("if raw_signature is not None:\n    signature = MTUSignature.parse(raw_signature)\nelse:\n    if raw_label is None:\n"
            "        raise ValueError('raw_label or raw_signature is required to impersonate!')\n"
            "    signature = database.get_random(raw_label, MTURecord).signature")
    if ast.unparse(sel) != want:
        fail(sel, "impersonate_mtu signature selection")
    env = Env({"signature.mtu": ("m", "Z"), "packet.version": ("ver", "Z")}, consts)
    loc, lets, done = {}, [], False
    rest = body[3:]
    if not rest or ast.unparse(rest[-1]) != "return packet":
        fail(f, "impersonate_mtu must return the packet it was given")
    for st in rest[:-1]:
        if done:
            fail(st, "statement after the option list has been assigned")
        if not (isinstance(st, ast.Assign) and len(st.targets) == 1):
            fail(st, "statement")
        t, ty = olist_expr(st.value, env, loc)
        if isinstance(st.targets[0], ast.Name) and st.targets[0].id not in ("packet", "tcp", "signature", "database"):
            v = st.targets[0].id + "_"
            lets.append("let %s := %s in" % (v, t))
            loc[st.targets[0].id] = (v, ty)
        elif dotted(st.targets[0]) == "tcp.options" and ty == "LIST":
            lets.append(t)
            done = True
        else:
            fail(st, "assignment target")
    if not done:
        fail(f, "tcp.options is never assigned")
    return "Definition gen_impersonate_mtu (m ver : Z) (opts : list topt) : list topt :=\n  %s." % "\n  ".join(lets)


def gen_distance_fn(repo, consts):
    out = []
    # TCPResult.__post_init__: the reported distance
    f = find_function(ast.parse(open(os.path.join(repo, "pyp0f/fingerprint/results/tcp.py")).read()), "__post_init__", cls="TCPResult")
    body = [s for s in f.body if not (isinstance(s, ast.Expr) and isinstance(s.value, ast.Constant))]
    if not (len(body) == 1 and isinstance(body[0], ast.Assign) and dotted(body[0].targets[0]) == "self.distance" and isinstance(body[0].value, ast.IfExp)):
        fail(f, "TCPResult.__post_init__ shape")
    ie = body[0].value
    c = ie.test
    if not (isinstance(c, ast.BoolOp) and isinstance(c.op, ast.Or) and len(c.values) == 2 and isinstance(c.values[0], ast.Compare)
            and isinstance(c.values[0].ops[0], ast.Is) and dotted(c.values[0].left) == "self.match"
            and isinstance(c.values[0].comparators[0], ast.Constant) and c.values[0].comparators[0].value is None):
        fail(c, "expected 'self.match is None or ...'")
    calls = {"guess_distance": (1, lambda a, e: ("(gen_guess_distance %s)" % a[0][0], "Z"))}
    attrs = {("TMATCH", "type"): (lambda b: "(fst %s)" % b, "MT"), ("TMATCH", "record.signature.ttl"): (lambda b: "(s_ttl (r_sig (snd %s)))" % b, "Z")}
    env = Env({"self.packet_signature.ttl": ("(p_ttl p)", "Z")}, consts, calls, attrs)
    none_val, tn = expr(ie.body, env)

    class Sub(ast.NodeTransformer):
        def visit_Attribute(self, n):
            if dotted(n) == "self.match":
                return ast.Name(id="the_match", ctx=ast.Load())
            return self.generic_visit(n)
    env.locals["the_match"] = "TMATCH"
    cond2 = truthy(Sub().visit(c.values[1]), env)
    then2, _ = expr(ie.body, env)
    else2, te = expr(Sub().visit(ie.orelse), env)
    if tn != "Z" or te != "Z":
        fail(ie, "distance type")
    out.append("Definition gen_distance (m : option (mtype * tcp_rec)) (p : pkt_sig) : Z :=\n  match m with\n  | None => %s\n  | Some the_match => if %s then %s else %s\n  end."
               % (none_val, cond2, then2, else2))
    return "\n".join(out)


def gen_http(repo, consts):
    out = []
    f = find_function(ast.parse(open(os.path.join(repo, "pyp0f/fingerprint/http.py")).read()), "find_http_match")
    calls = {"http_signatures_match": (2, lambda a, e: ("(rec_matches ver hs %s)" % a[0][0], "B")),
             "database.iter_values": (2, lambda a, e: ("recs", "LIST HTTPREC"))}
    attrs = {("HTTPREC", "signature"): (lambda b: b, "HTTPSIG"), ("HTTPREC", "is_generic"): (lambda b: "(is_generic (rc_label %s))" % b, "B"),
             ("HTTPREC", "signature.expected_software"): (lambda b: "(match http_of %s with Some s => hs_software s | None => None end)" % b, "OPT TEXT")}
    env = Env({"packet_signature": ("tt", "PSIG"), "HTTPRecord": ("tt", "CLS"), "direction": ("tt", "DIR")}, consts, calls, attrs)
    out.append("Definition gen_find_http_match (ver : Z) (hs : list pkt_header) (recs : list rec) : option rec :=\n %s." % block(f.body, env, opt_ret("HTTPREC")))
    # headers_match: the ordered header walk
    f = find_function(ast.parse(open(os.path.join(repo, "pyp0f/fingerprint/http.py")).read()), "headers_match")
    if [a.arg for a in f.args.args] != ["signature_headers", "packet_headers"]:
        fail(f, "headers_match parameters")
    hattrs = {("SHDR", "lower_name"): (lambda b: "(lower (sh_name %s))" % b, "TEXT"), ("SHDR", "is_optional"): (lambda b: "(sh_optional %s)" % b, "B"),
              ("SHDR", "value"): (lambda b: "(sh_value %s)" % b, "OPT TEXT"),
              ("PHDR", "lower_name"): (lambda b: "(lname %s)" % b, "TEXT"), ("PHDR", "value"): (lambda b: "(ph_value %s)" % b, "TEXT")}
    env = Env({"signature_headers": ("sh", "LIST SHDR"), "packet_headers": ("ph", "LIST PHDR")}, consts, {}, hattrs)

    def bret(v, env):
        t, ty = expr(v, env)
        if ty != "B":
            fail(v, "return type")
        return "(Ok %s)" % t
    out.append("Definition gen_default_header : pkt_header := {| ph_name := []; ph_value := [] |}.")
    out.append("Definition gen_headers_match (fuel0 : nat) (sh : list sig_header) (ph : list pkt_header) : res bool :=\n %s." % block(
        [s for s in f.body if not (isinstance(s, ast.Expr) and isinstance(s.value, ast.Constant))], env, bret))
    # HTTP.software
    f = find_function(ast.parse(open(os.path.join(repo, "pyp0f/net/layers/http/http.py")).read()), "software", cls="HTTP")
    body = [s for s in f.body if not (isinstance(s, ast.Expr) and isinstance(s.value, ast.Constant))]
    g = find_function(ast.parse(open(os.path.join(repo, "pyp0f/net/layers/http/http.py")).read()), "_get_header_value", cls="HTTP")
    want = ("lower_name = name.lower()\nreturn next((header.value for header in self.headers if header.lower_name == lower_name), None)")
    if "\n".join(ast.unparse(x) for x in g.body) != want:
        fail(g, "_get_header_value is not 'first header whose lower-case name equals name.lower()'")
    calls = {"self._get_header_value": (1, lambda a, e: ("(header_value (lower %s) hs)" % a[0][0], "OPT TEXT") if a[0][1] == "TEXT" else fail(e, "header name"))}
    env = Env({}, consts, calls, {})
    if len(body) != 1 or not isinstance(body[0], ast.Return):
        fail(f, "software body")
    t, ty = expr(body[0].value, env)
    if ty != "OPT TEXT":
        fail(f, "software type")
    out.append("Definition gen_software (hs : list pkt_header) : option text :=\n  %s." % t)
    # HTTPResult.__post_init__
    f = find_function(ast.parse(open(os.path.join(repo, "pyp0f/fingerprint/results/http.py")).read()), "__post_init__", cls="HTTPResult")
    body = [s for s in f.body if not (isinstance(s, ast.Expr) and isinstance(s.value, ast.Constant))]
    if not (len(body) == 1 and isinstance(body[0], ast.Assign) and dotted(body[0].targets[0]) == "self.dishonest"):
        fail(f, "HTTPResult.__post_init__ shape")
    env = Env({"self.match": ("m", "OPT HTTPREC"), "self.packet_signature.software": ("(gen_software hs)", "OPT TEXT")}, consts, {}, attrs)
    t, ty = expr(body[0].value, env)
    if ty != "B":
        fail(f, "dishonest type")
    out.append("Definition gen_dishonest (m : option rec) (hs : list pkt_header) : bool :=\n  %s." % t)
    out.append(gen_http_sig_match(repo, consts, hattrs))
    return "\n".join(out)


def set_comp(node, env, var_ty, src_name, src_term):
    """{elt for x in <src_name> [if cond]}  ->  map (fun x => elt) (filter (fun x => cond) src)  (a set of byte strings as the list of its members)"""
    if not (isinstance(node, ast.SetComp) and len(node.generators) == 1 and isinstance(node.generators[0].target, ast.Name)
            and dotted(node.generators[0].iter) == src_name and not node.generators[0].is_async):
        fail(node, "set comprehension shape")
    g = node.generators[0]
    v = g.target.id
    saved = dict(env.locals)
    env.locals[v] = var_ty
    src = src_term
    for c in g.ifs:
        src = "(filter (fun %s => %s) %s)" % (v, truthy(c, env), src)
    t, ty = expr(node.elt, env)
    env.locals = saved
    if ty != "TEXT":
        fail(node, "set members are not byte strings")
    return "(map (fun %s => %s) %s)" % (v, t, src)


def gen_http_sig_match(repo, consts, hattrs):
    """http_signatures_match and the two header_names sets it compares (HTTPSignature.__post_init__, HTTPPacketSignature.__post_init__)."""
    out = []

    def post_init(path, cls, var_ty, src_term):
        f = find_function(ast.parse(open(os.path.join(repo, path)).read()), "__post_init__", cls=cls)
        body = [s for s in f.body if not (isinstance(s, ast.Expr) and isinstance(s.value, ast.Constant))]
        if not (len(body) == 1 and isinstance(body[0], ast.Assign) and len(body[0].targets) == 1 and dotted(body[0].targets[0]) == "self.header_names"):
            fail(f, "%s.__post_init__ shape" % cls)
        return set_comp(body[0].value, Env({}, consts, {}, hattrs), var_ty, "self.headers", src_term)
    out.append("Definition gen_sig_header_names (s : http_sig) : list text :=\n  %s." % post_init("pyp0f/database/signatures/http.py", "HTTPSignature", "SHDR", "(hs_headers s)"))
    out.append("Definition gen_pkt_header_names (hs : list pkt_header) : list text :=\n  %s." % post_init("pyp0f/net/signatures/http.py", "HTTPPacketSignature", "PHDR", "hs"))
    f = find_function(ast.parse(open(os.path.join(repo, "pyp0f/fingerprint/http.py")).read()), "http_signatures_match")
    if [a.arg for a in f.args.args] != ["signature", "packet_signature"]:
        fail(f, "http_signatures_match parameters")
    body = [s for s in f.body if not (isinstance(s, ast.Expr) and isinstance(s.value, ast.Constant))]
    if not (len(body) == 2 and isinstance(body[0], ast.Assign) and len(body[0].targets) == 1 and isinstance(body[0].targets[0], ast.Name)
            and dotted(body[0].value) == "packet_signature.header_names" and isinstance(body[1], ast.Return)):
        fail(f, "http_signatures_match shape")
    pk = body[0].targets[0].id
    sets = {"signature.header_names": "(gen_sig_header_names s)", "signature.absent_headers": "(hs_absent s)", pk: "(gen_pkt_header_names hs)"}
    env = Env({"signature.version": ("(hs_version s)", "Z"), "packet_signature.version": ("ver", "Z")}, consts, {}, {})

    def setop(e):
        """X.issubset(Y) / X.intersection(Y) over the three known sets -> (method, X, Y) or None"""
        if isinstance(e, ast.Call) and isinstance(e.func, ast.Attribute) and e.func.attr in ("issubset", "intersection", "isdisjoint") and len(e.args) == 1 and not e.keywords:
            a, b = dotted(e.func.value), dotted(e.args[0])
            if a in sets and b in sets:
                return e.func.attr, sets[a], sets[b]
            fail(e, "set operation on an unknown set")
        return None

    def conj(v):
        so = setop(v)
        if so:
            if so[0] == "issubset":
                return "(gen_subset %s %s)" % so[1:]
            if so[0] == "isdisjoint":
                return "(negb (gen_meets %s %s))" % so[1:]
            return "(gen_meets %s %s)" % so[1:]                 # truthiness of the intersection
        if isinstance(v, ast.UnaryOp) and isinstance(v.op, ast.Not):
            return "(negb %s)" % conj(v.operand)
        return truthy(v, env)
    r = body[1].value
    vals = list(r.values) if isinstance(r, ast.BoolOp) and isinstance(r.op, ast.And) else [r]
    last = vals[-1]
    if not (isinstance(last, ast.Call) and dotted(last.func) == "headers_match" and [dotted(a) for a in last.args] == ["signature.headers", "packet_signature.headers"] and not last.keywords):
        fail(last, "the last conjunct must be headers_match(signature.headers, packet_signature.headers)")
    for v in vals[:-1]:
        for n in ast.walk(v):
            if isinstance(n, ast.Call) and dotted(n.func) == "headers_match":
                fail(v, "headers_match in a non-final position")
    cond = " && ".join(conj(v) for v in vals[:-1]) or "true"
    out.append("Definition gen_http_signatures_match (s : http_sig) (ver : Z) (hs : list pkt_header) : res bool :=\n"
               "  if (%s)\n  then gen_headers_match (S (length hs)) (hs_headers s) hs\n  else (Ok false)." % cond)
    return "\n".join(out)


# ---------------------------------------------------------------- fingerprint_uptime (body) and Uptime.__post_init__
# Types of this section: Z (Python int), B (bool), Q (Python float), NONE, "OPT Z", UPT (an Uptime object).
#
# ASSUMED ABSTRACTION (float = exact rational).  Every float-valued Python expression is rendered as an EXACT rational, a pair
# (num, den) of Z with den <> 0: a float literal is its exact value (float.as_integer_ratio), int * float / float * int multiply the
# numerator, x / y (true division) multiplies the denominator by y (or cross-multiplies when y is a float), int(x) is Z.quot num den
# (truncation towards zero), and comparisons (also mixed int / float) are decided by sign-aware cross-multiplication (gen_q_le /
# gen_q_lt below: correct for either sign of the denominators).  The real code rounds each float operation to binary64; DESIGN C13
# argues, and the harness checks bit-for-bit, that for the thresholds considered rounding cannot flip one of these comparisons.  That
# argument is NOT part of what is proved from the generated term.
# Integers: a // b is Z.div and a % b is Z.modulo (both floor like Python); x & m is Z.land and ~x is Z.lnot (two's complement on
# unbounded integers on both sides, so `x & 0xFFFFFFFF` of a negative x is x mod 2^32: proved in GenP_uptime.v, not assumed here).
# ZeroDivisionError: every /, // and % whose divisor is not a non-zero literal is guarded, `if divisor =? 0 then Err (Crash COther)`,
# at the point where Python evaluates it: a test that contains such an operation is unfolded into the decision tree of and / or / not
# (short-circuit order), so a division that Python never reaches is not guarded either.
UPT_PRELUDE = """From PV Require Import Model.Uptime.
(* Floats as exact rationals (num, den), den <> 0 (ASSUMED abstraction, see translate/py2coq.py and DESIGN C13).
   x <= y and x < y by cross-multiplication, for either sign of the denominators. *)
Definition gen_q_le (x y : Z * Z) : bool :=
  if 0 <? snd x * snd y then fst x * snd y <=? fst y * snd x else fst y * snd x <=? fst x * snd y.
Definition gen_q_lt (x y : Z * Z) : bool :=
  if 0 <? snd x * snd y then fst x * snd y <? fst y * snd x else fst y * snd x <? fst x * snd y.
(* results/uptime.py: the Uptime object (raw_frequency and the three fields __post_init__ computes) and UptimeResult without its packet *)
Record gen_uptime_obj := { gu_raw_frequency : Z * Z; gu_frequency : Z; gu_total_minutes : Z; gu_modulo_days : Z }.
Record gen_uptime_result := { gr_tps : option Z; gr_uptime : option gen_uptime_obj }."""
UPT_PARAMS = {"o", "frag", "ty", "ts", "last", "ms", "timestamp", "raw_frequency"}
ZERO_DIV = "(Err (Crash COther) (* ZeroDivisionError *))"


class UEnv:
    def __init__(self, table, calls=None):
        self.table = dict(table)      # dotted python path -> (value, type); a Q value is a pair (num term, den term)
        self.locals = {}              # python name (possibly self.x) -> type
        self.cnames = {}              # python name -> coq identifier
        self.calls = dict(calls or {})


def u_cname(env, name, node=None):
    c = name.replace(".", "_")
    if c in COQ_RESERVED or c in UPT_PARAMS:
        c += "_"
    for other, oc in env.cnames.items():
        if oc == c and other != name:
            fail(node, "local names %s and %s collide" % (other, name))
    env.cnames[name] = c
    return c


def u_literal_nonzero(e):
    if isinstance(e, ast.Constant) and isinstance(e.value, (int, float)) and not isinstance(e.value, bool):
        return e.value != 0
    if isinstance(e, ast.BinOp) and isinstance(e.op, ast.Mult):
        return u_literal_nonzero(e.left) and u_literal_nonzero(e.right)
    return False


def u_fallible(e):
    """Does evaluating e possibly raise ZeroDivisionError (a /, // or % by something that is not a non-zero literal)?"""
    return any(isinstance(n, ast.BinOp) and isinstance(n.op, (ast.Div, ast.FloorDiv, ast.Mod)) and not u_literal_nonzero(n.right) for n in ast.walk(e))


def u_q(v, ty, node):
    if ty == "Q":
        return v
    if ty == "Z":
        return (v, "1")
    fail(node, "a number is expected, not %s" % ty)


def u_pair(q):
    return "(%s, %s)" % q


def uexpr(e, env):
    """-> (value, type, guards): guards are the Z terms that must be non-zero for the evaluation not to raise ZeroDivisionError"""
    d = dotted(e)
    if d is not None:
        if d in env.locals:
            c, ty = env.cnames[d], env.locals[d]
            return (("(fst %s)" % c, "(snd %s)" % c) if ty == "Q" else c), ty, []
        if d in env.table:
            return env.table[d][0], env.table[d][1], []
        head, _, path = d.rpartition(".")
        if head in env.locals and env.locals[head] == "UPT" and path in ("frequency", "total_minutes", "modulo_days"):
            return "(gu_%s %s)" % (path, env.cnames[head]), "Z", []
        fail(e, "unknown name")
    if isinstance(e, ast.Constant):
        if e.value is None:
            return "None", "NONE", []
        if isinstance(e.value, bool):
            return ("true" if e.value else "false"), "B", []
        if isinstance(e.value, int):
            return "(%d)" % e.value, "Z", []
        if isinstance(e.value, float) and e.value == e.value and abs(e.value) != float("inf"):
            n, dn = e.value.as_integer_ratio()          # the exact value of the literal
            return ("(%d)" % n, "%d" % dn), "Q", []
        fail(e, "constant")
    if isinstance(e, ast.UnaryOp):
        if isinstance(e.op, ast.Not):
            if u_fallible(e.operand):
                fail(e, "fallible operation under 'not' in an expression")
            return "(negb %s)" % utruthy(e.operand, env)[0], "B", []
        v, ty, g = uexpr(e.operand, env)
        if isinstance(e.op, ast.USub) and ty == "Z":
            return "(- %s)" % v, "Z", g
        if isinstance(e.op, ast.USub) and ty == "Q":
            return ("(- %s)" % v[0], v[1]), "Q", g
        if isinstance(e.op, ast.Invert) and ty == "Z":
            return "(Z.lnot %s)" % v, "Z", g
        fail(e, "unary operator on %s" % ty)
    if isinstance(e, ast.BinOp):
        a, ta, ga = uexpr(e.left, env)
        b, tb, gb = uexpr(e.right, env)
        g = ga + gb
        zops = {ast.Add: "Z.add", ast.Sub: "Z.sub", ast.Mult: "Z.mul", ast.BitAnd: "Z.land", ast.BitOr: "Z.lor", ast.BitXor: "Z.lxor"}
        for k, f in zops.items():
            if isinstance(e.op, k) and (ta, tb) == ("Z", "Z"):
                return "(%s %s %s)" % (f, a, b), "Z", g
        if isinstance(e.op, (ast.FloorDiv, ast.Mod)) and (ta, tb) == ("Z", "Z"):
            f = "Z.div" if isinstance(e.op, ast.FloorDiv) else "Z.modulo"
            return "(%s %s %s)" % (f, a, b), "Z", g + ([] if u_literal_nonzero(e.right) else [b])
        if isinstance(e.op, ast.Mult) and {ta, tb} <= {"Z", "Q"}:
            if ta == "Z":
                return ("(Z.mul %s %s)" % (a, b[0]), b[1]), "Q", g
            if tb == "Z":
                return ("(Z.mul %s %s)" % (a[0], b), a[1]), "Q", g
            return ("(Z.mul %s %s)" % (a[0], b[0]), "(Z.mul %s %s)" % (a[1], b[1])), "Q", g
        if isinstance(e.op, ast.Div) and {ta, tb} <= {"Z", "Q"}:
            nz = [] if u_literal_nonzero(e.right) else [b if tb == "Z" else b[0]]
            if (ta, tb) == ("Z", "Z"):
                return (a, b), "Q", g + nz
            if tb == "Z":
                return (a[0], "(Z.mul %s %s)" % (a[1], b)), "Q", g + nz
            qa = u_q(a, ta, e)
            return ("(Z.mul %s %s)" % (qa[0], b[1]), "(Z.mul %s %s)" % (qa[1], b[0])), "Q", g + nz
        fail(e, "binary operator on %s and %s" % (ta, tb))
    if isinstance(e, ast.BoolOp):
        if u_fallible(e):
            fail(e, "fallible operation under and/or in an expression")
        parts = [utruthy(v, env)[0] for v in e.values]
        return "(" + (" && " if isinstance(e.op, ast.And) else " || ").join(parts) + ")", "B", []
    if isinstance(e, ast.Compare):
        if len(e.ops) > 1 and any(u_fallible(c) for c in e.comparators[1:]):
            fail(e, "fallible operation in the tail of a chained comparison")
        operands = [uexpr(x, env) for x in [e.left] + list(e.comparators)]
        g = [x for o in operands for x in o[2]]
        parts = []
        for op, (a, ta, _), (b, tb, _) in zip(e.ops, operands, operands[1:]):
            if isinstance(op, (ast.Eq, ast.NotEq)):
                if (ta, tb) != ("Z", "Z"):
                    fail(e, "equality between %s and %s" % (ta, tb))
                parts.append(("(Z.eqb %s %s)" if isinstance(op, ast.Eq) else "(negb (Z.eqb %s %s))") % (a, b))
            elif isinstance(op, (ast.Lt, ast.LtE, ast.Gt, ast.GtE)):
                if (ta, tb) == ("Z", "Z"):
                    parts.append("(%s %s %s)" % (a, {ast.Lt: "<?", ast.LtE: "<=?", ast.Gt: ">?", ast.GtE: ">=?"}[type(op)], b))
                else:
                    qa, qb = u_pair(u_q(a, ta, e)), u_pair(u_q(b, tb, e))
                    if isinstance(op, (ast.Gt, ast.GtE)):
                        qa, qb = qb, qa
                    parts.append("(%s %s %s)" % ("gen_q_lt" if isinstance(op, (ast.Lt, ast.Gt)) else "gen_q_le", qa, qb))
            else:
                fail(e, "comparison operator")
        return (parts[0] if len(parts) == 1 else "(" + " && ".join(parts) + ")"), "B", g
    if isinstance(e, ast.IfExp):
        if u_fallible(e):
            fail(e, "fallible operation in a conditional expression")
        c = utruthy(e.test, env)[0]
        a, ta, _ = uexpr(e.body, env)
        b, tb, _ = uexpr(e.orelse, env)
        if (ta, tb) == ("Z", "NONE"):
            a, ta, tb = "(Some %s)" % a, "OPT Z", "OPT Z"
        if (ta, tb) == ("NONE", "Z"):
            b, ta, tb = "(Some %s)" % b, "OPT Z", "OPT Z"
        if ta != tb or ta == "Q":
            fail(e, "branches of type %s and %s" % (ta, tb))
        return "(if %s then %s else %s)" % (c, a, b), ta, []
    if isinstance(e, ast.Call):
        fn = dotted(e.func)
        if fn in env.calls and not e.keywords and len(e.args) == env.calls[fn][0]:
            args = [uexpr(a, env) for a in e.args]
            v, ty = env.calls[fn][1](args, e)
            return v, ty, [x for a in args for x in a[2]]
        fail(e, "call")
    fail(e, "expression")


def utruthy(e, env):
    v, ty, g = uexpr(e, env)
    if ty == "B":
        return v, g
    if ty == "Z":
        return "(negb (Z.eqb %s 0))" % v, g
    fail(e, "truthiness of %s" % ty)


def u_guard(guards, term):
    for gd in reversed(guards):
        term = "(if (Z.eqb %s 0) then %s else\n %s)" % (gd, ZERO_DIV, term)
    return term


def ucond(e, env, kt, kf):
    """`if e: kt else: kf`; a test that can raise is unfolded into its short-circuit decision tree"""
    if u_fallible(e):
        if isinstance(e, ast.UnaryOp) and isinstance(e.op, ast.Not):
            return ucond(e.operand, env, kf, kt)
        if isinstance(e, ast.BoolOp):
            term = kf if isinstance(e.op, ast.Or) else kt
            for v in reversed(e.values):
                term = ucond(v, env, kt, term) if isinstance(e.op, ast.Or) else ucond(v, env, term, kf)
            return term
    t, g = utruthy(e, env)
    return u_guard(g, "(if %s\n then %s\n else %s)" % (t, kt, kf))


def u_ends(stmts):
    for s in stmts:
        if isinstance(s, (ast.Return, ast.Raise)):
            return True
        if isinstance(s, ast.If) and s.orelse and u_ends(s.body) and u_ends(s.orelse):
            return True
    return False


def ublock(stmts, env, ret, fall=None, special=None):
    if not stmts:
        if fall is None:
            fail(None, "control reaches the end of the function without return")
        return fall(env)
    s, rest = stmts[0], stmts[1:]
    if isinstance(s, ast.Expr) and isinstance(s.value, ast.Constant) and isinstance(s.value.value, str):
        return ublock(rest, env, ret, fall, special)
    if isinstance(s, ast.Return):
        return ret(s.value, env)
    if isinstance(s, ast.Raise):
        if isinstance(s.exc, ast.Call) and dotted(s.exc.func) == "PacketError" and s.cause is None:
            return "(Err PacketError)"
        fail(s, "raise")
    if isinstance(s, ast.If):
        saved, saved_c = dict(env.locals), dict(env.cnames)
        a = ublock(list(s.body) + ([] if u_ends(s.body) else rest), env, ret, fall, special)
        env.locals, env.cnames = dict(saved), dict(saved_c)
        b = ublock(list(s.orelse) + ([] if (s.orelse and u_ends(s.orelse)) else rest), env, ret, fall, special)
        env.locals, env.cnames = saved, saved_c
        return ucond(s.test, env, a, b)
    if isinstance(s, ast.Assign) and len(s.targets) == 1 and dotted(s.targets[0]) is not None:
        name = dotted(s.targets[0])
        if isinstance(s.targets[0], ast.Attribute) and not (name.startswith("self.") and name in getattr(env, "fields", ())):
            fail(s, "assignment target")
        if special is not None:
            r = special(s, env)
            if r is not None:
                pre, ty = r
                env.locals[name] = ty
                c = u_cname(env, name, s)
                return pre % (c, ublock(rest, env, ret, fall, special))
        v, ty, g = uexpr(s.value, env)
        if ty not in ("Z", "Q", "B"):
            fail(s, "assignment of a %s" % ty)
        env.locals[name] = ty
        c = u_cname(env, name, s)
        return u_guard(g, "(let %s := %s in\n %s)" % (c, u_pair(v) if ty == "Q" else v, ublock(rest, env, ret, fall, special)))
    fail(s, "statement")


def class_fields(tree, cls):
    for n in ast.walk(tree):
        if isinstance(n, ast.ClassDef) and n.name == cls:
            return [(m.target.id, ast.unparse(m.annotation), None if m.value is None else ast.unparse(m.value)) for m in n.body if isinstance(m, ast.AnnAssign)]
    raise Unsupported("class %s not found" % cls)


def gen_uptime_body(repo, consts):
    out = [UPT_PRELUDE]
    rtree = ast.parse(open(os.path.join(repo, "pyp0f/fingerprint/results/uptime.py")).read())
    # ---- the shapes of the two result classes and BAD_TPS
    if class_fields(rtree, "Uptime") != [("timestamp", "InitVar[int]", None), ("raw_frequency", "float", None), ("frequency", "int", "field(init=False)"),
                                        ("total_minutes", "int", "field(init=False)"), ("modulo_days", "int", "field(init=False)")]:
        raise Unsupported("fields of Uptime changed")
    if class_fields(rtree, "UptimeResult") != [("packet", "Packet", None), ("tps", "Optional[int]", "None"), ("uptime", "Optional[Uptime]", "None")]:
        raise Unsupported("fields of UptimeResult changed")
    bad = [n for n in rtree.body if isinstance(n, ast.Assign) and dotted(n.targets[0]) == "BAD_TPS"]
    if len(bad) != 1 or not (isinstance(bad[0].value, (ast.Constant, ast.UnaryOp))):
        raise Unsupported("BAD_TPS is not a literal")
    bad_tps, tb, _ = uexpr(bad[0].value, UEnv({}))
    if tb != "Z":
        fail(bad[0], "BAD_TPS is not an integer")
    otree = ast.parse(open(os.path.join(repo, "pyp0f/options.py")).read())
    ofields = {k: t for k, t, _ in class_fields(otree, "Options")}
    for k, t in (("min_timestamp_scale", "float"), ("max_timestamp_scale", "float"), ("min_timestamp_wait", "int"), ("max_timestamp_wait", "int"), ("timestamp_grace", "int")):
        if ofields.get(k) != t:
            raise Unsupported("Options.%s is not declared %s" % (k, t))
    # ---- Uptime.__post_init__
    f = find_function(rtree, "__post_init__", cls="Uptime")
    if [a.arg for a in f.args.args] != ["self", "timestamp"] or f.args.kwonlyargs or f.args.vararg or f.args.kwarg or f.args.defaults:
        fail(f, "Uptime.__post_init__ parameters")
    find_function(rtree, "round_frequency")
    calls = {"round_frequency": (1, lambda a, e: ("(gen_round_frequency (Z.quot %s %s))" % a[0][0], "Z") if a[0][1] == "Q" else fail(e, "round_frequency of a non-float")),
             "int": (1, lambda a, e: ("(Z.quot %s %s)" % a[0][0], "Z") if a[0][1] == "Q" else (a[0][0], "Z") if a[0][1] == "Z" else fail(e, "int()"))}
    env = UEnv({"timestamp": ("timestamp", "Z"), "self.raw_frequency": (("(fst raw_frequency)", "(snd raw_frequency)"), "Q")}, calls)
    env.fields = ("self.frequency", "self.total_minutes", "self.modulo_days")

    def no_ret(v, env):
        if v is not None:
            fail(v, "__post_init__ returns a value")
        return done(env)

    def done(env):
        for k in env.fields:
            if env.locals.get(k) != "Z":
                raise Unsupported("Uptime.__post_init__ does not assign %s (an int)" % k)
        return "(Ok {| gu_raw_frequency := raw_frequency; gu_frequency := %s; gu_total_minutes := %s; gu_modulo_days := %s |})" % tuple(env.cnames[k] for k in env.fields)
    out.append("Definition gen_uptime_post_init (timestamp : Z) (raw_frequency : Z * Z) : res gen_uptime_obj :=\n %s." % ublock(list(f.body), env, no_ret, done))
    # ---- fingerprint_uptime, after packet = parse_packet(packet)
    f = find_function(ast.parse(open(os.path.join(repo, "pyp0f/fingerprint/uptime.py")).read()), "fingerprint_uptime")
    a = f.args
    if [x.arg for x in a.args] != ["packet", "last_packet_signature"] or [x.arg for x in a.kwonlyargs] != ["options"] or a.vararg or a.kwarg or a.defaults \
            or [ast.unparse(x) for x in a.kw_defaults] != ["OPTIONS"]:
        fail(f, "fingerprint_uptime parameters")
    body = [s for s in f.body if not (isinstance(s, ast.Expr) and isinstance(s.value, ast.Constant))]
    if not body or ast.unparse(body[0]) != "packet = parse_packet(packet)":
        fail(f, "fingerprint_uptime prologue")
    table = {"packet.tcp.options.timestamp": ("ts", "Z"), "last_packet_signature.options.timestamp": ("last", "Z"), "packet.tcp.type": ("ty", "Z"),
             "TCPFlag.SYN": consts["TCPFlag.SYN"], "TCPFlag.ACK": consts["TCPFlag.ACK"], "BAD_TPS": (bad_tps, "Z"),
             "options.min_timestamp_wait": ("(min_wait o)", "Z"), "options.max_timestamp_wait": ("(max_wait o)", "Z"), "options.timestamp_grace": ("(grace o)", "Z"),
             "options.min_timestamp_scale": (("(fst (min_sc o))", "(snd (min_sc o))"), "Q"), "options.max_timestamp_scale": (("(fst (max_sc o))", "(snd (max_sc o))"), "Q")}
    calls = {"valid_for_uptime_fingerprint": (1, lambda a, e: ("(gen_valid_for_uptime_fingerprint frag ty)", "B") if dotted(e.args[0]) == "packet" else fail(e, "argument"))}
    env = UEnv(table, calls)
    env.table["packet"] = ("tt", "PACKET")

    def special(s, env):
        if ast.unparse(s.value).startswith("get_unix_time_ms()") or dotted(s.targets[0]) == "ms_diff":
            # the clock: the elapsed time is an INPUT of the generated function
            if ast.unparse(s) != "ms_diff = get_unix_time_ms() - last_packet_signature.received":
                fail(s, "the elapsed time is not 'get_unix_time_ms() - last_packet_signature.received'")
            return "(let %s := ms in\n %s)", "Z"
        if isinstance(s.value, ast.Call) and dotted(s.value.func) == "Uptime":
            c = s.value
            if len(c.args) != 2 or c.keywords:
                fail(s, "Uptime(...) arguments")
            (t, tt, gt), (r, tr, gr) = uexpr(c.args[0], env), uexpr(c.args[1], env)
            if (tt, tr) != ("Z", "Q") or gt or gr:
                fail(s, "Uptime(timestamp: int, raw_frequency: float)")
            return "(match gen_uptime_post_init %s %s with\n | Err e => Err e\n | Ok %%s =>\n %%s\n end)" % (t, u_pair(r)), "UPT"
        return None

    def ret(v, env):
        if not (isinstance(v, ast.Call) and dotted(v.func) == "UptimeResult" and len(v.args) == 1 and dotted(v.args[0]) == "packet"
                and "packet" not in env.locals and len({k.arg for k in v.keywords}) == len(v.keywords) and {k.arg for k in v.keywords} <= {"tps", "uptime"}):
            fail(v, "expected return UptimeResult(packet[, tps=...][, uptime=...])")
        kw = {k.arg: uexpr(k.value, env) for k in v.keywords}
        tps, tt, g1 = kw.get("tps", ("None", "NONE", []))
        up, tu, g2 = kw.get("uptime", ("None", "NONE", []))
        tps = {"Z": "(Some %s)" % tps, "OPT Z": tps, "NONE": "None"}.get(tt) or fail(v, "tps of type %s" % tt)
        up = {"UPT": "(Some %s)" % up, "NONE": "None"}.get(tu) or fail(v, "uptime of type %s" % tu)
        return u_guard(g1 + g2, "(Ok {| gr_tps := %s; gr_uptime := %s |})" % (tps, up))
    out.append("Definition gen_fingerprint_uptime (o : uopts) (frag : bool) (ty ts last ms : Z) : res gen_uptime_result :=\n %s." % ublock(body[1:], env, ret, None, special))
    return "\n".join(out)


# ---------------------------------------------------------------- the public wrappers fingerprint_tcp / fingerprint_mtu / fingerprint_http
def wrapper_body(repo, path, fn):
    f = find_function(ast.parse(open(os.path.join(repo, path)).read()), fn)
    return f, [s for s in f.body if not (isinstance(s, ast.Expr) and isinstance(s.value, ast.Constant))]


def is_raise_packet_error(st):
    return (isinstance(st, ast.If) and not st.orelse and len(st.body) == 1 and isinstance(st.body[0], ast.Raise) and isinstance(st.body[0].exc, ast.Call)
            and dotted(st.body[0].exc.func) == "PacketError")


def gen_fp_tcp_wrapper(repo, consts):
    """fingerprint_tcp: gate, choice of the direction (= of the database section), result.  Glue statements are checked literally."""
    f, body = wrapper_body(repo, "pyp0f/fingerprint/tcp.py", "fingerprint_tcp")
    if len(body) != 5 or ast.unparse(body[0]) != "packet = parse_packet(packet)" or not is_raise_packet_error(body[1]) \
            or ast.unparse(body[1].test) != "not valid_for_tcp_fingerprint(packet)" \
            or not (isinstance(body[2], ast.Assign) and dotted(body[2].targets[0]) == "direction") \
            or ast.unparse(body[3]) != "packet_signature = TCPPacketSignature.from_packet(packet, syn_mss)" \
            or ast.unparse(body[4]) != "return TCPResult(packet, packet_signature, find_tcp_match(packet_signature, direction, options))":
        fail(f, "fingerprint_tcp shape")
    env = Env({"packet.tcp.type": ("ty", "Z"), "Direction.CLIENT_TO_SERVER": ("Req", "DIR"), "Direction.SERVER_TO_CLIENT": ("Resp", "DIR")}, consts)
    d, td = expr(body[2].value, env)
    if td != "DIR":
        fail(body[2], "direction is not a Direction")
    return ("Definition gen_fingerprint_tcp (md : Z) (db : tcp_db) (frag : bool) (ty : Z) (p : pkt_sig) : res (option (mtype * tcp_rec) * Z) :=\n"
            "  if negb (gen_valid_for_tcp_fingerprint frag ty) then Err PacketError else\n"
            "  let direction := %s in\n"
            "  match (match direction with Req => db_req db | Resp => db_resp db end) with   (* database.iter_values(TCPRecord, direction) *)\n"
            "  | None => Err DatabaseError\n"
            "  | Some recs => let m := gen_find_tcp_match md recs p in Ok (m, gen_distance m p)\n  end." % d)


def gen_fp_mtu_wrapper(repo, consts):
    f, body = wrapper_body(repo, "pyp0f/fingerprint/mtu.py", "fingerprint_mtu")
    if len(body) != 4 or ast.unparse(body[0]) != "packet = parse_packet(packet)" or not is_raise_packet_error(body[1]) \
            or ast.unparse(body[1].test) != "not valid_for_mtu_fingerprint(packet)" \
            or ast.unparse(body[2]) != "packet_signature = MTUPacketSignature.from_packet(packet)" \
            or ast.unparse(body[3]) != "return MTUResult(packet, packet_signature, find_mtu_match(packet_signature, options.database))":
        fail(f, "fingerprint_mtu shape")
    g = find_function(ast.parse(open(os.path.join(repo, "pyp0f/net/signatures/mtu.py")).read()), "from_packet", cls="MTUPacketSignature")
    gb = [s for s in g.body if not (isinstance(s, ast.Expr) and isinstance(s.value, ast.Constant))]
    if len(gb) != 1 or ast.unparse(gb[0]) != "return cls.from_mss(packet.tcp.options.mss, packet.ip.version)":
        fail(g, "MTUPacketSignature.from_packet shape")
    return ("Definition gen_fingerprint_mtu (db : option (list mtu_rec)) (frag : bool) (ty ver mss : Z) : res (Z * option mtu_rec) :=\n"
            "  if negb (gen_valid_for_mtu_fingerprint frag ty mss) then Err PacketError else\n"
            "  match gen_mtu_from_mss mss ver with\n  | None => Err PacketError\n"
            "  | Some mtu => match db with None => Err DatabaseError | Some recs => Ok (mtu, gen_find_mtu_match recs mtu) end\n  end.")


def gen_fp_http_wrapper(repo, consts):
    f, body = wrapper_body(repo, "pyp0f/fingerprint/http.py", "fingerprint_http")
    if [ast.unparse(x) for x in body] != ["direction, version, headers = read_payload(buffer)", "packet_signature = HTTPPacketSignature(version, headers)",
                                         "return HTTPResult(buffer, packet_signature, find_http_match(packet_signature, direction, options.database))"]:
        fail(f, "fingerprint_http shape")
    return ("Definition gen_fingerprint_http (d : db) (data : text) : res (option rec * bool * (direction * Z * list pkt_header)) :=\n"
            "  do p <- read_payload data;      (* translated separately: translate/http2coq.py, gen_read_payload_eq *)\n"
            "  let '(dir, ver, hs) := p in\n"
            "  match (match dir with Request => d_http_req d | Response => d_http_resp d end) with   (* database.iter_values(HTTPRecord, direction) *)\n"
            "  | None => Err DatabaseError\n"
            "  | Some recs => let m := gen_find_http_match ver hs recs in Ok (m, gen_dishonest m hs, p)\n  end.")


HEADER = """(* GENERATED by translate/py2coq.py from %s (group %s) -- regenerated on every check run; do not edit. *)
From PV Require Import Model.Prelude Model.Bits Model.Sig Model.Select Model.Mtu Model.Options Model.Text Model.SigParse Model.DbParse Model.HttpRead Model.HttpMatch Gen.GenLib.
%s"""

# One generated file per group, so that a source change the translator cannot read (or that breaks an equivalence proof) only
# affects the properties that rest on that group.  "select" uses the matcher of "match".
GROUPS = {
    "match": ([], [gen_win_multi, gen_match]),
    "uptime": ([], [gen_round, gen_gates, lambda r, c: gen_valid_for(r, c, "uptime"), gen_uptime_body]),
    "select": (["match"], [gen_guess, gen_gates, lambda r, c: gen_valid_for(r, c, "tcp"), gen_find_tcp, gen_distance_fn, gen_fp_tcp_wrapper]),
    "mtu": ([], [gen_gates, lambda r, c: gen_valid_for(r, c, "mtu"), gen_mtu_sig, gen_find_mtu, gen_imp_mtu, gen_fp_mtu_wrapper]),
    "options": ([], [gen_options]),
    "http": ([], [gen_http, gen_fp_http_wrapper]),
    "api": (["select", "mtu", "http"], []),      # no definitions of its own: Gen/GenApiC.v composes the groups layers, select, mtu, http end to end
}


def main(repo, outdir):
    import json
    status = {}
    for g, (deps, fns) in GROUPS.items():
        LOOP_COUNTER[0] = 0
        path = os.path.join(outdir, "Generated_%s.v" % g)
        try:
            bad = [d for d in deps if status.get(d) != "ok"]
            if bad:
                raise Unsupported("depends on group %s, which could not be translated" % bad[0])
            consts = common_consts(repo)
            imports = "".join("From PV Require Import Gen.Generated_%s.\n" % d for d in deps)
            parts = [HEADER % (repo, g, imports)] + [f(repo, consts) for f in fns]
            open(path, "w").write("\n\n".join(parts) + "\n")
            status[g] = "ok"
        except Unsupported as e:
            open(path, "w").write("(* group %s: UNSUPPORTED: %s *)\n" % (g, str(e).replace("*)", "* )")))
            status[g] = "UNSUPPORTED: %s" % e
        except Exception as e:  # fail closed: unreadable source or a shape the translator does not handle
            open(path, "w").write("(* group %s: not translated *)\n" % g)
            status[g] = "UNSUPPORTED: the source has a shape the translator does not handle (%s: %s)" % (type(e).__name__, str(e)[:200])
    print("STATUS " + json.dumps(status))


if __name__ == "__main__":
    main(sys.argv[1], sys.argv[2])
