#!/venv/bin/python
"""Fail-closed translator for pyp0f's packet-layer extraction (group `layers`), built on py2coq (imported as a library).

From /repo's CURRENT source it translates into Gallina (coq/Gen/Generated_layers.v):

  IP._from_ipv4, IP._from_ipv6, IP.from_packet          (pyp0f/net/layers/ip.py)
  TCP.__post_init__, TCP.from_packet                    (pyp0f/net/layers/tcp/tcp.py)
  Packet.from_packet                                    (pyp0f/net/packet.py)
  TCPPacketSignature.from_packet                        (pyp0f/net/signatures/tcp.py)

(Packet.should_fingerprint is gen_should_fingerprint of py2coq's groups uptime / select / mtu and is not duplicated here.)
coq/Gen/GenP_layers.v then proves the generated definitions equal to the hand model of coq/Model/Wire.v.

The inputs are the SCAPY FIELDS (records sc_ip4 / sc_ip6 / sc_tcp / sc_packet of the hand-written coq/Gen/GenLayLib.v).
Tables below say how an attribute read of a Scapy object is a field of those records; `tcp.flags.X` is a bit test on the
9-bit integer st_flags, the letter -> bit table being Scapy's TCP flags definition "FSRPAUECN" (checked against the installed
Scapy when it can be imported).  `TCPOptions.parse(buf, is_syn=c)` is bound to the ALREADY translated gen_parse_options of
group `options` (Gen/Generated_options.v) with fuel S (length buf) (GenOptP.v: with that fuel the loop never runs out).

What is ASSUMED (checked literally, listed in the generated file): the three payload lines of TCP.from_packet
(bytes(tcp.payload) minus a Padding layer) are the opaque input st_payload; bytes(tcp) is the opaque input st_bytes; dataclass
construction assigns the keyword arguments to the fields and then runs __post_init__; IntFlag / Flag arithmetic is integer
arithmetic on the values (TCPFlag(int(x)) keeps every bit: Python >= 3.11 boundary KEEP).
Anything outside the shapes handled here raises Unsupported: the group is then reported UNSUPPORTED, never guessed.
"""
import ast
import json
import os
import sys

sys.path.insert(0, os.path.dirname(os.path.abspath(__file__)))
import py2coq as P                                             # noqa: E402
from py2coq import Unsupported, fail, dotted, Env, find_function   # noqa: E402

# ---------------------------------------------------------------- tables (Scapy's side, and the records of GenLayLib.v)
SCAPY_TCP_FLAGS = "FSRPAUECN"          # scapy.layers.inet.TCP: FlagsField("flags", 0x2, 9, "FSRPAUECN"); letter k is bit k
SCAPY_IP_FLAGS = ["MF", "DF", "evil"]  # scapy.layers.inet.IP: FlagsField("flags", 0, 3, ["MF", "DF", "evil"])
SCAPY_ALIASES = {"ScapyIPv4": ("scapy.layers.inet", "IP"), "ScapyTCP": ("scapy.layers.inet", "TCP"),
                 "ScapyIPv6": ("scapy.layers.inet6", "IPv6"), "ScapyPacket": ("scapy.packet", "Packet")}
LAYERS = {"ScapyIPv4": ("sp_ip4", "SCIP4"), "ScapyIPv6": ("sp_ip6", "SCIP6"), "ScapyTCP": ("sp_tcp", "SCTCP")}
COQ_TYPES = {"SCIP4": "sc_ip4", "SCIP6": "sc_ip6", "SCTCP": "sc_tcp", "SCPKT": "sc_packet", "PYIP": "py_ip", "PYTCP": "py_tcp",
             "PYPKT": "py_packet", "TOPTS": "topts", "ADDR": "(list Z)", "PSIG": "pkt_sig"}


def field(proj, ty):
    return (lambda b: "(%s %s)" % (proj, b), ty)


SC_ATTRS = {
    ("SCIP4", "version"): field("s4_version", "Z"), ("SCIP4", "ihl"): field("s4_ihl", "Z"), ("SCIP4", "tos"): field("s4_tos", "Z"),
    ("SCIP4", "id"): field("s4_id", "Z"), ("SCIP4", "frag"): field("s4_frag", "Z"), ("SCIP4", "ttl"): field("s4_ttl", "Z"),
    ("SCIP4", "proto"): field("s4_proto", "Z"), ("SCIP4", "src"): field("s4_src", "ADDR"), ("SCIP4", "dst"): field("s4_dst", "ADDR"),
    ("SCIP4", "flags.MF"): field("s4_mf", "B"), ("SCIP4", "flags.DF"): field("s4_df", "B"), ("SCIP4", "flags.evil"): field("s4_evil", "B"),
    ("SCIP6", "version"): field("s6_version", "Z"), ("SCIP6", "tc"): field("s6_tc", "Z"), ("SCIP6", "fl"): field("s6_fl", "Z"),
    ("SCIP6", "nh"): field("s6_nh", "Z"), ("SCIP6", "hlim"): field("s6_hlim", "Z"), ("SCIP6", "src"): field("s6_src", "ADDR"),
    ("SCIP6", "dst"): field("s6_dst", "ADDR"),
    ("SCTCP", "sport"): field("st_sport", "Z"), ("SCTCP", "dport"): field("st_dport", "Z"), ("SCTCP", "seq"): field("st_seq", "Z"),
    ("SCTCP", "ack"): field("st_ack", "Z"), ("SCTCP", "dataofs"): field("st_dataofs", "Z"), ("SCTCP", "flags"): field("st_flags", "Z"),
    ("SCTCP", "window"): field("st_window", "Z"), ("SCTCP", "urgptr"): field("st_urgptr", "Z"),
    ("TOPTS", "quirks"): field("o_quirks", "N"),
}
for _k, _c in enumerate(SCAPY_TCP_FLAGS):
    SC_ATTRS[("SCTCP", "flags." + _c)] = ((lambda k: lambda b: "(sc_flag (st_flags %s) %d)" % (b, k))(_k), "B")

# the Python dataclasses: field -> (record projection, type); the order is the class's declared order
IP_FIELDS = [("version", "pi_version", "Z"), ("src", "pi_src", "ADDR"), ("dst", "pi_dst", "ADDR"), ("ttl", "pi_ttl", "Z"), ("tos", "pi_tos", "Z"),
             ("options_length", "pi_options_length", "Z"), ("header_length", "pi_header_length", "Z"), ("is_fragment", "pi_is_fragment", "B"),
             ("quirks", "pi_quirks", "N")]
TCP_FIELDS = [("type", "pt_type", "Z"), ("src_port", "pt_src_port", "Z"), ("dst_port", "pt_dst_port", "Z"), ("window", "pt_window", "Z"),
              ("seq", "pt_seq", "Z"), ("options", "pt_options", "TOPTS"), ("payload", "pt_payload", "LIST Z"),
              ("header_length", "pt_header_length", "Z"), ("quirks", "pt_quirks", "N")]
PACKET_FIELDS = [("ip", "pp_ip", "PYIP"), ("tcp", "pp_tcp", "PYTCP")]
SIG_FIELDS = [("ip_version", "Z"), ("ip_options_length", "Z"), ("ttl", "Z"), ("window_size", "Z"), ("options", "TOPTS"), ("headers_length", "Z"),
              ("has_payload", "B"), ("quirks", "N"), ("syn_mss", "Z")]       # mk_pkt_sig's argument order
SIG_EXTRA = ["_window_multiplier: Optional[WindowMultiplier] = field(init=False)", "received: int = field(default_factory=get_unix_time_ms)"]
SIG_POST_INIT = ["self._window_multiplier = None"]

PY_ATTRS = {}
for _n, _p, _t in IP_FIELDS:
    PY_ATTRS[("PYIP", _n)] = field(_p, _t)
    PY_ATTRS[("PYPKT", "ip." + _n)] = ((lambda p: lambda b: "(%s (pp_ip %s))" % (p, b))(_p), _t)
for _n, _p, _t in TCP_FIELDS:
    PY_ATTRS[("PYTCP", _n)] = field(_p, _t)
    PY_ATTRS[("PYPKT", "tcp." + _n)] = ((lambda p: lambda b: "(%s (pp_tcp %s))" % (p, b))(_p), _t)
PY_ATTRS[("PYPKT", "ip")] = field("pp_ip", "PYIP")
PY_ATTRS[("PYPKT", "tcp")] = field("pp_tcp", "PYTCP")

PAYLOAD_LINES = ["payload = bytes(tcp.payload)", "padding = tcp.getlayer(Padding)",
                 "if padding is not None:\n    payload = payload[:len(payload) - len(bytes(padding))]"]
ASSUMED = []


# ---------------------------------------------------------------- hooks into py2coq's expression / statement translation
_orig_expr, _orig_block = P.expr, P.block


def lay_expr(e, env):
    if isinstance(e, ast.Subscript) and isinstance(e.value, ast.Name) and isinstance(e.slice, ast.Name) and e.slice.id in LAYERS \
            and env.locals.get(e.value.id) == "SCPKT":
        present = getattr(env, "present", {})
        if e.slice.id not in present:
            fail(e, "packet[%s] is not guarded by a test that the layer is present" % e.slice.id)
        return present[e.slice.id], LAYERS[e.slice.id][1]
    if isinstance(e, ast.BinOp) and isinstance(e.op, ast.BitAnd) and not (isinstance(e.right, ast.UnaryOp) and isinstance(e.right.op, ast.Invert)):
        a, ta = P.expr(e.left, env)
        b, tb = P.expr(e.right, env)
        if (ta, tb) == ("Z", "Z"):
            return "(Z.land %s %s)" % (a, b), "Z"
        if (ta, tb) != ("N", "N"):
            fail(e, "operand types %s %s for &" % (ta, tb))
    if isinstance(e, ast.BinOp) and isinstance(e.op, ast.BitOr):
        a, ta = P.expr(e.left, env)
        b, tb = P.expr(e.right, env)
        if (ta, tb) not in (("Z", "Z"), ("N", "N")):
            fail(e, "operand types %s %s for |" % (ta, tb))
    if isinstance(e, ast.BinOp) and isinstance(e.op, ast.RShift):
        a, ta = P.expr(e.left, env)
        b, tb = P.expr(e.right, env)
        if (ta, tb) != ("Z", "Z") or not (isinstance(e.right, ast.Constant) and isinstance(e.right.value, int) and e.right.value >= 0):
            fail(e, ">> needs an integer and a literal non-negative shift")
        return "(Z.shiftr %s %s)" % (a, b), "Z"
    if isinstance(e, ast.Call) and dotted(e.func) == "TCPOptions.parse":
        if len(e.args) != 1 or [k.arg for k in e.keywords] != ["is_syn"]:
            fail(e, "TCPOptions.parse arguments")
        b, tb = P.expr(e.args[0], env)
        c = P.truthy(e.keywords[0].value, env)
        if tb != "LIST Z":
            fail(e, "TCPOptions.parse buffer type")
        return "(gen_parse_options (S (length %s)) %s %s)" % (b, b, c), "RES TOPTS"
    return _orig_expr(e, env)


def is_raise_packet_error(s):
    return isinstance(s, ast.Raise) and s.cause is None and isinstance(s.exc, ast.Call) and dotted(s.exc.func) == "PacketError" \
        and all(isinstance(a, ast.Constant) for a in s.exc.args) and not s.exc.keywords


def ends(stmts):
    return bool(stmts) and (P.always_returns(stmts) or isinstance(stmts[-1], ast.Raise))


def layer_test(t, env):
    """`L in packet` / `L not in packet` -> (L, positive?) or None"""
    if isinstance(t, ast.Compare) and len(t.ops) == 1 and isinstance(t.ops[0], (ast.In, ast.NotIn)) and isinstance(t.left, ast.Name) \
            and t.left.id in LAYERS and isinstance(t.comparators[0], ast.Name) and env.locals.get(t.comparators[0].id) == "SCPKT":
        return t.left.id, isinstance(t.ops[0], ast.In)
    return None


def lay_block(stmts, env, ret, fall=None, brk=None):
    if not stmts:
        return _orig_block(stmts, env, ret, fall, brk)
    s, rest = stmts[0], stmts[1:]
    if isinstance(s, ast.Raise):
        if not is_raise_packet_error(s) or not getattr(env, "can_raise", False):
            fail(s, "raise")
        return "(Err PacketError)"
    if isinstance(s, ast.If) and layer_test(s.test, env):
        layer, positive = layer_test(s.test, env)
        v = "v_" + layer
        yes, no = (s.body, s.orelse) if positive else (s.orelse, s.body)
        if not ends(list(s.body)) and not (s.orelse and ends(list(s.orelse))):
            fail(s, "a layer test needs a branch that returns or raises")
        saved_l, saved_p = dict(env.locals), dict(getattr(env, "present", {}))
        env.present = dict(saved_p)
        env.present[layer] = v
        a = P.block(list(yes) + ([] if ends(list(yes)) else rest), env, ret, fall, brk)
        env.locals, env.present = dict(saved_l), dict(saved_p)
        if positive:
            b = P.block(list(no) + ([] if ends(list(no)) else rest), env, ret, fall, brk)
        else:
            b = P.block(list(no) + ([] if ends(list(no)) else rest), env, ret, fall, brk)
        env.locals, env.present = saved_l, saved_p
        return "(match %s %s with\n | Some %s => %s\n | None => %s\n end)" % (LAYERS[layer][0], dotted(s.test.comparators[0]), v, a, b)
    if isinstance(s, ast.Assign) and ast.unparse(s) == PAYLOAD_LINES[0]:
        got = [ast.unparse(x) for x in stmts[:3]]
        if got != PAYLOAD_LINES or env.locals.get("tcp") != "SCTCP":
            fail(s, "the payload lines differ from the assumed text (bytes(tcp.payload) minus a Padding layer)")
        for x in stmts[3:]:
            for m in ast.walk(x):
                if isinstance(m, ast.Name) and m.id == "padding":
                    fail(x, "use of 'padding' after the payload lines")
        if "payload lines" not in [a[0] for a in ASSUMED]:
            ASSUMED.append(("payload lines", "; ".join(PAYLOAD_LINES).replace("\n", " ") + "   ==>   payload := st_payload tcp"))
        saved = dict(env.locals)
        env.locals["payload"] = "LIST Z"
        body = P.block(stmts[3:], env, ret, fall, brk)
        env.locals = saved
        return "(let payload := (st_payload tcp) in\n %s)" % body
    if isinstance(s, (ast.Assign, ast.AnnAssign)) and s.value is not None:
        tgt = s.targets[0] if isinstance(s, ast.Assign) else s.target
        if isinstance(tgt, ast.Name) and (isinstance(s, ast.AnnAssign) or len(s.targets) == 1):
            t, ty = P.expr(s.value, env)
            if ty.startswith("RES "):
                if not getattr(env, "can_raise", False):
                    fail(s, "a call that can raise in a function that is translated as total")
                name = dotted(tgt)
                saved = dict(env.locals)
                env.locals[name] = ty[4:]
                body = P.block(rest, env, ret, fall, brk)
                env.locals = saved
                return "(match %s with\n | Err e => Err e\n | Ok %s => %s\n end)" % (t, name, body)
    if isinstance(s, ast.AugAssign):
        if not isinstance(s.target, ast.Name) or s.target.id not in env.locals:
            fail(s, "augmented assignment target")
        x = s.target.id
        a, ta = P.expr(s.value, env)
        tx = env.locals[x]
        if isinstance(s.op, ast.BitOr) and (tx, ta) == ("N", "N"):
            t = "(N.lor %s %s)" % (x, a)
        elif isinstance(s.op, ast.BitAnd) and (tx, ta) == ("Z", "Z"):
            t = "(Z.land %s %s)" % (x, a)
        elif isinstance(s.op, ast.BitAnd) and (tx, ta) == ("N", "N") and not isinstance(s.value, (ast.UnaryOp, ast.IfExp)):
            t = "(N.land %s %s)" % (x, a)
        else:
            fail(s, "augmented assignment %s of %s to %s" % (type(s.op).__name__, ta, tx))
        return "(let %s := %s in\n %s)" % (x, t, P.block(rest, env, ret, fall, brk))
    return _orig_block(stmts, env, ret, fall, brk)


class hooked:
    def __enter__(self):
        P.expr, P.block = lay_expr, lay_block
        P.COQ_TYPES.update(COQ_TYPES)

    def __exit__(self, *a):
        P.expr, P.block = _orig_expr, _orig_block
        for k in COQ_TYPES:
            P.COQ_TYPES.pop(k, None)


# ---------------------------------------------------------------- reading the classes
def strip_doc(body):
    return [s for s in body if not (isinstance(s, ast.Expr) and isinstance(s.value, ast.Constant))]


def find_class(tree, name):
    for n in tree.body:
        if isinstance(n, ast.ClassDef) and n.name == name:
            return n
    raise Unsupported("class %s not found" % name)


SPECIAL = {"__init__", "__new__", "__post_init__", "__setattr__", "__getattr__", "__getattribute__", "__init_subclass__", "__class_getitem__"}


def dataclass_info(cls, bases, decorators, allow_post_init):
    """-> (list of (field name, source text of the AnnAssign), __post_init__ FunctionDef or None); fail-closed on anything that can
    change how cls(...) builds the object"""
    if [ast.unparse(b) for b in cls.bases] != bases or cls.keywords:
        fail(cls, "base classes of %s" % cls.name)
    if [ast.unparse(d) for d in cls.decorator_list] != decorators:
        fail(cls, "decorators of %s" % cls.name)
    fields, post = [], None
    for m in cls.body:
        if isinstance(m, ast.AnnAssign) and isinstance(m.target, ast.Name):
            fields.append((m.target.id, ast.unparse(m)))
        elif isinstance(m, ast.FunctionDef):
            if m.name == "__post_init__" and allow_post_init:
                post = m
            elif m.name in SPECIAL:
                fail(m, "special method of %s" % cls.name)
        elif isinstance(m, ast.Expr) and isinstance(m.value, ast.Constant):
            pass
        else:
            fail(m, "class body of %s" % cls.name)
    return fields, post


def check_imports(tree, wanted, where):
    """every (module, name) of wanted is imported literally `from module import name` (no alias) at module level"""
    have = set()
    for n in tree.body:
        if isinstance(n, ast.ImportFrom) and n.level == 0:
            for a in n.names:
                if a.asname is None:
                    have.add((n.module, a.name))
    for w in wanted:
        if w not in have:
            raise Unsupported("%s: expected 'from %s import %s'" % (where, w[0], w[1]))
    # and nothing rebinds these names at module level
    names = {w[1] for w in wanted}
    for n in tree.body:
        if isinstance(n, (ast.Assign, ast.AnnAssign, ast.FunctionDef, ast.ClassDef)):
            for m in ([n] if isinstance(n, (ast.FunctionDef, ast.ClassDef)) else ast.walk(n)):
                nm = m.name if isinstance(m, (ast.FunctionDef, ast.ClassDef)) else (m.id if isinstance(m, ast.Name) and isinstance(m.ctx, ast.Store) else None)
                if nm in names:
                    raise Unsupported("%s: %s is rebound" % (where, nm))


def parse(repo, rel):
    return ast.parse(open(os.path.join(repo, rel), encoding="utf-8").read())


def check_environment(repo):
    """The names the translated functions use are the ones the tables above speak about."""
    sc = parse(repo, "pyp0f/net/scapy.py")
    got = {}
    for n in sc.body:
        if isinstance(n, ast.ImportFrom) and n.level == 0:
            for a in n.names:
                got[a.asname or a.name] = (n.module, a.name)
        elif isinstance(n, (ast.Assign, ast.AnnAssign, ast.ClassDef)) or (isinstance(n, ast.FunctionDef) and n.name in SCAPY_ALIASES):
            for m in ast.walk(n):
                if isinstance(m, ast.Name) and isinstance(m.ctx, ast.Store) and m.id in SCAPY_ALIASES:
                    raise Unsupported("pyp0f/net/scapy.py rebinds %s" % m.id)
    for k, v in SCAPY_ALIASES.items():
        if got.get(k) != v:
            raise Unsupported("pyp0f/net/scapy.py: %s is not %s.%s" % (k, v[0], v[1]))
    base = find_class(parse(repo, "pyp0f/net/layers/base.py"), "Layer")
    if [m.name for m in base.body if isinstance(m, ast.FunctionDef)] != ["from_packet"] or any(
            not isinstance(m, (ast.FunctionDef, ast.Expr)) for m in base.body) or [ast.unparse(b) for b in base.bases] != []:
        raise Unsupported("pyp0f/net/layers/base.py: Layer defines more than the abstract from_packet")
    sb = find_class(parse(repo, "pyp0f/net/signatures/base.py"), "PacketSignature")
    if [m.name for m in sb.body if isinstance(m, ast.FunctionDef)] != ["from_packet"] or any(not isinstance(m, (ast.FunctionDef, ast.Expr)) for m in sb.body):
        raise Unsupported("pyp0f/net/signatures/base.py: PacketSignature defines more than the abstract from_packet")
    init = parse(repo, "pyp0f/net/layers/tcp/__init__.py")
    have = {(n.module, n.level, a.name) for n in init.body if isinstance(n, ast.ImportFrom) for a in n.names if a.asname is None}
    for w in (("flags", 1, "TCPFlag"), ("options", 1, "TCPOptions"), ("tcp", 1, "TCP")):
        if w not in have:
            raise Unsupported("pyp0f/net/layers/tcp/__init__.py does not export %s from .%s" % (w[2], w[0]))
    exc = find_class(parse(repo, "pyp0f/exceptions.py"), "PacketError")
    del exc
    try:                                                         # Scapy's own flag tables, when Scapy can be imported here
        from scapy.layers.inet import IP as _IP, TCP as _TCP
        tf = [f for f in _TCP.fields_desc if f.name == "flags"][0]
        i4 = [f for f in _IP.fields_desc if f.name == "flags"][0]
        if "".join(tf.names) != SCAPY_TCP_FLAGS or tf.size != 9 or list(i4.names) != SCAPY_IP_FLAGS:
            raise Unsupported("the installed Scapy's TCP/IP flag names differ from the translator's table")
    except ImportError:
        pass


def layer_consts(repo, consts):
    """literal integer constants of ip.py / tcp.py (evaluated from the source, fail-closed)"""
    c = dict(consts)
    vals = {}
    for rel in ("pyp0f/net/layers/ip.py", "pyp0f/net/layers/tcp/tcp.py"):
        for n in parse(repo, rel).body:
            if isinstance(n, ast.Assign) and isinstance(n.targets[0], ast.Name):
                try:
                    vals[n.targets[0].id] = eval(compile(ast.Expression(n.value), "<const>", "eval"), {"__builtins__": {}}, dict(vals))
                except Exception:
                    pass
    for k in ("IP_TOS_CE", "IP_TOS_ECT", "IPV4_HEADER_LENGTH", "IPV6_HEADER_LENGTH", "TCP_HEADER_LENGTH"):
        if not isinstance(vals.get(k), int) or isinstance(vals.get(k), bool):
            raise Unsupported("constant %s is not a literal integer" % k)
        c[k] = ("(%d)" % vals[k], "Z")
    return c


def call_table():
    def quirk(a, e):
        if a[0] != ("(0)", "Z"):
            fail(e, "Quirk(...) of anything but the literal 0")
        return "0%N", "N"

    def ident(a, e):
        if a[0][1] != "Z":
            fail(e, "conversion of a non-integer")
        return a[0]

    def to_bool(a, e):
        t, ty = a[0]
        if ty == "LIST Z":
            return "(bytes_truthy %s)" % t, "B"
        if ty == "B":
            return t, "B"
        if ty == "Z":
            return "(negb (Z.eqb %s 0))" % t, "B"
        fail(e, "bool() of %s" % ty)

    def to_bytes(a, e):
        if a[0][1] != "SCTCP":
            fail(e, "bytes() of anything but the TCP layer")
        if "bytes(tcp)" not in [x[0] for x in ASSUMED]:
            ASSUMED.append(("bytes(tcp)", "bytes(tcp)   ==>   st_bytes tcp   (the TCP segment as Scapy re-assembles it)"))
        return "(st_bytes %s)" % a[0][0], "LIST Z"
    return {"Quirk": (1, quirk), "TCPFlag": (1, ident), "int": (1, ident), "bool": (1, to_bool), "bytes": (1, to_bytes)}


def params(f, want):
    """positional parameters (name, annotation text, default text)"""
    a = f.args
    if a.vararg or a.kwarg or a.kwonlyargs or a.posonlyargs:
        fail(f, "parameters of %s" % f.name)
    defaults = [None] * (len(a.args) - len(a.defaults)) + [ast.unparse(d) for d in a.defaults]
    got = [(x.arg, ast.unparse(x.annotation) if x.annotation else None, d) for x, d in zip(a.args, defaults)]
    if got != want:
        fail(f, "parameters of %s: %s" % (f.name, got))


def is_classmethod(f):
    return [ast.unparse(d) for d in f.decorator_list] == ["classmethod"]


def record(fields, kw, node, env):
    """{| proj := value; ... |} from keyword values, type-checked against the record's fields"""
    if sorted(kw) != sorted(n for n, _, _ in fields):
        fail(node, "constructor keywords %s" % sorted(kw))
    parts = []
    for n, proj, ty in fields:
        if ty == "B":
            t = P.truthy(kw[n], env)
        else:
            t, tv = P.expr(kw[n], env)
            if tv != ty:
                fail(kw[n], "field %s: %s expected, %s found" % (n, ty, tv))
        parts.append("%s := %s" % (proj, t))
    return "{| " + "; ".join(parts) + " |}"


def cls_keywords(v):
    if not (isinstance(v, ast.Call) and dotted(v.func) == "cls" and not v.args and all(k.arg for k in v.keywords)):
        fail(v, "expected return cls(keyword=...)")
    kw = {}
    for k in v.keywords:
        if k.arg in kw:
            fail(v, "repeated keyword")
        kw[k.arg] = k.value
    return kw


# ---------------------------------------------------------------- the functions
def gen_ip(repo, consts):
    tree = parse(repo, "pyp0f/net/layers/ip.py")
    check_imports(tree, [("pyp0f.exceptions", "PacketError"), ("pyp0f.net.quirks", "Quirk"), ("pyp0f.net.scapy", "ScapyIPv4"),
                         ("pyp0f.net.scapy", "ScapyIPv6")], "ip.py")
    cls = find_class(tree, "IP")
    fields, _ = dataclass_info(cls, ["Layer"], ["dataclass"], allow_post_init=False)
    if [n for n, _ in fields] != [n for n, _, _ in IP_FIELDS]:
        fail(cls, "fields of IP")
    out = []
    for name, ann, ty, coq in (("_from_ipv4", "ScapyIPv4", "SCIP4", "sc_ip4"), ("_from_ipv6", "ScapyIPv6", "SCIP6", "sc_ip6")):
        f = find_function(tree, name, cls="IP")
        if not is_classmethod(f):
            fail(f, "decorators")
        params(f, [("cls", None, None), ("ip", ann, None)])
        env = Env({}, consts, call_table(), dict(SC_ATTRS))
        env.locals["ip"] = ty

        def ret(v, env):
            if v is None:
                fail(None, "return without a value")
            return record(IP_FIELDS, cls_keywords(v), v, env)
        out.append("Definition gen_IP%s (ip : %s) : py_ip :=\n %s." % (name, coq, P.block(strip_doc(f.body), env, ret)))
    f = find_function(tree, "from_packet", cls="IP")
    if not is_classmethod(f):
        fail(f, "decorators")
    params(f, [("cls", None, None), ("packet", "ScapyPacket", None)])
    calls = call_table()
    calls["cls._from_ipv4"] = (1, lambda a, e: ("(gen_IP_from_ipv4 %s)" % a[0][0], "PYIP") if a[0][1] == "SCIP4" else fail(e, "argument of _from_ipv4"))
    calls["cls._from_ipv6"] = (1, lambda a, e: ("(gen_IP_from_ipv6 %s)" % a[0][0], "PYIP") if a[0][1] == "SCIP6" else fail(e, "argument of _from_ipv6"))
    env = Env({}, consts, calls, dict(SC_ATTRS))
    env.locals["packet"] = "SCPKT"
    env.can_raise = True

    def ret2(v, env):
        if v is None:
            fail(None, "return without a value")
        t, ty = P.expr(v, env)
        if ty != "PYIP":
            fail(v, "IP.from_packet returns a %s" % ty)
        return "(Ok %s)" % t
    out.append("Definition gen_IP_from_packet (packet : sc_packet) : res py_ip :=\n %s." % P.block(strip_doc(f.body), env, ret2))
    return "\n\n".join(out)


class SelfFields(ast.NodeTransformer):
    def __init__(self, names):
        self.names = names

    def visit_Attribute(self, n):
        if isinstance(n.value, ast.Name) and n.value.id == "self":
            if n.attr not in self.names:
                fail(n, "attribute of self")
            return ast.copy_location(ast.Name(id="self_" + n.attr, ctx=n.ctx), n)
        return self.generic_visit(n)

    def visit_Name(self, n):
        if n.id == "self":
            fail(n, "use of self as a value")
        return n


def gen_tcp(repo, consts):
    tree = parse(repo, "pyp0f/net/layers/tcp/tcp.py")
    check_imports(tree, [("pyp0f.exceptions", "PacketError"), ("pyp0f.net.quirks", "Quirk"), ("pyp0f.net.scapy", "ScapyTCP"),
                         ("pyp0f.net.layers.tcp", "TCPFlag"), ("pyp0f.net.layers.tcp", "TCPOptions"), ("scapy.packet", "Padding")], "tcp.py")
    cls = find_class(tree, "TCP")
    fields, post = dataclass_info(cls, ["Layer"], ["dataclass"], allow_post_init=True)
    if [n for n, _ in fields] != [n for n, _, _ in TCP_FIELDS]:
        fail(cls, "fields of TCP")
    out = []
    # __post_init__: updates of the object's own fields
    rec = "{| " + "; ".join("%s := self_%s" % (p, n) for n, p, _ in TCP_FIELDS) + " |}"
    if post is None:
        body = rec
    else:
        params(post, [("self", None, None)])
        if post.decorator_list:
            fail(post, "decorators")
        env = Env({}, consts, call_table(), dict(SC_ATTRS))
        for n, _, t in TCP_FIELDS:
            env.locals["self_" + n] = t
        stmts = [SelfFields([n for n, _, _ in TCP_FIELDS]).visit(s) for s in strip_doc(post.body)]
        for s in stmts:
            if not isinstance(s, (ast.AugAssign, ast.Assign, ast.AnnAssign, ast.If)):
                fail(s, "statement in __post_init__")
            ast.fix_missing_locations(s)

        def no_ret(v, env):
            fail(v, "return in __post_init__")
        body = P.block(stmts, env, no_ret, fall=rec) if stmts else rec
    lets = "".join("(let self_%s := (%s self) in\n " % (n, p) for n, p, _ in TCP_FIELDS)
    out.append("Definition gen_TCP_post_init (self : py_tcp) : py_tcp :=\n %s%s%s." % (lets, body, ")" * len(TCP_FIELDS)))
    # from_packet
    f = find_function(tree, "from_packet", cls="TCP")
    if not is_classmethod(f):
        fail(f, "decorators")
    params(f, [("cls", None, None), ("packet", "ScapyPacket", None)])
    env = Env({}, consts, call_table(), dict(SC_ATTRS))
    env.locals["packet"] = "SCPKT"
    env.can_raise = True

    def ret(v, env):
        if v is None:
            fail(None, "return without a value")
        return "(Ok (gen_TCP_post_init %s))" % record(TCP_FIELDS, cls_keywords(v), v, env)
    out.append("Definition gen_TCP_from_packet (packet : sc_packet) : res py_tcp :=\n %s." % P.block(strip_doc(f.body), env, ret))
    return "\n\n".join(out)


def gen_packet(repo, consts):
    tree = parse(repo, "pyp0f/net/packet.py")
    check_imports(tree, [("pyp0f.net.layers.ip", "IP"), ("pyp0f.net.layers.tcp", "TCP")], "packet.py")
    cls = find_class(tree, "Packet")
    fields = [(m.target.id, ast.unparse(m)) for m in cls.body if isinstance(m, ast.AnnAssign) and isinstance(m.target, ast.Name)]
    if fields != [("ip", "ip: IP"), ("tcp", "tcp: TCP")] or [ast.unparse(b) for b in cls.bases] != ["Layer"] or cls.keywords \
            or [ast.unparse(d) for d in cls.decorator_list] != ["dataclass"]:
        fail(cls, "Packet is not the dataclass (ip: IP, tcp: TCP)")
    for m in cls.body:
        if isinstance(m, ast.FunctionDef) and m.name in SPECIAL:
            fail(m, "special method of Packet")
        if not isinstance(m, (ast.FunctionDef, ast.AnnAssign)) and not (isinstance(m, ast.Expr) and isinstance(m.value, ast.Constant)):
            fail(m, "class body of Packet")
    f = find_function(tree, "from_packet", cls="Packet")
    if not is_classmethod(f):
        fail(f, "decorators")
    params(f, [("cls", None, None), ("packet", "ScapyPacket", None)])
    body = strip_doc(f.body)
    if len(body) != 1 or not isinstance(body[0], ast.Return):
        fail(f, "Packet.from_packet body")
    v = body[0].value
    if not (isinstance(v, ast.Call) and dotted(v.func) == "cls" and not v.keywords and len(v.args) == len(PACKET_FIELDS)):
        fail(v, "expected return cls(IP.from_packet(packet), TCP.from_packet(packet))")
    gens = {"IP.from_packet": ("gen_IP_from_packet", "PYIP"), "TCP.from_packet": ("gen_TCP_from_packet", "PYTCP")}
    binds, vals = [], []
    for k, (a, (n, proj, ty)) in enumerate(zip(v.args, PACKET_FIELDS)):      # arguments are evaluated left to right
        if not (isinstance(a, ast.Call) and dotted(a.func) in gens and len(a.args) == 1 and not a.keywords and dotted(a.args[0]) == "packet"):
            fail(a, "constructor argument")
        g, gty = gens[dotted(a.func)]
        if gty != ty:
            fail(a, "field %s: %s expected, %s found" % (n, ty, gty))
        binds.append("match %s packet with\n | Err e => Err e\n | Ok v%d => " % (g, k))
        vals.append("%s := v%d" % (proj, k))
    term = "".join(binds) + "Ok {| " + "; ".join(vals) + " |}" + "\n end" * len(binds)
    return "Definition gen_Packet_from_packet (packet : sc_packet) : res py_packet :=\n %s." % term


def gen_sig(repo, consts):
    tree = parse(repo, "pyp0f/net/signatures/tcp.py")
    check_imports(tree, [("pyp0f.net.layers.tcp", "TCPFlag"), ("pyp0f.net.packet", "Packet")], "signatures/tcp.py")
    cls = find_class(tree, "TCPPacketSignature")
    fields, post = dataclass_info(cls, ["PacketSignature"], ["add_slots", "dataclass"], allow_post_init=True)
    want = [n for n, _ in SIG_FIELDS]
    if [n for n, _ in fields[:len(want)]] != want or [s for _, s in fields[len(want):]] != SIG_EXTRA:
        fail(cls, "fields of TCPPacketSignature")
    if any("=" in s for _, s in fields[:len(want)]):
        fail(cls, "a constructor field of TCPPacketSignature has a default")
    if post is not None and [ast.unparse(s) for s in strip_doc(post.body)] != SIG_POST_INIT:
        fail(post, "TCPPacketSignature.__post_init__ does more than reset the cached window multiplier")
    f = find_function(tree, "from_packet", cls="TCPPacketSignature")
    if not is_classmethod(f):
        fail(f, "decorators")
    params(f, [("cls", None, None), ("packet", "Packet", None), ("syn_mss", "int", "0")])
    body = strip_doc(f.body)
    if len(body) != 1 or not isinstance(body[0], ast.Return):
        fail(f, "TCPPacketSignature.from_packet body")
    attrs = dict(SC_ATTRS)
    attrs.update(PY_ATTRS)
    env = Env({}, consts, call_table(), attrs)
    env.locals["packet"] = "PYPKT"
    env.locals["syn_mss"] = "Z"
    kw = cls_keywords(body[0].value)
    if sorted(kw) != sorted(want):
        fail(body[0], "constructor keywords %s" % sorted(kw))
    args = []
    for n, ty in SIG_FIELDS:
        if ty == "B":
            t = P.truthy(kw[n], env)
        else:
            t, tv = P.expr(kw[n], env)
            if tv != ty:
                fail(kw[n], "field %s: %s expected, %s found" % (n, ty, tv))
        args.append(t)
    return ("Definition gen_TCPPacketSignature_from_packet (packet : py_packet) (syn_mss : Z) : pkt_sig :=\n (mk_pkt_sig\n  %s)."
            % "\n  ".join(args))


HEADER = """(* GENERATED by translate/lay2coq.py from %s (group layers) -- regenerated on every check run; do not edit. *)
From PV Require Import Model.Prelude Model.Bits Model.Sig Model.Select Model.Options Gen.GenLib Gen.Generated_options Gen.GenLayLib.
"""


def generate(repo):
    del ASSUMED[:]
    with hooked():
        P.LOOP_COUNTER[0] = 0
        check_environment(repo)
        consts = layer_consts(repo, P.common_consts(repo))
        parts = [gen_ip(repo, consts), gen_tcp(repo, consts), gen_packet(repo, consts), gen_sig(repo, consts)]
    notes = "(* ASSUMED (text checked literally):\n%s\n   TCPOptions.parse(buf, is_syn=c)   ==>   gen_parse_options (S (length buf)) buf c   (Gen/Generated_options.v) *)" % "\n".join(
        "   " + a[1].replace("*)", "* )") for a in ASSUMED)
    return HEADER % repo + "\n" + notes + "\n\n" + "\n\n".join(parts) + "\n"


def main(repo, outdir):
    path = os.path.join(outdir, "Generated_layers.v")
    status = {}
    try:
        text = generate(repo)
        open(path, "w").write(text)
        status["layers"] = "ok"
    except Unsupported as e:
        open(path, "w").write("(* group layers: UNSUPPORTED: %s *)\n" % str(e).replace("*)", "* )"))
        status["layers"] = "UNSUPPORTED: %s" % e
    except Exception as e:  # fail closed: unreadable source or a shape the translator does not handle
        open(path, "w").write("(* group layers: not translated *)\n")
        status["layers"] = "UNSUPPORTED: the source has a shape the translator does not handle (%s: %s)" % (type(e).__name__, str(e)[:200])
    print("STATUS " + json.dumps(status))
    return status


if __name__ == "__main__":
    main(sys.argv[1], sys.argv[2])
