#!/venv/bin/python
"""Fail-closed translator for pyp0f/impersonate/tcp.py: the five helper functions behind impersonate()
(_impersonate_ip, _impersonate_options, _impersonate_window, _impersonate_tcp, _impersonate_payload) are translated from
/repo's CURRENT source into Gallina terms of the random-tape monad [M] of coq/Model/Imperson.v.  coq/Gen/GenImpP.v then
proves them equal to the hand-written model, so that the theorems about impersonation (C05, C14) speak about what the code
says now, not about a sample of its behaviour.

What is translated: assignments, augmented assignments on integers, if/elif/else with joins, early returns, raise, the
`for option in signature.options.layout` loop (as a structurally recursive function carrying the assigned variables),
`random.randrange / randint / choice(range(..))` as draws from the tape in the source's evaluation order, Optional values
(`is None` tests narrow; any other use of a possibly-None value is an explicit TypeError), keyword constructor calls.
Constant sub-expressions over literals and the project's enums (TCPFlag, TCPOption, Quirk, WindowType, WILDCARD, IPV6) are
folded by evaluating them with the real classes of /repo, so that e.g. `~TCPFlag.ACK` has the value the interpreter gives it.

What is assumed (recorded in the trusted base): attribute reads of the Scapy base packet are the abstract base's fields
(table ATTRS); the hint prelude of _impersonate_options (dict(tcp.options) + int_only) must be literally the expected
statements and is read as the base's option hints; `dict(new_options).get("MSS")` is the last MSS option of the list;
`random_string(size=n)` draws n indices below 62; `tcp_payload(tcp)` (checked literally) is the
base's TCP payload without link-layer padding.  Anything else raises Unsupported (the tie is then reported broken).
"""
import ast
import os
import sys


class Unsupported(Exception):
    pass


def fail(node, why):
    raise Unsupported("%s (line %s: %s)" % (why, getattr(node, "lineno", "?"), ast.unparse(node)[:90] if node is not None else ""))


ATTRS = {   # python attribute path -> (coq term, type)
    "ip.version": ("(b_ver b)", "Z"), "ip.src": ("(b_src b)", "ADDR"), "ip.dst": ("(b_dst b)", "ADDR"), "ip.flags": ("(b_ipflags b)", "Z"),
    "ip.id": ("(b_id b)", "Z"), "ip.frag": ("(b_frag b)", "Z"), "ip.proto": ("(b_proto b)", "Z"),
    "tcp.seq": ("(b_seq b)", "Z"), "tcp.ack": ("(b_ack b)", "Z"), "tcp.flags": ("(b_flags b)", "Z"), "tcp.urgptr": ("(b_urg b)", "Z"),
    "tcp.window": ("(b_win b)", "Z"), "tcp.sport": ("(b_sport b)", "Z"), "tcp.dport": ("(b_dport b)", "Z"), "tcp.payload": ("(b_payload b)", "PAY"),
    "signature.ttl": ("(s_ttl s)", "Z"), "signature.quirks": ("(s_quirks s)", "Q"), "signature.window.type": ("(s_wtype s)", "WT"),
    "signature.window.size": ("(s_wsize s)", "Z"), "signature.window.scale": ("(s_wscale s)", "Z"), "signature.options.mss": ("(s_mss s)", "Z"),
    "signature.options.layout": ("(s_layout s)", "LIST Z"), "signature.payload_class": ("(s_pay s)", "Z"), "signature.ip_version": ("(s_ver s)", "Z"),
}
PARAMS = {"ip": None, "tcp": None, "signature": None, "extra_hops": ("hops", "Z"), "mtu": ("mtu", "Z"), "uptime": ("uptime", "OPT Z"),
          "new_options": ("new_options", "LIST OOPT")}
WT = {"NORMAL": "WNormal", "ANY": "WAny", "MOD": "WMod", "MSS": "WMss", "MTU": "WMtu"}
HINT_PRELUDE = [
    "def int_only(val: Optional[int]):\n    return val if isinstance(val, int) else None",
    "original_options = dict(tcp.options)",
    "mss_hint = int_only(original_options.get('MSS'))",
    "window_scale_hint = int_only(original_options.get('WScale'))",
    "timestamp_option = original_options.get('Timestamp')",
    "if not (isinstance(timestamp_option, tuple) and len(timestamp_option) == 2):\n    timestamp_option = (None, None)",
    "timestamp_hint = [int_only(value) for value in timestamp_option]",
]
HINT_BINDINGS = {"mss_hint": ("(b_mss b)", "OPT Z"), "window_scale_hint": ("(b_ws b)", "OPT Z"), "timestamp_hint": ("(b_ts1 b, b_ts2 b)", "PAIR OPT Z")}
CONSTRUCTORS = {
    "ScapyIPv6": ("GIp6", ["src", "dst", "hlim", "fl", "tc"], {"src": "ADDR", "dst": "ADDR", "hlim": "Z", "fl": "Z", "tc": "Z"}),
    "ScapyIPv4": ("GIp4", ["src", "dst", "frag", "proto", "flags", "id", "ttl", "tos"],
                  {"src": "ADDR", "dst": "ADDR", "frag": "Z", "proto": "Z", "flags": "Z", "id": "Z", "ttl": "Z", "tos": "Z", "options": "EMPTY"}),
    "ScapyTCP": ("GTcp", ["sport", "dport", "seq", "ack", "flags", "urgptr", "options", "window"],
                 {"sport": "Z", "dport": "Z", "seq": "Z", "ack": "Z", "flags": "Z", "urgptr": "Z", "options": "LIST OOPT", "window": "Z"}),
}
OOPT = {"MSS": ("OoMss", "Z"), "WScale": ("OoWs", "Z"), "Timestamp": ("OoTs", "ZZ"), "NOP": ("OoNop", "NONE"), "SAckOK": ("OoSok", "EMPTYSTR"),
        "EOL": ("OoEol", "NONE"), "SAck": ("OoSack", "ZEROS")}
RET_TYPES = {"_impersonate_ip": "GIP", "_impersonate_options": "LIST OOPT", "_impersonate_window": "Z", "_impersonate_tcp": "GTCP",
             "_impersonate_payload": "PAY"}
COQ_TYPES = {"Z": "Z", "B": "bool", "OPT Z": "option Z", "OPT OOPT": "option oopt", "OOPT": "oopt", "LIST OOPT": "list oopt", "LIST Z": "list Z",
             "GIP": "gen_ip", "GTCP": "gen_tcp", "PAY": "list Z", "ADDR": "list Z", "Q": "N", "WT": "wtype", "PAIR OPT Z": "(option Z * option Z)"}


class Tr:
    def __init__(self, repo):
        self.repo = repo
        sys.path.insert(0, repo)
        import importlib
        ns = {}
        ns["TCPFlag"] = importlib.import_module("pyp0f.net.layers.tcp").TCPFlag
        ns["TCPOption"] = importlib.import_module("pyp0f.net.layers.tcp").TCPOption
        ns["Quirk"] = importlib.import_module("pyp0f.net.quirks").Quirk
        ns["WindowType"] = importlib.import_module("pyp0f.database.signatures").WindowType
        ns["WILDCARD"] = importlib.import_module("pyp0f.database.parse.utils").WILDCARD
        ns["IPV6"] = importlib.import_module("pyp0f.net.layers.ip").IPV6
        ns["IPV4"] = importlib.import_module("pyp0f.net.layers.ip").IPV4
        self.ns = ns
        self.n = 0
        self.loops = 0

    def fresh(self, base="x"):
        self.n += 1
        return "%s_%d" % (base, self.n)

    # ---------------------------------------------------------------- constants
    def const(self, e):
        """Value of a constant expression (ints and the project's enums only), else None."""
        for n in ast.walk(e):
            if isinstance(n, ast.Name):
                if n.id not in self.ns:
                    return None
            elif isinstance(n, ast.Constant):
                if not isinstance(n.value, int) or isinstance(n.value, bool):
                    return None
            elif not isinstance(n, (ast.Attribute, ast.BinOp, ast.UnaryOp, ast.operator, ast.unaryop, ast.Load, ast.Expression)):
                return None
        try:
            v = eval(compile(ast.Expression(e), "<const>", "eval"), {"__builtins__": {}}, dict(self.ns))
        except Exception:
            return None
        import enum
        if isinstance(v, self.ns["WindowType"]):
            return ("WT", WT[v.name])
        if isinstance(v, self.ns["Quirk"]):
            return ("Q", int(v.value))
        if isinstance(v, enum.Enum):
            return ("Z", int(v.value))
        if isinstance(v, int) and not isinstance(v, bool):
            return ("Z", int(v))
        return None

    # ---------------------------------------------------------------- expressions
    # every expression translates to (eff, term, type): eff=False -> term : type; eff=True -> term : M type
    def to_m(self, r):
        eff, t, ty = r
        return t if eff else "(ret %s)" % t

    def bind_all(self, rs, build):
        """Evaluate the sub-results left to right; build(list of pure terms) -> (eff, term, type)."""
        names, binds = [], []
        for eff, t, ty in rs:
            if eff:
                v = self.fresh("v")
                binds.append((v, t))
                names.append(v)
            else:
                names.append(t)
        res = build(names)
        if not binds:
            return res
        body = self.to_m(res)
        for v, t in reversed(binds):
            body = "(let* %s := %s in %s)" % (v, t, body)
        return (True, body, res[2])

    def coerce(self, r, want, node):
        eff, t, ty = r
        if ty == want:
            return r
        if ty == "OPT Z" and want == "Z":       # use of a possibly-None value as a number: TypeError when None
            if eff:
                v = self.fresh("o")
                return (True, "(let* %s := %s in gen_unwrap %s)" % (v, t, v), "Z")
            return (True, "(gen_unwrap %s)" % t, "Z")
        if want == "OPT Z" and ty == "Z":
            return self.bind_all([r], lambda a: (False, "(Some %s)" % a[0], "OPT Z"))
        if want == "OPT OOPT" and ty == "OOPT":
            return self.bind_all([r], lambda a: (False, "(Some %s)" % a[0], "OPT OOPT"))
        if want == "B":
            return self.truthy(r, node)
        fail(node, "type %s where %s is needed" % (ty, want))

    def truthy(self, r, node):
        eff, t, ty = r
        if ty == "B":
            return r
        if ty == "Z":
            return self.bind_all([r], lambda a: (False, "(negb (%s =? 0))" % a[0], "B"))
        if ty == "PAY":
            return self.bind_all([r], lambda a: (False, "(match %s with [] => false | _ :: _ => true end)" % a[0], "B"))
        if ty in ("OPT Z", "OPT OOPT"):
            fail(node, "truth value of an Optional (None and 0 would be conflated): write `is None`")
        fail(node, "truth value of type " + ty)

    def name_path(self, e):
        if isinstance(e, ast.Name):
            return e.id
        if isinstance(e, ast.Attribute):
            b = self.name_path(e.value)
            return None if b is None else b + "." + e.attr
        return None

    def ex(self, e, env):
        c = self.const(e)
        if c is not None:
            ty, v = c
            if ty == "Z":
                return (False, "(%d)" % v, "Z")
            if ty == "WT":
                return (False, v, "WT")
            if ty == "Q":
                return (False, "(%d)%%N" % v, "QM")
        if isinstance(e, ast.Constant) and e.value is None:
            return (False, "None", "NONE")
        if isinstance(e, ast.Constant) and isinstance(e.value, str):
            return (False, repr(e.value), "STR:" + e.value)
        p = self.name_path(e)
        if p is not None:
            if p in env:
                return (False, env[p][0], env[p][1])
            if p in ATTRS:
                return (False,) + ATTRS[p]
            fail(e, "unknown name")
        if isinstance(e, ast.BoolOp):
            rs = [self.truthy(self.ex(v, env), v) for v in e.values]
            return self.boolop(isinstance(e.op, ast.And), rs)
        if isinstance(e, ast.UnaryOp) and isinstance(e.op, ast.Not):
            r = self.truthy(self.ex(e.operand, env), e.operand)
            return self.bind_all([r], lambda a: (False, "(negb %s)" % a[0], "B"))
        if isinstance(e, ast.Compare):
            return self.compare(e, env)
        if isinstance(e, ast.BinOp):
            ops = {ast.Add: "(%s + %s)", ast.Sub: "(%s - %s)", ast.Mult: "(%s * %s)", ast.FloorDiv: "(%s / %s)", ast.BitAnd: "(Z.land %s %s)",
                   ast.BitOr: "(Z.lor %s %s)"}
            if type(e.op) not in ops:
                fail(e, "operator")
            if isinstance(e.op, ast.Mult) and isinstance(e.left, ast.Constant) and isinstance(e.left.value, bytes):
                if e.left.value != b"\x00":
                    fail(e, "bytes literal")
                r = self.coerce(self.ex(e.right, env), "Z", e.right)
                return self.bind_all([r], lambda a: (False, a[0], "ZEROS"))
            l = self.coerce(self.ex(e.left, env), "Z", e.left)
            r = self.coerce(self.ex(e.right, env), "Z", e.right)
            if isinstance(e.op, ast.FloorDiv):
                c = self.const(e.right)
                if not (r[0] is False):
                    fail(e, "effectful divisor")
                # Python raises ZeroDivisionError; Coq's Z./ returns 0: make the crash explicit
                return self.bind_all([l, r], lambda a: (True, "(gen_div %s %s)" % (a[0], a[1]), "Z"))
            return self.bind_all([l, r], lambda a: (False, ops[type(e.op)] % (a[0], a[1]), "Z"))
        if isinstance(e, ast.IfExp):
            c = self.truthy(self.ex(e.test, env), e.test)
            a = self.ex(e.body, env)
            b = self.ex(e.orelse, env)
            ty = a[2]
            if b[2] != ty:
                if {a[2], b[2]} == {"Z", "OPT Z"}:
                    ty = "OPT Z"
                elif a[2] == "NONE" and b[2] in ("Z", "OPT Z"):
                    ty = "OPT Z"
                elif b[2] == "NONE" and a[2] in ("Z", "OPT Z"):
                    ty = "OPT Z"
                else:
                    fail(e, "branches of different types %s / %s" % (a[2], b[2]))
                a = self.coerce_none(a, ty, e.body)
                b = self.coerce_none(b, ty, e.orelse)
            if not a[0] and not b[0]:
                return self.bind_all([c], lambda x: (False, "(if %s then %s else %s)" % (x[0], a[1], b[1]), ty))
            return self.bind_all([c], lambda x: (True, "(if %s then %s else %s)" % (x[0], self.to_m(a), self.to_m(b)), ty))
        if isinstance(e, ast.Tuple):
            return self.tuple_opt(e, env)
        if isinstance(e, ast.Call):
            return self.call(e, env)
        fail(e, "expression form")

    def coerce_none(self, r, ty, node):
        if r[2] == "NONE" and ty.startswith("OPT "):
            return (False, "None", ty)
        return self.coerce(r, ty, node)

    def boolop(self, is_and, rs):
        # short circuit, left to right; effects of later operands happen only when they are evaluated
        res = rs[-1]
        for r in reversed(rs[:-1]):
            if not res[0] and not r[0]:
                res = (False, ("(%s && %s)" if is_and else "(%s || %s)") % (r[1], res[1]), "B")
            else:
                v = self.fresh("c")
                rest = self.to_m(res)
                body = ("(if %s then %s else ret false)" if is_and else "(if %s then ret true else %s)") % (v, rest)
                res = (True, "(let* %s := %s in %s)" % (v, self.to_m(r), body), "B")
        return res

    def compare(self, e, env):
        operands = [e.left] + list(e.comparators)
        parts = []
        vals = [self.ex(o, env) for o in operands]
        for i, op in enumerate(e.ops):
            l, r = vals[i], vals[i + 1]
            ln, rn = operands[i], operands[i + 1]
            if isinstance(op, (ast.Is, ast.IsNot)):
                if r[2] != "NONE" or not l[2].startswith("OPT "):
                    fail(e, "`is` is supported only as `<optional> is [not] None`")
                neg = isinstance(op, ast.IsNot)
                parts.append(self.bind_all([l], lambda a, neg=neg: (False, "(match %s with None => %s | Some _ => %s end)" % (a[0], "false" if neg else "true", "true" if neg else "false"), "B")))
                continue
            if isinstance(op, (ast.In, ast.NotIn)):
                if l[2] != "QM" or r[2] != "Q":
                    fail(e, "`in` is supported only for a Quirk constant in a quirk set")
                neg = isinstance(op, ast.NotIn)
                parts.append(self.bind_all([r], lambda a, m=l[1], neg=neg: (False, ("(negb (gen_in %s %s))" if neg else "(gen_in %s %s)") % (m, a[0]), "B")))
                continue
            if l[2] == "WT" or r[2] == "WT":
                if l[2] != "WT" or r[2] != "WT" or not isinstance(op, (ast.Eq, ast.NotEq)):
                    fail(e, "window type comparison")
                t = "(gen_wt_eqb %s %s)" % (l[1], r[1])
                parts.append((False, t if isinstance(op, ast.Eq) else "(negb %s)" % t, "B"))
                continue
            sym = {ast.Eq: "=?", ast.NotEq: None, ast.Lt: "<?", ast.LtE: "<=?", ast.Gt: ">?", ast.GtE: ">=?"}.get(type(op), "x")
            if sym == "x":
                fail(e, "comparison operator")
            if isinstance(op, (ast.Eq, ast.NotEq)) and "OPT Z" in (l[2], r[2]):
                fail(e, "== on an Optional")
            lz = self.coerce(l, "Z", ln)
            rz = self.coerce(r, "Z", rn)
            if i > 0 and (lz[0] or vals[i][0]) and not isinstance(operands[i], ast.Name):
                fail(e, "chained comparison re-evaluating an effectful operand")
            if sym is None:
                parts.append(self.bind_all([lz, rz], lambda a: (False, "(negb (%s =? %s))" % (a[0], a[1]), "B")))
            else:
                parts.append(self.bind_all([lz, rz], lambda a, sym=sym: (False, "(%s %s %s)" % (a[0], sym, a[1]), "B")))
        return parts[0] if len(parts) == 1 else self.boolop(True, parts)

    def tuple_opt(self, e, env):
        if len(e.elts) == 2 and isinstance(e.elts[0], ast.Constant) and e.elts[0].value in OOPT:
            ctor, shape = OOPT[e.elts[0].value]
            v = e.elts[1]
            if shape == "Z":
                r = self.coerce(self.ex(v, env), "Z", v)
                return self.bind_all([r], lambda a: (False, "(%s %s)" % (ctor, a[0]), "OOPT"))
            if shape == "ZZ":
                if not (isinstance(v, ast.Tuple) and len(v.elts) == 2):
                    fail(e, "timestamp value")
                a = self.coerce(self.ex(v.elts[0], env), "Z", v.elts[0])
                b = self.coerce(self.ex(v.elts[1], env), "Z", v.elts[1])
                return self.bind_all([a, b], lambda x: (False, "(%s %s %s)" % (ctor, x[0], x[1]), "OOPT"))
            if shape == "NONE":
                if not (isinstance(v, ast.Constant) and v.value is None):
                    fail(e, "option value")
                return (False, ctor, "OOPT")
            if shape == "EMPTYSTR":
                if not (isinstance(v, ast.Constant) and v.value in ("", b"")):
                    fail(e, "option value")
                return (False, ctor, "OOPT")
            if shape == "ZEROS":
                r = self.ex(v, env)
                if r[2] != "ZEROS":
                    fail(e, "SAck value must be zero bytes")
                return self.bind_all([r], lambda a: (False, "(%s %s)" % (ctor, a[0]), "OOPT"))
        fail(e, "tuple")

    def call(self, e, env):
        f = self.name_path(e.func)
        if f in ("random.randrange", "random.randint") and len(e.args) == 2 and not e.keywords:
            a = self.coerce(self.ex(e.args[0], env), "Z", e.args[0])
            b = self.coerce(self.ex(e.args[1], env), "Z", e.args[1])
            return self.bind_all([a, b], lambda x: (True, "(draw %s %s)" % (x[0], x[1] if f.endswith("randrange") else "(%s + 1)" % x[1]), "Z"))
        if f == "random.choice" and len(e.args) == 1 and isinstance(e.args[0], ast.Call) and self.name_path(e.args[0].func) == "range":
            cs = [self.const(a) for a in e.args[0].args]
            if not cs or any(c is None or c[0] != "Z" for c in cs) or e.args[0].keywords:
                fail(e, "random.choice(range(...)) with non-constant bounds")
            r = range(*[c[1] for c in cs])
            if len(r) == 0:
                return (True, "(draw 0 0)", "Z")
            return (True, "(let* i_ := draw 0 %d in ret (%d + %d * i_))" % (len(r), r.start, r.step), "Z")
        if f == "random_string" and not e.args and len(e.keywords) == 1 and e.keywords[0].arg == "size":
            n = self.coerce(self.ex(e.keywords[0].value, env), "Z", e)
            return self.bind_all([n], lambda a: (True, "(gen_random_string %s)" % a[0], "PAY"))
        if f == "tcp_payload" and len(e.args) == 1 and not e.keywords and self.name_path(e.args[0]) == "tcp":
            return (False, "(b_payload b)", "PAY")        # impersonate/utils.py tcp_payload, checked literally in main()
        if f == "NoPayload" and not e.args and not e.keywords:
            return (False, "[]", "PAY")
        if f == "Raw" and not e.args and len(e.keywords) == 1 and e.keywords[0].arg == "load":
            r = self.ex(e.keywords[0].value, env)
            if r[2] != "PAY":
                fail(e, "Raw(load=...)")
            return r
        if isinstance(e.func, ast.Attribute) and e.func.attr == "get" and isinstance(e.func.value, ast.Call) \
                and self.name_path(e.func.value.func) == "dict" and len(e.func.value.args) == 1 and len(e.args) == 1 \
                and isinstance(e.args[0], ast.Constant) and e.args[0].value == "MSS":
            r = self.ex(e.func.value.args[0], env)
            if r[2] != "LIST OOPT":
                fail(e, "dict(...).get")
            return self.bind_all([r], lambda a: (False, "(gen_dict_get_mss %s)" % a[0], "OPT Z"))
        if f in RET_TYPES:
            want = {"_impersonate_options": ["tcp", "signature", "uptime"], "_impersonate_window": ["tcp", "signature", "new_options", "mtu"]}.get(f)
            if want is None or e.keywords or len(e.args) != len(want):
                fail(e, "call shape")
            args = []
            for a, w in zip(e.args, want):
                if w in ("tcp", "signature"):
                    if self.name_path(a) != w:
                        fail(e, "the base packet / signature must be passed through unchanged")
                else:
                    args.append(self.coerce_none(self.ex(a, env), PARAMS[w][1], a))
            name = "gen" + f
            return self.bind_all(args, lambda x: (True, "(%s s b %s)" % (name, " ".join(x)), RET_TYPES[f]))
        if f in CONSTRUCTORS:
            ctor, order, types = CONSTRUCTORS[f]
            if e.args:
                fail(e, "positional constructor arguments")
            seen, rs = {}, []
            for kw in e.keywords:
                if kw.arg not in types or kw.arg in seen:
                    fail(e, "constructor keyword " + str(kw.arg))
                if types[kw.arg] == "EMPTY":
                    if not (isinstance(kw.value, ast.List) and not kw.value.elts):
                        fail(e, "options must be []")
                    continue
                r = self.coerce(self.ex(kw.value, env), types[kw.arg], kw.value)
                seen[kw.arg] = len(rs)
                rs.append(r)
            if set(seen) != set(order):
                fail(e, "constructor keywords missing: %s" % sorted(set(order) - set(seen)))
            return self.bind_all(rs, lambda x: (False, "(%s %s)" % (ctor, " ".join(x[seen[k]] for k in order)), "GIP" if ctor.startswith("GIp") else "GTCP"))
        fail(e, "call")

    # ---------------------------------------------------------------- statements
    def assigned(self, stmts):
        out = []
        for s in stmts:
            for n in ast.walk(s):
                if isinstance(n, (ast.Assign, ast.AugAssign, ast.AnnAssign)):
                    ts = n.targets if isinstance(n, ast.Assign) else [n.target]
                    for t in ts:
                        for x in ([t] if isinstance(t, ast.Name) else t.elts if isinstance(t, ast.Tuple) else []):
                            if isinstance(x, ast.Name) and x.id not in out:
                                out.append(x.id)
                if isinstance(n, ast.Call) and isinstance(n.func, ast.Attribute) and n.func.attr == "append" and isinstance(n.func.value, ast.Name):
                    if n.func.value.id not in out:
                        out.append(n.func.value.id)
        return out

    def terminates(self, stmts):
        if not stmts:
            return False
        s = stmts[-1]
        if isinstance(s, (ast.Return, ast.Raise)):
            return True
        if isinstance(s, ast.If):
            return self.terminates(s.body) and self.terminates(s.orelse)
        return False

    def block(self, stmts, env, ret_ty, k):
        """Translate stmts; k(env) gives the M-term of what follows (None at function end)."""
        if not stmts:
            if k is None:
                fail(None, "function falls off its end")
            return k(env)
        s, rest = stmts[0], stmts[1:]
        cont = lambda env2: self.block(rest, env2, ret_ty, k)
        if isinstance(s, ast.Expr) and isinstance(s.value, ast.Constant) and isinstance(s.value.value, str):
            return cont(env)
        if isinstance(s, ast.Return):
            r = self.coerce_none(self.ex(s.value, env), ret_ty, s)
            return self.to_m(r)
        if isinstance(s, ast.Raise):
            if isinstance(s.exc, ast.Call) and self.name_path(s.exc.func) == "ValueError":
                return "(fail ValueErr)"
            fail(s, "raise")
        if isinstance(s, ast.AnnAssign):
            if not isinstance(s.target, ast.Name) or s.value is None:
                fail(s, "annotated assignment")
            ann = ast.unparse(s.annotation)
            ty = {"Optional[Tuple[str, Any]]": "OPT OOPT", "Optional[int]": "OPT Z", "int": "Z"}.get(ann)
            if ty is None:
                fail(s, "annotation")
            return self.assign(s.target.id, self.coerce_none(self.ex(s.value, env), ty, s.value), env, cont, declared=ty)
        if isinstance(s, ast.Assign):
            if len(s.targets) != 1:
                fail(s, "multiple targets")
            t = s.targets[0]
            if isinstance(t, ast.Tuple):
                r = self.ex(s.value, env)
                if r[2] != "PAIR OPT Z" or len(t.elts) != 2 or not all(isinstance(x, ast.Name) for x in t.elts) or r[0]:
                    fail(s, "tuple assignment")
                a, b2 = self.fresh(t.elts[0].id), self.fresh(t.elts[1].id)
                env2 = dict(env)
                env2[t.elts[0].id] = (a, "OPT Z")
                env2[t.elts[1].id] = (b2, "OPT Z")
                return "(let '(%s, %s) := %s in %s)" % (a, b2, r[1], cont(env2))
            if not isinstance(t, ast.Name):
                fail(s, "assignment target")
            if isinstance(s.value, ast.List) and not s.value.elts:
                return self.assign(t.id, (False, "[]", "LIST OOPT"), env, cont)
            r = self.ex(s.value, env)
            if t.id in env and env[t.id][1] != r[2]:
                r = self.coerce_none(r, env[t.id][1], s.value)
            return self.assign(t.id, r, env, cont)
        if isinstance(s, ast.AugAssign):
            if not isinstance(s.target, ast.Name) or s.target.id not in env:
                fail(s, "augmented assignment")
            fake = ast.BinOp(left=ast.Name(id=s.target.id, ctx=ast.Load()), op=s.op, right=s.value)
            ast.copy_location(fake, s)
            ast.fix_missing_locations(fake)
            return self.assign(s.target.id, self.ex(fake, env), env, cont)
        if isinstance(s, ast.Expr) and isinstance(s.value, ast.Call) and isinstance(s.value.func, ast.Attribute) and s.value.func.attr == "append" \
                and isinstance(s.value.func.value, ast.Name) and len(s.value.args) == 1:
            lst = s.value.func.value.id
            if lst not in env or env[lst][1] != "LIST OOPT":
                fail(s, "append to an unknown list")
            r = self.coerce(self.ex(s.value.args[0], env), "OOPT", s.value.args[0])
            return self.assign(lst, self.bind_all([r], lambda a: (False, "(%s ++ [%s])" % (env[lst][0], a[0]), "LIST OOPT")), env, cont)
        if isinstance(s, ast.If):
            return self.if_stmt(s, rest, env, ret_ty, k)
        if isinstance(s, ast.For):
            return self.for_stmt(s, env, ret_ty, cont)
        fail(s, "statement form")

    def assign(self, name, r, env, cont, declared=None):
        eff, t, ty = r
        if ty == "NONE":
            fail(None, "assignment of None to an untyped variable " + name)
        v = self.fresh(name)
        env2 = dict(env)
        env2[name] = (v, declared or ty)
        if eff:
            return "(let* %s := %s in %s)" % (v, t, cont(env2))
        return "(let %s := %s in %s)" % (v, t, cont(env2))

    def narrowing(self, test, env):
        """`X is None` / `X is not None` on a local Optional: returns (name, positive)"""
        if isinstance(test, ast.Compare) and len(test.ops) == 1 and isinstance(test.left, ast.Name) and test.left.id in env \
                and env[test.left.id][1].startswith("OPT ") and isinstance(test.comparators[0], ast.Constant) and test.comparators[0].value is None:
            if isinstance(test.ops[0], ast.IsNot):
                return test.left.id, True
            if isinstance(test.ops[0], ast.Is):
                return test.left.id, False
        return None

    def if_stmt(self, s, rest, env, ret_ty, k):
        body_t, else_t = self.terminates(s.body), self.terminates(s.orelse)
        nar = self.narrowing(s.test, env)

        def branches(mk_then, mk_else):
            if nar is not None:
                name, positive = nar
                inner = self.fresh(name)
                env_some = dict(env)
                env_some[name] = (inner, env[name][1][4:])
                some_branch = mk_then(env_some) if positive else mk_else(env_some)
                none_branch = mk_else(env) if positive else mk_then(env)
                return "(match %s with Some %s => %s | None => %s end)" % (env[name][0], inner, some_branch, none_branch)
            c = self.truthy(self.ex(s.test, env), s.test)
            if c[0]:
                v = self.fresh("c")
                return "(let* %s := %s in if %s then %s else %s)" % (v, c[1], v, mk_then(env), mk_else(env))
            return "(if %s then %s else %s)" % (c[1], mk_then(env), mk_else(env))

        if body_t and else_t:
            return branches(lambda e1: self.block(s.body, e1, ret_ty, None), lambda e2: self.block(s.orelse, e2, ret_ty, None))
        if body_t and not s.orelse:
            return branches(lambda e1: self.block(s.body, e1, ret_ty, None), lambda e2: self.block(rest, self.widen(e2, env), ret_ty, k))
        # join: the variables assigned in either branch flow on as a tuple
        # (a variable first assigned inside a branch is local to it: a later use is an "unknown name")
        vs = [v for v in self.assigned(s.body + s.orelse) if v in env]
        if body_t or else_t:
            fail(s, "a branch that returns next to one that falls through with an else")

        def end(envx):
            envw = self.widen(envx, env)
            outs = []
            for v in vs:
                t, ty = envw[v]
                if ty != env[v][1]:
                    r = self.coerce((False, t, ty), env[v][1], s)
                    if r[0]:
                        fail(s, "join needs an effectful coercion")
                    t = r[1]
                outs.append(t)
            return "(ret (%s))" % ", ".join(outs) if len(outs) != 1 else "(ret %s)" % outs[0]
        joined = branches(lambda e1: self.block(s.body, e1, ret_ty, end), lambda e2: self.block(s.orelse, e2, ret_ty, end) if s.orelse else end(e2))
        env2 = dict(env)
        names = []
        for v in vs:
            nv = self.fresh(v)
            names.append(nv)
            env2[v] = (nv, env[v][1])
        if not names:
            fail(s, "if statement without effect")
        return self.bind_pat(names, joined, self.block(rest, env2, ret_ty, k))

    def bind_pat(self, names, m, body):
        if len(names) == 1:
            return "(let* %s := %s in %s)" % (names[0], m, body)
        p = self.fresh("p")
        return "(let* %s := %s in let '(%s) := %s in %s)" % (p, m, ", ".join(names), p, body)

    def widen(self, envx, env):
        """After a narrowing branch ends, the narrowed variable (if not reassigned) is Optional again."""
        out = dict(envx)
        for name, (t, ty) in envx.items():
            if name in env and env[name][1].startswith("OPT ") and ty == env[name][1][4:] and t != env[name][0]:
                # either narrowed or reassigned with a plain value: present it as Some
                out[name] = ("(Some %s)" % t, env[name][1])
        return out

    def for_stmt(self, s, env, ret_ty, cont):
        if s.orelse or not isinstance(s.target, ast.Name):
            fail(s, "for loop shape")
        it = self.ex(s.iter, env)
        if it[0] or it[2] != "LIST Z":
            fail(s, "for loop over something other than the option layout")
        carried = [v for v in self.assigned(s.body) if v in env]
        self.loops += 1
        lname = "loop%d" % self.loops
        env_in = dict(env)
        params = []
        for v in carried:
            nv = self.fresh(v)
            env_in[v] = (nv, env[v][1])
            params.append("(%s : %s)" % (nv, COQ_TYPES[env[v][1]]))
        elem = self.fresh(s.target.id)
        env_in[s.target.id] = (elem, "Z")
        state_ty = " * ".join(COQ_TYPES[env[v][1]] for v in carried) or "unit"

        def end(envx):
            envw = self.widen(envx, env_in)
            return "(%s rest_ %s)" % (lname, " ".join(envw[v][0] for v in carried))
        body = self.block(s.body, env_in, ret_ty, end)
        done = "(ret (%s))" % ", ".join(env_in[v][0] for v in carried) if len(carried) != 1 else "(ret %s)" % env_in[carried[0]][0]
        fix = "(fix %s (l_ : list Z) %s {struct l_} : M (%s) := match l_ with [] => %s | %s :: rest_ => %s end)" % (
            lname, " ".join(params), state_ty, done, elem, body)
        env2 = dict(env)
        names = []
        for v in carried:
            nv = self.fresh(v)
            names.append(nv)
            env2[v] = (nv, env[v][1])
        return self.bind_pat(names, "%s %s %s" % (fix, it[1], " ".join(env[v][0] for v in carried)), cont(env2))

    # ---------------------------------------------------------------- functions
    def function(self, fn):
        env = {}
        params = []
        for a in fn.args.args:
            if a.arg not in PARAMS:
                fail(fn, "parameter " + a.arg)
            if PARAMS[a.arg] is not None:
                env[a.arg] = PARAMS[a.arg]
                params.append("(%s : %s)" % (PARAMS[a.arg][0], COQ_TYPES[PARAMS[a.arg][1]]))
        if fn.args.kwonlyargs or fn.args.vararg or fn.args.kwarg:
            fail(fn, "parameter kinds")
        body = list(fn.body)
        if fn.name == "_impersonate_options":
            # locate and check the hint prelude, literally
            idx = [i for i, st in enumerate(body) if isinstance(st, ast.FunctionDef)]
            if len(idx) != 1:
                fail(fn, "hint prelude: int_only")
            i = idx[0]
            got = [ast.unparse(st) for st in body[i:i + len(HINT_PRELUDE)]]
            if got != HINT_PRELUDE:
                fail(body[i], "hint prelude differs from the assumed one: %r" % (got,))
            body = body[:i] + body[i + len(HINT_PRELUDE):]
            env.update(HINT_BINDINGS)
        ret_ty = RET_TYPES[fn.name]
        term = self.block(body, env, ret_ty, None)
        return "Definition gen%s (s : tcp_sig) (b : base) %s : M (%s) :=\n  %s." % (fn.name, " ".join(params), COQ_TYPES[ret_ty], term)


PRELUDE = r"""(* GENERATED by translate/imp2coq.py from pyp0f/impersonate/tcp.py -- do not edit *)
From PV Require Import Model.Prelude Model.Bits Model.Sig Model.Options Model.Imperson.

Inductive gen_ip :=
| GIp4 (src dst : list Z) (frag proto flags id ttl tos : Z)
| GIp6 (src dst : list Z) (hlim fl tc : Z).
Inductive gen_tcp := GTcp (sport dport seq ack flags urgptr : Z) (options : list oopt) (window : Z).

Definition gen_in (m q : N) : bool := N.eqb (N.land q m) m.                 (* Quirk.X in quirks *)
Definition gen_unwrap (o : option Z) : M Z := match o with Some v => ret v | None => fail (Crash CType) end.
Definition gen_div (a d : Z) : M Z := if d =? 0 then fail (Crash COther) else ret (a / d).
Definition gen_wt_eqb (a c : wtype) : bool :=
  match a, c with WNormal, WNormal | WAny, WAny | WMod, WMod | WMss, WMss | WMtu, WMtu => true | _, _ => false end.
Definition gen_dict_get_mss (l : list oopt) : option Z := last_mss_opt l None.
Definition gen_random_string (n : Z) : M (list Z) := let* cs := draw_chars (Z.to_nat n) in ret (map char_of cs).
"""


def main():
    repo, out = sys.argv[1], sys.argv[2]
    src = open(os.path.join(repo, "pyp0f", "impersonate", "tcp.py"), encoding="utf-8").read()
    tree = ast.parse(src)
    fns = {n.name: n for n in tree.body if isinstance(n, ast.FunctionDef)}
    tr = Tr(repo)
    # random_string itself: checked literally (its body is the primitive gen_random_string)
    usrc = ast.parse(open(os.path.join(repo, "pyp0f", "impersonate", "utils.py"), encoding="utf-8").read())
    rs = [n for n in usrc.body if isinstance(n, ast.FunctionDef) and n.name == "random_string"]
    consts = [ast.unparse(n) for n in usrc.body if isinstance(n, ast.Assign)]
    if len(rs) != 1 or ast.unparse(rs[0].body[0]) != "return ''.join((random.choice(chars) for _ in range(size)))" \
            or ast.unparse(rs[0].args) != "*, size: int, chars=_DEFAULT_CHARS" \
            or "_DEFAULT_CHARS = string.ascii_uppercase + string.ascii_lowercase + string.digits" not in consts:
        raise Unsupported("impersonate/utils.py random_string differs from the assumed primitive")
    tp = [n for n in usrc.body if isinstance(n, ast.FunctionDef) and n.name == "tcp_payload"]
    if len(tp) != 1 or [ast.unparse(x) for x in tp[0].body if not (isinstance(x, ast.Expr) and isinstance(x.value, ast.Constant))] != \
            ["payload = tcp.payload", "return NoPayload() if isinstance(payload, Padding) else payload"]:
        raise Unsupported("impersonate/utils.py tcp_payload differs from the assumed primitive (the base's TCP payload without link-layer padding)")
    parts = [PRELUDE]
    for name in ["_impersonate_ip", "_impersonate_options", "_impersonate_window", "_impersonate_tcp", "_impersonate_payload"]:
        if name not in fns:
            raise Unsupported("function %s not found" % name)
        parts.append(tr.function(fns[name]))
    parts.append(top_level(tr, fns))
    open(out, "w").write("\n\n".join(parts) + "\n")


def top_level(tr, fns):
    """impersonate() itself: which signature is used (raw_signature before raw_label, ValueError when neither is given, the direction of
    the label lookup), the IPv4 / IPv6 check, and the ORDER in which the three layers are built (it is the order of the random draws).
    Glue statements are compared literally; the two tests and the direction expression are translated."""
    if "impersonate" not in fns:
        raise Unsupported("impersonate not found")
    f = fns["impersonate"]
    if ast.unparse(f.args) != ("packet: ScapyPacket, *, mtu: int=1500, extra_hops: int=0, uptime: Optional[int]=None, raw_label: Optional[str]=None, "
                               "raw_signature: Optional[str]=None, database: Database=OPTIONS.database"):
        fail(f, "impersonate parameters")
    body = [x for x in f.body if not (isinstance(x, ast.Expr) and isinstance(x.value, ast.Constant))]
    if len(body) != 7 or [ast.unparse(x) for x in body[:3]] != ["validate_for_impersonation(packet)", "tcp = packet[ScapyTCP]", "tcp_type = tcp.flags & (TCPFlag.SYN | TCPFlag.ACK)"] \
            or ast.unparse(body[5]) != "ip = packet[ScapyIPv4] if ScapyIPv4 in packet else packet[ScapyIPv6]":
        fail(f, "impersonate glue statements")
    # --- the choice of the signature: a decision tree over `x is [not] None` tests of the two arguments
    def is_none_test(t):
        if isinstance(t, ast.Compare) and len(t.ops) == 1 and isinstance(t.ops[0], (ast.Is, ast.IsNot)) and isinstance(t.comparators[0], ast.Constant) \
                and t.comparators[0].value is None and isinstance(t.left, ast.Name) and t.left.id in ("raw_signature", "raw_label"):
            return t.left.id, isinstance(t.ops[0], ast.Is)
        return None

    def tree(stmts):
        st = stmts[0]
        if isinstance(st, ast.If) and is_none_test(st.test):
            name, is_none = is_none_test(st.test)
            a = tree(list(st.body))
            b = tree(list(st.orelse) if st.orelse else stmts[1:])
            if not st.orelse and not isinstance(st.body[-1], ast.Raise):
                fail(st, "if without else that falls through")
            some, none = (b, a) if is_none else (a, b)
            return "(match %s with Some %s_v => %s | None => %s end)" % (name, name, some, none)
        if isinstance(st, ast.Raise) and isinstance(st.exc, ast.Call) and getattr(st.exc.func, "id", None) == "ValueError" and len(stmts) == 1:
            return "fail ValueErr"
        if len(stmts) == 1 and ast.unparse(st) == "signature = TCPSignature.parse(raw_signature)":
            return "(parse raw_signature_v)"
        if len(stmts) == 2 and isinstance(st, ast.Assign) and ast.unparse(st.targets[0]) == "direction" and isinstance(st.value, ast.IfExp) \
                and ast.unparse(stmts[1]) == "signature = database.get_random(raw_label, TCPRecord, direction).signature":
            ie = st.value
            names = {"Direction.CLIENT_TO_SERVER": "true", "Direction.SERVER_TO_CLIENT": "false"}
            if ast.unparse(ie.body) not in names or ast.unparse(ie.orelse) not in names:
                fail(ie, "direction values")
            t = ie.test
            if not (isinstance(t, ast.Compare) and len(t.ops) == 1 and isinstance(t.ops[0], (ast.Eq, ast.NotEq)) and ast.unparse(t.left) == "tcp_type"
                    and ast.unparse(t.comparators[0]) in ("TCPFlag.SYN", "TCPFlag.SYN | TCPFlag.ACK")):
                fail(t, "direction test")
            want = 2 if ast.unparse(t.comparators[0]) == "TCPFlag.SYN" else 18
            c = "(Z.eqb (Z.land flags 18) (%d))" % want
            if isinstance(t.ops[0], ast.NotEq):
                c = "(negb %s)" % c
            return "(lookup raw_label_v (if %s then %s else %s))" % (c, names[ast.unparse(ie.body)], names[ast.unparse(ie.orelse)])
        fail(st, "signature selection")
    sel = tree([body[3]])
    # --- the version check
    vc = body[4]
    if not (isinstance(vc, ast.If) and not vc.orelse and len(vc.body) == 1 and isinstance(vc.body[0], ast.Raise) and isinstance(vc.body[0].exc, ast.Call)
            and getattr(vc.body[0].exc.func, "id", None) == "ValueError"):
        fail(vc, "version check shape")
    env = {"packet": None}
    saved = dict(ATTRS)
    ATTRS["packet.version"] = ("(b_ver b)", "Z")
    try:
        r = tr.truthy(tr.ex(vc.test, {}), vc.test)
    finally:
        ATTRS.clear()
        ATTRS.update(saved)
    if r[0]:
        fail(vc, "version check is not pure")
    # --- the composition, in evaluation order
    ret = body[6]
    chain = []
    e = ret.value if isinstance(ret, ast.Return) else None
    while isinstance(e, ast.BinOp) and isinstance(e.op, ast.Div):
        chain.insert(0, e.right)
        e = e.left
    chain.insert(0, e)
    calls = {"_impersonate_ip(ip, signature, extra_hops)": ("ip", "gen_impersonate_ip s b hops"), "_impersonate_tcp(tcp, signature, mtu, uptime)": ("tcp", "gen_impersonate_tcp s b mtu uptime"),
             "_impersonate_payload(tcp, signature)": ("pay", "gen_impersonate_payload s b")}
    got = [ast.unparse(x) if x is not None else "" for x in chain]
    if sorted(got) != sorted(calls) or got[0] != "_impersonate_ip(ip, signature, extra_hops)" or got[2] != "_impersonate_payload(tcp, signature)":
        fail(ret, "impersonate must return ip / tcp / payload built by the three helpers")
    lets = " ".join("let* %s := %s in" % calls[g] for g in got)
    return ("(* impersonate(): which signature, the IP version check, the three layers in evaluation order *)\n"
            "Definition gen_select_signature {T S : Type} (parse : T -> M S) (lookup : T -> bool -> M S) (raw_signature raw_label : option T) (flags : Z) : M S :=\n  %s.\n"
            "Definition gen_impersonate_compose {A : Type} (asm : gen_ip -> gen_tcp -> list Z -> A) (s : tcp_sig) (b : base) (hops mtu : Z) (uptime : option Z) : M A :=\n"
            "  if %s then fail ValueErr else\n  %s ret (asm ip tcp pay)." % (sel, r[1], lets))


if __name__ == "__main__":
    try:
        main()
    except Unsupported as e:
        print("UNSUPPORTED: %s" % e)
        sys.exit(3)
    except Exception as e:  # fail closed: anything the translator cannot digest is "unsupported", never a guess
        print("UNSUPPORTED: the source has a shape the translator does not handle (%s: %s)" % (type(e).__name__, str(e)[:200]))
        sys.exit(3)
