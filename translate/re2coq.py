#!/venv/bin/python
"""Fail-closed translator for the three regular expressions that the verified code hands to Python's `re` module.

    re2coq.py <repo> <out.v>          (writes coq/Gen/GeneratedRe.v)

Reads, with `ast`, the pattern LITERALS (and the flags) of

    HTTP_VERSION_PATTERN = re.compile(rb"...")              <repo>/pyp0f/net/layers/http/read.py          -> gen_re_version
    _HEADER_PATTERN      = re.compile(rb"...")              <repo>/pyp0f/database/signatures/http.py      -> gen_re_header
    blank_line_regex     = re.compile(b"...", re.MULTILINE) h11/_receivebuffer.py of the INSTALLED h11    -> gen_re_blank
                                                            (importlib.util.find_spec("h11"))

parses each with CPython's OWN pattern parser (`re._parser.parse(pattern, flags)`; `sre_parse` before Python 3.11) and prints the
resulting tree as a term of the type `re` of coq/Gen/GenReLib.v, plus the flag re.MULTILINE as a boolean and the named groups.
So the reading of the pattern SYNTAX is CPython's; what is trusted is GenReLib.v's semantics of the node kinds.  Every node kind,
flag, or argument outside what GenReLib.v models => UNSUPPORTED, exit 2, no output file.

The three source files can be replaced by copies (self-test) with the environment variables RE2COQ_READ_PY, RE2COQ_SIGHTTP_PY,
RE2COQ_H11_PY.
"""
import ast
import importlib.util
import os
import re
import sys

try:
    import re._parser as sre_parse          # Python >= 3.11
    import re._constants as sre_constants
except ImportError:                         # pragma: no cover
    import sre_parse
    import sre_constants

C = sre_constants
FLAG_NAMES = {"A": re.A, "ASCII": re.ASCII, "I": re.I, "IGNORECASE": re.IGNORECASE, "L": re.L, "LOCALE": re.LOCALE, "M": re.M,
              "MULTILINE": re.MULTILINE, "S": re.S, "DOTALL": re.DOTALL, "X": re.X, "VERBOSE": re.VERBOSE, "U": re.U,
              "UNICODE": re.UNICODE}


class Unsupported(Exception):
    pass


# ---------------------------------------------------------------------------------------------------------------------
# reading the literal
# ---------------------------------------------------------------------------------------------------------------------
def flag_value(e):
    """the value of a flags expression made of re.<FLAG> and `|` only"""
    if isinstance(e, ast.Attribute) and isinstance(e.value, ast.Name) and e.value.id == "re" and e.attr in FLAG_NAMES:
        return int(FLAG_NAMES[e.attr])
    if isinstance(e, ast.BinOp) and isinstance(e.op, ast.BitOr):
        return flag_value(e.left) | flag_value(e.right)
    raise Unsupported("flags expression %s" % ast.unparse(e))


def read_literal(path, name):
    """(pattern bytes, flags int) of the ONE module-level `name = re.compile(<bytes literal>[, <flags>])`"""
    with open(path, "rb") as fh:
        tree = ast.parse(fh.read(), path)
    imports_re = False
    for n in ast.walk(tree):
        if isinstance(n, ast.Import):
            for a in n.names:
                if a.name == "re" and a.asname is None:
                    imports_re = True
                elif (a.asname or a.name.split(".")[0]) == "re":
                    raise Unsupported("%s: another module is imported as `re`" % path)
        if isinstance(n, ast.ImportFrom):
            for a in n.names:
                if (a.asname or a.name) in ("re", name):
                    raise Unsupported("%s: `from ... import %s`" % (path, a.asname or a.name))
        if isinstance(n, (ast.Global, ast.Nonlocal)) and ("re" in n.names or name in n.names):
            raise Unsupported("%s: global / nonlocal %s" % (path, n.names))
        if isinstance(n, (ast.FunctionDef, ast.AsyncFunctionDef, ast.ClassDef)) and n.name in ("re", name):
            raise Unsupported("%s: a def / class named %s" % (path, n.name))
        if isinstance(n, ast.arg) and n.arg in ("re",):
            raise Unsupported("%s: a parameter named re" % path)
    if not imports_re:
        raise Unsupported("%s: `import re` not found" % path)
    stores = [n for n in ast.walk(tree) if isinstance(n, ast.Name) and n.id in (name, "re") and isinstance(n.ctx, (ast.Store, ast.Del))]
    assigns = [n for n in tree.body if isinstance(n, ast.Assign) and len(n.targets) == 1 and isinstance(n.targets[0], ast.Name)
               and n.targets[0].id == name]
    if len(assigns) != 1 or len(stores) != 1 or stores[0] is not assigns[0].targets[0]:
        raise Unsupported("%s: %s is not bound exactly once, by a plain module-level assignment (or `re` is rebound)" % (path, name))
    v = assigns[0].value
    if not (isinstance(v, ast.Call) and isinstance(v.func, ast.Attribute) and v.func.attr == "compile"
            and isinstance(v.func.value, ast.Name) and v.func.value.id == "re" and not v.keywords and len(v.args) in (1, 2)):
        raise Unsupported("%s: %s is not re.compile(<literal>[, <flags>])" % (path, name))
    pat = v.args[0]
    if not (isinstance(pat, ast.Constant) and type(pat.value) is bytes):
        raise Unsupported("%s: the pattern of %s is not a bytes literal (GenReLib.v models bytes patterns only)" % (path, name))
    flags = flag_value(v.args[1]) if len(v.args) == 2 else 0
    return pat.value, flags


# ---------------------------------------------------------------------------------------------------------------------
# CPython's parse tree -> Gallina
# ---------------------------------------------------------------------------------------------------------------------
def z(n):
    if not (isinstance(n, int) and 0 <= n <= 255):
        raise Unsupported("byte value %r" % (n,))
    return "%d%%Z" % n


def seq(items):
    """a SubPattern (sequence of nodes) as a right-nested RCat"""
    terms = [node(op, av) for op, av in items]
    if not terms:
        return "REmpty"
    out = terms[-1]
    for t in reversed(terms[:-1]):
        out = "(RCat %s %s)" % (t, out)
    return out


def class_item(op, av):
    if op is C.LITERAL:
        return "(CLit %s)" % z(av)
    if op is C.RANGE:
        return "(CRange %s %s)" % (z(av[0]), z(av[1]))
    if op is C.CATEGORY and av is C.CATEGORY_DIGIT:
        return "CDigit"
    raise Unsupported("class item %s %s" % (op, av))


def node(op, av):
    if op is C.LITERAL:
        return "(RLit %s)" % z(av)
    if op is C.NOT_LITERAL:
        return "(RNotLit %s)" % z(av)
    if op is C.IN:
        items = list(av)
        negate = bool(items) and items[0][0] is C.NEGATE
        if negate:
            items = items[1:]
        return "(RIn %s [%s])" % ("true" if negate else "false", "; ".join(class_item(o, a) for o, a in items))
    if op is C.BRANCH:
        must_be_none, alts = av
        if must_be_none is not None or len(alts) < 2:
            raise Unsupported("BRANCH %r" % (av,))
        terms = [seq(a) for a in alts]
        out = terms[-1]
        for t in reversed(terms[:-1]):
            out = "(RAlt %s %s)" % (t, out)
        return out
    if op is C.MAX_REPEAT:
        lo, hi, body = av
        if (lo, hi) == (0, 1):
            return "(ROpt %s)" % seq(body)
        if lo == 0 and hi is C.MAXREPEAT:
            return "(RStar %s)" % seq(body)
        raise Unsupported("repeat {%s,%s} (only ? and * are modelled)" % (lo, hi))
    if op is C.ASSERT_NOT:
        direction, body = av
        if direction != 1:
            raise Unsupported("negative lookbehind")
        return "(RNotAhead %s)" % seq(body)
    if op is C.AT:
        if av is C.AT_BEGINNING:
            return "RBegin"
        if av is C.AT_END:
            return "REnd"
        raise Unsupported("anchor %s" % av)
    if op is C.SUBPATTERN:
        group, add_flags, del_flags, body = av
        if add_flags or del_flags:
            raise Unsupported("inline flags in a group")
        if group is None:
            return seq(body)
        if not (isinstance(group, int) and group >= 1):
            raise Unsupported("group number %r" % (group,))
        return "(RGroup %d%%nat %s)" % (group, seq(body))
    raise Unsupported("node %s %r" % (op, av))


def coq_string(s):
    if not all(32 <= ord(ch) < 127 and ch != '"' for ch in s):
        raise Unsupported("group name %r" % s)
    return '"%s"%%string' % s


def translate(pattern, flags, gen_name):
    if flags & ~int(re.MULTILINE):
        raise Unsupported("%s: flags %r (only re.MULTILINE is modelled)" % (gen_name, re.RegexFlag(flags)))
    tree = sre_parse.parse(pattern, flags)
    final = int(tree.state.flags)
    if final & ~int(re.MULTILINE):
        raise Unsupported("%s: flags %r after parsing (inline flags)" % (gen_name, re.RegexFlag(final)))
    term = seq(list(tree))
    groups = sorted(tree.state.groupdict.items(), key=lambda kv: kv[1])
    out = ["(* %s, flags %d *)" % (ascii(pattern).replace("*)", "* )").replace("(*", "( *").replace('"', "<dq>"), final),
           "Definition %s : re := %s." % (gen_name, term),
           "Definition %s_multiline : bool := %s." % (gen_name, "true" if final & int(re.MULTILINE) else "false"),
           "Definition %s_groups : list (string * nat) := [%s]." % (gen_name, "; ".join("(%s, %d%%nat)" % (coq_string(k), v) for k, v in groups)),
           ""]
    return "\n".join(out)


HEADER = """(* GENERATED by translate/re2coq.py from the pattern literals of pyp0f/net/layers/http/read.py, pyp0f/database/signatures/http.py
   and the installed h11/_receivebuffer.py, through CPython's re._parser.parse -- do not edit *)
From Coq Require Import String ZArith List.
From PV Require Import Gen.GenReLib.
Import ListNotations.

"""


def main():
    if len(sys.argv) != 3:
        print("usage: re2coq.py <repo> <out.v>", file=sys.stderr)
        return 2
    repo, out = sys.argv[1], sys.argv[2]
    try:
        spec = importlib.util.find_spec("h11")
        if spec is None or not spec.submodule_search_locations:
            raise Unsupported("h11 is not installed")
        h11_dir = list(spec.submodule_search_locations)[0]
        sources = [
            ("gen_re_version", os.environ.get("RE2COQ_READ_PY") or os.path.join(repo, "pyp0f/net/layers/http/read.py"), "HTTP_VERSION_PATTERN"),
            ("gen_re_header", os.environ.get("RE2COQ_SIGHTTP_PY") or os.path.join(repo, "pyp0f/database/signatures/http.py"), "_HEADER_PATTERN"),
            ("gen_re_blank", os.environ.get("RE2COQ_H11_PY") or os.path.join(h11_dir, "_receivebuffer.py"), "blank_line_regex"),
        ]
        parts = [HEADER]
        for gen_name, path, name in sources:
            pattern, flags = read_literal(path, name)
            parts.append("(* %s of %s *)\n" % (name, path) + translate(pattern, flags, gen_name))
            print("re2coq: %s = %r flags %d  (%s)" % (name, pattern, flags, path))
    except (Unsupported, re.error, OSError, SyntaxError) as e:
        print("UNSUPPORTED: %s" % e, file=sys.stderr)
        if os.path.exists(out):
            os.remove(out)
        return 2
    with open(out, "w", encoding="ascii") as fh:
        fh.write("\n".join(parts))
    return 0


if __name__ == "__main__":
    sys.exit(main())
