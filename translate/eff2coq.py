#!/venv/bin/python
"""Fail-closed may-write (side-effect) analysis of pyp0f, emitted as Gallina data (coq/Gen/GeneratedEff.v).

    eff2coq.py <repo> <out.v>

The write-effect summary of every public entry point is RE-DERIVED from <repo>/pyp0f/**/*.py on every run (only `ast` is used;
pyp0f is never imported).  coq/Gen/GenEffP.v ties the emitted summaries to the heap/frame model of property C12
(coq/Model/Frame.v): the proofs stop compiling when a summary changes in a way that matters.

Analysis: flow-insensitive, interprocedural, field-insensitive points-to + mod analysis (Andersen style) over ALL functions,
methods, properties, nested functions and module initialisers of pyp0f, iterated to a fixpoint.
  origins   P i   the object passed as parameter i            R i   any object reachable from parameter i (strictly inside)
            G n   a module-level mutable object               F s   an object allocated at site s during the call
            (no origin = Const: numbers, str, bytes, None, enum members, functions, classes, tuples of Consts)
  value of an expression = set of origins (what object it may be);  heap : origin -> origins its fields/elements may hold
  (heap[P i] = heap[R i] = {R i}); "content" of a value = everything reachable through heap.
  summary of a function = (writes : set of P i / R i / G n with the source chain that causes each,
                           ret : origins of the returned value, fresh_content : what returned/stored fresh objects hold,
                           edges : origin -> origins the call may store into it).
  In the emitted summaries both P i and R i are printed as `OParam i` ("parameter i or anything reachable from it");
  internally the distinction is kept, so that a callee that only writes the parameter object ITSELF (e.g. the cache of
  TCPPacketSignature.window_multiplier) does not count as a write to what a fresh argument merely refers to.
Writes: attribute / subscript stores and deletes, augmented assignments (unless rebinding, see below), calls of methods in the
MUTATING table, writes of callees mapped through the argument binding, `random.*` (G "random"), assignments to `global`s,
setattr / delattr / x.__dict__.  Writes to F objects are dropped.  Reads never count.
Container mutators (append, pop, update ...) write the receiver only; every other mutating method (h11 / Scapy / files)
and `x op= v` on a value not known immutable write receiver, arguments and everything reachable from them.
`gen_lib_reads`: the caller / global objects each entry point hands DIRECTLY to Scapy / h11 code that is only assumed pure
(bytes(x), x.__class__, x.copy(), field / layer / `in` on a Scapy-typed value ...) - makes "stops copying" visible.
Anything not understood => `UNSUPPORTED: file:line: what` on stderr, exit 2.

TRUSTED BASE (printed into the generated file):
  * the tables EXT_* / METH_* below (assumed-pure, assumed-deep-copy and mutating externals);
  * `x op= v` on a plain name (or attribute) is a REBINDING, not a write, when x is statically typed immutable: its declared
    type (parameter / field / return annotation, followed through attribute loads) is int/str/bytes/bool/float, an Enum/Flag
    class, a tuple of those - or it is one of SCAPY_VALUE_FIELDS of a Scapy packet (ints, str, FlagValue: scapy/fields.py
    FlagValue defines no in-place operator; this is re-checked on the installed Scapy source).  Every use is listed in
    `gen_trusted_rebindings`.  Annotations are used for NOTHING else than this and for resolving method calls.
  * Scapy `a / b` (left operand statically a Scapy packet) returns a packet built from copies of both operands
    (Packet.__div__ = self.copy() / other.copy() / add_payload on the copy; re-checked on the installed Scapy source).
  * exception objects are not tracked; the contents of a caught exception may not be used (checked: only str(e), repr(e),
    `raise ... from e`); iteration is a read.
"""
import ast
import builtins
import importlib.util
import os
import sys


class Unsupported(Exception):
    pass


EMPTY = frozenset()
FRESH = ("Fresh",)
IMM = ("imm",)
SCAPY = ("scapy",)
SCAPYVAL = ("scapyval",)

# ---------------------------------------------------------------------------------------------------- external tables
# functions: dotted name -> mode
#   const   : pure, returns an immutable value                     deep : pure, returns a fresh object sharing nothing
#   shallow : pure, fresh container holding the ELEMENTS of args   reach: pure, fresh container holding anything reachable
#   elem    : pure, returns an argument or something inside one    new  : pure constructor, fresh object holding its args
EXT_FUNCS = {}
for _n in ("len int str bool float complex isinstance issubclass repr type hash ord chr callable id divmod range bytes format "
           "hex bin oct pow abs round any all hasattr").split():
    EXT_FUNCS["builtins." + _n] = "const"
for _n in "list set tuple frozenset sorted reversed iter".split():
    EXT_FUNCS["builtins." + _n] = "shallow"
for _n in "dict zip enumerate".split():
    EXT_FUNCS["builtins." + _n] = "reach"
for _n in "min max sum".split():
    EXT_FUNCS["builtins." + _n] = "elem"
EXT_FUNCS.update({
    "builtins.bytearray": "deep", "copy.deepcopy": "deep", "copy.copy": "shallow", "builtins.open": "deep",
    "dataclasses.fields": "reach", "h11._receivebuffer.ReceiveBuffer": "deep",
    "contextlib.suppress": "const", "os.fspath": "const", "builtins.object": "deep",
})
EXT_CONST_PREFIXES = ("time.", "re.", "struct.", "string.", "typing.", "typing_extensions.", "enum.", "pathlib.", "email.utils.",
                      "os.path.", "abc.", "datetime.")
EXT_FORBIDDEN = {"builtins." + n for n in "exec eval compile globals locals vars __import__ input breakpoint memoryview super".split()}
EXT_SPECIAL = {"builtins.next", "builtins.getattr", "builtins.setattr", "builtins.delattr", "dataclasses.field"}
BUILTIN_EXC_SUFFIXES = ("Error", "Exception", "Warning", "Exit", "Interrupt", "StopIteration")
RANDOM_ELEM = {"random.choice"}            # returns an element of its argument; every random.* writes G "random"
RANDOM_FRESH = {"random.sample", "random.choices"}
RANDOM_MUTATING = {"random.shuffle"}
# methods of external objects, by NAME
METH_CONST = set((
    "lower upper strip lstrip rstrip split rsplit splitlines partition rpartition join format encode decode startswith endswith "
    "isspace isdigit isalpha isalnum find rfind index count hex group groups groupdict match search fullmatch finditer unpack "
    "unpack_from pack issubset issuperset isdisjoint bit_length to_bytes total_seconds timestamp replace title capitalize zfill "
    "ljust rjust center haslayer answers summary sprintf layers build tell fileno isatty readable").split())
METH_SHALLOW = set("items keys values copy intersection union difference symmetric_difference".split())
METH_ELEM = set("get getlayer lastlayer firstlayer getfieldval getfield_and_val get_field".split())
MUTATING_METHODS = sorted(set((
    "append extend insert pop remove clear update add discard sort reverse setdefault popitem "
    "intersection_update difference_update symmetric_difference_update appendleft popleft extendleft rotate "
    "maybe_extract_lines maybe_extract_next_line maybe_extract_at_most _extract __iadd__ "
    "remove_payload add_payload setfieldval delfieldval add_underlayer remove_underlayer add_parent remove_parent clear_cache "
    "self_build hide_defaults decode_payload_as do_dissect dissect do_dissect_payload do_init_fields do_init_cached_fields "
    "prepare_cached_fields init_fields "
    "__setitem__ __delitem__ __setattr__ __delattr__ __setstate__ __init__ __ior__ __iand__ __ixor__ __isub__ __imul__ "
    "write writelines read readline readlines seek truncate close flush send throw __next__ __enter__ __exit__").split()))
# mutating methods of the builtin containers: only the receiver (the container itself) is written.  Every other mutating
# method belongs to an opaque object (h11 ReceiveBuffer, Scapy packet, file, generator ...): it may write the receiver, its
# arguments and anything reachable from them (a shallow copy shares its internals with the original).
CONTAINER_MUTATORS = set((
    "append extend insert pop remove clear update add discard sort reverse setdefault popitem intersection_update "
    "difference_update symmetric_difference_update appendleft popleft extendleft rotate").split())
# attribute loads of these names from a Scapy packet give ints / str / FlagValue (no in-place operators)
SCAPY_VALUE_FIELDS = set("version ihl tos len id flags frag ttl proto chksum src dst tc fl plen nh hlim sport dport seq ack dataofs "
                         "reserved window urgptr".split())
SCAPY_PACKET_FIELDS = {"payload", "underlayer"}
ENUM_BASES = {"enum.Enum", "enum.Flag", "enum.IntEnum", "enum.IntFlag", "enum.StrEnum"}
IMM_BUILTINS = {"int", "str", "bytes", "bool", "float", "complex"}
CLASS_DECORATORS_OK = {"dataclasses.dataclass", "pyp0f.utils.slots.add_slots"}
DUNDER_OK = {"__init__", "__post_init__"}


def rel(path, repo):
    return os.path.relpath(path, repo)


# ---------------------------------------------------------------------------------------------------- program model
class Mod:
    def __init__(self, name, path, relpath, tree, is_pkg):
        self.name, self.path, self.rel, self.tree, self.is_pkg = name, path, relpath, tree, is_pkg
        self.syms = {}


class FuncInfo:
    def __init__(self, qual, mod, node, cls=None, kind="func"):
        self.qual, self.mod, self.node, self.cls, self.kind = qual, mod, node, cls, kind
        a = node.args if not isinstance(node, ast.Module) else None
        self.params = []          # (name, annotation, default-node)
        self.closure = None       # (factory FuncInfo, nested def node, module of the binding, call node)
        if a is not None:
            if a.vararg or a.kwarg:
                raise Unsupported("%s:%s: *args/**kwargs parameters of %s" % (mod.rel, node.lineno, qual))
            pos = a.posonlyargs + a.args
            defs = [None] * (len(pos) - len(a.defaults)) + list(a.defaults)
            for p, d in zip(pos, defs):
                self.params.append((p.arg, p.annotation, d))
            for p, d in zip(a.kwonlyargs, a.kw_defaults):
                self.params.append((p.arg, p.annotation, d))
            self.npos = len(pos)
        else:
            self.npos = 0

    def __repr__(self):
        return "<fn %s>" % self.qual


class ClassInfo:
    def __init__(self, qual, mod, node):
        self.qual, self.mod, self.node, self.name = qual, mod, node, node.name
        self.bases = []           # ClassInfo or ('ext', dotted)
        self.is_dataclass = False
        self.fields = []          # (name, annotation, default-node)     dataclass-style annotated attributes
        self.classvars = {}       # name -> (annotation or None, value node or None)
        self.methods = {}         # name -> FuncInfo
        self.mro = None

    def __repr__(self):
        return "<class %s>" % self.qual


class Analyzer:
    def __init__(self, repo):
        self.repo = os.path.abspath(repo)
        self.mods = {}
        self.funcs = []            # every FuncInfo (functions, methods, module initialisers, closure instances)
        self.classes = []
        self.fa = {}               # qual -> FA
        self.summ = {}             # qual -> Summary
        self.GH = {}               # global heap: ('G', q) -> set of origins
        self.gval = {}             # module variable qual -> frozenset of origins
        self.changed = False
        self.used_ext = set()
        self.rebindings = set()
        self.closures = {}
        self.scapy_checks = []
        self.load()

    # ------------------------------------------------------------------------------------------------ loading
    def load(self):
        root = os.path.join(self.repo, "pyp0f")
        if not os.path.isdir(root):
            raise Unsupported("%s: no pyp0f package" % self.repo)
        for d, dirs, files in sorted(os.walk(root)):
            dirs.sort()
            for f in sorted(files):
                if not f.endswith(".py"):
                    continue
                path = os.path.join(d, f)
                parts = os.path.relpath(path, self.repo)[:-3].split(os.sep)
                is_pkg = parts[-1] == "__init__"
                if is_pkg:
                    parts = parts[:-1]
                name = ".".join(parts)
                try:
                    tree = ast.parse(open(path, encoding="utf-8").read(), path)
                except SyntaxError as ex:
                    raise Unsupported("%s:%s: syntax error" % (rel(path, self.repo), ex.lineno))
                self.mods[name] = Mod(name, path, rel(path, self.repo), tree, is_pkg)
        for m in self.mods.values():
            self.symbols(m)
        for c in self.classes:
            self.class_details(c)
        for c in self.classes:
            c.mro = self.linearize(c, ())
        self.methods_by_name, self.props_by_name = {}, {}
        for c in self.classes:
            for n, f in c.methods.items():
                (self.props_by_name if f.kind == "property" else self.methods_by_name).setdefault(n, []).append(f)
        for m in sorted(self.mods.values(), key=lambda m: m.name):
            fi = FuncInfo(m.name + ".<module>", m, m.tree, None, "module")
            m.init = fi
            self.funcs.append(fi)

    def fail(self, mod, node, what):
        raise Unsupported("%s:%s: %s" % (mod.rel, getattr(node, "lineno", "?"), what))

    def symbols(self, m):
        pkg = m.name if m.is_pkg else m.name.rsplit(".", 1)[0]
        for s in m.tree.body:
            if isinstance(s, ast.FunctionDef):
                fi = FuncInfo(m.name + "." + s.name, m, s)
                self.check_func_decorators(fi)
                m.syms[s.name] = ("func", fi)
                self.funcs.append(fi)
            elif isinstance(s, ast.ClassDef):
                ci = ClassInfo(m.name + "." + s.name, m, s)
                m.syms[s.name] = ("class", ci)
                self.classes.append(ci)
            elif isinstance(s, ast.Import):
                for a in s.names:
                    if a.asname:
                        m.syms[a.asname] = ("mod", a.name)
                    else:
                        m.syms[a.name.split(".")[0]] = ("mod", a.name.split(".")[0])
            elif isinstance(s, ast.ImportFrom):
                base = s.module or ""
                if s.level:
                    up = pkg.split(".")
                    up = up[:len(up) - (s.level - 1)]
                    base = ".".join(up + ([s.module] if s.module else []))
                for a in s.names:
                    if a.name == "*":
                        self.fail(m, s, "star import")
                    m.syms[a.asname or a.name] = ("from", base, a.name)
            elif isinstance(s, ast.Assign):
                for t in s.targets:
                    if isinstance(t, ast.Name):
                        m.syms[t.id] = ("var", m.name + "." + t.id, s.value, None, m)
                    elif isinstance(t, (ast.Tuple, ast.List)) and all(isinstance(x, ast.Name) for x in t.elts):
                        for x in t.elts:
                            m.syms[x.id] = ("var", m.name + "." + x.id, None, None, m)
                    else:
                        self.fail(m, s, "module-level assignment target " + ast.unparse(t))
            elif isinstance(s, ast.AnnAssign):
                if not isinstance(s.target, ast.Name):
                    self.fail(m, s, "module-level annotated target")
                m.syms[s.target.id] = ("var", m.name + "." + s.target.id, s.value, s.annotation, m)
            elif isinstance(s, ast.Expr) and isinstance(s.value, ast.Constant):
                pass
            else:
                self.fail(m, s, "module-level statement " + type(s).__name__)

    def resolve(self, modname, name, depth=0):
        """canonical entity behind a module-level name"""
        if depth > 20:
            raise Unsupported("import cycle resolving %s in %s" % (name, modname))
        m = self.mods[modname]
        s = m.syms.get(name)
        if s is None:
            if hasattr(builtins, name):
                return ("ext", "builtins." + name)
            if name in ("__file__", "__name__", "__doc__", "__package__"):
                return ("ext", "module." + name)
            return None
        if s[0] == "from":
            base, nm = s[1], s[2]
            if base in self.mods:
                if nm in self.mods[base].syms:
                    return self.resolve(base, nm, depth + 1)
                if base + "." + nm in self.mods:
                    return ("pymod", base + "." + nm)
                raise Unsupported("%s: cannot resolve `from %s import %s`" % (m.rel, base, nm))
            if base == "pyp0f" or base.startswith("pyp0f."):
                raise Unsupported("%s: import of unknown pyp0f module %s" % (m.rel, base))
            return ("ext", base + "." + nm)
        if s[0] == "mod":
            return ("pymod", s[1]) if s[1] in self.mods else ("extmod", s[1])
        return s

    def static(self, modname, e, is_local=lambda n: False):
        """entity denoted by a Name / dotted Attribute chain that does not go through local variables"""
        if isinstance(e, ast.Name):
            if is_local(e.id):
                return None
            return self.resolve(modname, e.id)
        if isinstance(e, ast.Attribute):
            b = self.static(modname, e.value, is_local)
            if b is None:
                return None
            if b[0] in ("extmod", "ext"):
                return ("ext", b[1] + "." + e.attr)
            if b[0] == "pymod":
                if e.attr in self.mods[b[1]].syms:
                    return self.resolve(b[1], e.attr)
                if b[1] + "." + e.attr in self.mods:
                    return ("pymod", b[1] + "." + e.attr)
                return None
            if b[0] == "class":
                return ("classattr", b[1], e.attr)
        return None

    def decorator_name(self, mod, d):
        if isinstance(d, ast.Call):
            d = d.func
        ent = self.static(mod.name, d)
        if ent is None:
            return None
        if ent[0] == "ext":
            return ent[1]
        if ent[0] == "func":
            return ent[1].qual
        return None

    def check_func_decorators(self, fi):
        for d in fi.node.decorator_list:
            n = self.decorator_name(fi.mod, d)
            if fi.cls is None and n == "contextlib.contextmanager":
                continue
            if fi.cls is not None and n in ("builtins.classmethod", "builtins.staticmethod", "builtins.property", "abc.abstractmethod"):
                if n != "abc.abstractmethod":
                    fi.kind = n.split(".")[1]
                continue
            self.fail(fi.mod, fi.node, "decorator %s on %s" % (ast.unparse(d), fi.qual))

    def class_details(self, c):
        m = c.mod
        for d in c.node.decorator_list:
            n = self.decorator_name(m, d)
            if n not in CLASS_DECORATORS_OK:
                self.fail(m, c.node, "class decorator " + ast.unparse(d))
            if n == "dataclasses.dataclass":
                c.is_dataclass = True
        for b in c.node.bases:
            if isinstance(b, ast.Subscript):
                b = b.value
            ent = self.static(m.name, b)
            if ent is None:
                self.fail(m, c.node, "base class " + ast.unparse(b))
            if ent[0] == "class":
                c.bases.append(ent[1])
            elif ent[0] == "ext":
                c.bases.append(ent)
            else:
                self.fail(m, c.node, "base class " + ast.unparse(b))
        for s in c.node.body:
            if isinstance(s, ast.FunctionDef):
                fi = FuncInfo(c.qual + "." + s.name, m, s, c, "method")
                self.check_func_decorators(fi)
                if s.name.startswith("__") and s.name.endswith("__") and s.name not in DUNDER_OK and fi.kind == "method":
                    fi.dunder = True
                c.methods[s.name] = fi
                self.funcs.append(fi)
            elif isinstance(s, ast.AnnAssign) and isinstance(s.target, ast.Name):
                base = s.annotation.value if isinstance(s.annotation, ast.Subscript) else None
                ent = self.static(m.name, base) if base is not None else None
                if ent == ("ext", "typing.ClassVar"):
                    c.classvars[s.target.id] = (s.annotation, s.value)
                else:
                    c.fields.append((s.target.id, s.annotation, s.value))
            elif isinstance(s, ast.Assign) and all(isinstance(t, ast.Name) for t in s.targets):
                for t in s.targets:
                    c.classvars[t.id] = (None, s.value)
            elif isinstance(s, ast.Expr) and isinstance(s.value, ast.Constant):
                pass
            elif isinstance(s, ast.Pass):
                pass
            else:
                self.fail(m, s, "class-body statement " + type(s).__name__)

    def linearize(self, c, seen):
        if c in seen:
            raise Unsupported("%s: inheritance cycle at %s" % (c.mod.rel, c.qual))
        out = [c]
        for b in c.bases:                      # depth-first, left to right, later duplicates win (close enough to C3 here)
            if isinstance(b, ClassInfo):
                for x in self.linearize(b, seen + (c,)):
                    if x in out:
                        out.remove(x)
                    out.append(x)
        return out

    def ext_bases(self, c):
        return {b[1] for k in c.mro for b in k.bases if not isinstance(b, ClassInfo)}

    def is_enum(self, c):
        return bool(self.ext_bases(c) & ENUM_BASES)

    def is_dataclass(self, c):
        return any(k.is_dataclass for k in c.mro)

    def subclasses(self, c):
        return [d for d in self.classes if d is not c and c in d.mro]

    def find_method(self, c, name):
        for k in c.mro:
            if name in k.methods:
                return k.methods[name]
        return None

    def candidates(self, c, name):
        """definitions a call of `name` on an instance / subclass of c may reach"""
        out = []
        for d in [c] + self.subclasses(c):
            f = self.find_method(d, name)
            if f is not None and f not in out:
                out.append(f)
        return out

    def all_fields(self, c):
        out = []
        for k in reversed(c.mro):
            for f in k.fields:
                out = [x for x in out if x[0] != f[0]] + [(f[0], f[1], f[2], k)]
        return out

    def find_member(self, c, name):
        """('field', ann, mod) | ('classvar', ann, value, mod) | ('method', fi) | None"""
        for k in c.mro:
            if name in k.methods:
                return ("method", k.methods[name])
            for f in k.fields:
                if f[0] == name:
                    return ("field", f[1], k.mod)
            if name in k.classvars:
                return ("classvar", k.classvars[name][0], k.classvars[name][1], k.mod)
        return None

    # ------------------------------------------------------------------------------------------------ static types
    def ann_type(self, node, mod, depth=0):
        if node is None or depth > 10:
            return None
        if isinstance(node, ast.Constant):
            if node.value is None:
                return IMM
            if isinstance(node.value, str):
                try:
                    return self.ann_type(ast.parse(node.value, mode="eval").body, mod, depth + 1)
                except SyntaxError:
                    return None
            return None
        if isinstance(node, (ast.Name, ast.Attribute)):
            ent = self.static(mod.name, node)
            return self.entity_type(ent, depth)
        if isinstance(node, ast.Subscript):
            ent = self.static(mod.name, node.value)
            if ent is None or ent[0] != "ext":
                return None
            args = node.slice.elts if isinstance(node.slice, ast.Tuple) else [node.slice]
            if ent[1] in ("typing.Optional", "typing.ClassVar", "dataclasses.InitVar", "typing.Final"):
                return self.ann_type(args[0], mod, depth + 1)
            if ent[1] in ("typing.Type", "builtins.type"):
                t = self.ann_type(args[0], mod, depth + 1)
                return ("cls", t[1]) if t and t[0] == "inst" else None
            if ent[1] in ("typing.Tuple", "builtins.tuple", "typing.Union"):
                ts = [IMM if (isinstance(a, ast.Constant) and a.value is Ellipsis) else self.ann_type(a, mod, depth + 1) for a in args]
                if ts and all(t == ts[0] for t in ts) and (ent[1] == "typing.Union" or ts[0] == IMM):
                    return ts[0]
            return None
        return None

    def entity_type(self, ent, depth=0):
        if ent is None:
            return None
        if ent[0] == "class":
            return IMM if self.is_enum(ent[1]) else ("inst", ent[1])
        if ent[0] == "ext":
            if ent[1].startswith("builtins.") and ent[1][9:] in IMM_BUILTINS:
                return IMM
            if ent[1].startswith("scapy."):
                return SCAPY
            return None
        if ent[0] == "var":                      # TypeVar("T", bound=X)
            v = ent[2]
            if isinstance(v, ast.Call) and self.static(ent[4].name, v.func) == ("ext", "typing.TypeVar"):
                for k in v.keywords:
                    if k.arg == "bound":
                        return self.ann_type(k.value, ent[4], depth + 1)
            return None
        return None


# ---------------------------------------------------------------------------------------------------- scopes
def walk_local(nodes):
    """all nodes of a function body, not descending into nested function / class definitions or lambdas"""
    stack = list(nodes)
    while stack:
        n = stack.pop()
        yield n
        if isinstance(n, (ast.FunctionDef, ast.AsyncFunctionDef, ast.ClassDef, ast.Lambda)):
            continue
        stack.extend(ast.iter_child_nodes(n))


class Scope:
    def __init__(self, parent, body, params):
        self.parent = parent
        self.vars = {}
        self.assigned = set(params)
        self.globs, self.nonlocals = set(), set()
        self.decl = {}       # name -> [annotation nodes]
        self.rhs = {}        # name -> [value expressions of plain assignments]
        self.other = set()   # names assigned by unpacking / for / with / except / def ...
        self.ret = set()
        self.is_gen = False
        for n in walk_local(body):
            if isinstance(n, ast.Global):
                self.globs |= set(n.names)
            elif isinstance(n, ast.Nonlocal):
                self.nonlocals |= set(n.names)
            elif isinstance(n, (ast.Yield, ast.YieldFrom)):
                self.is_gen = True
            elif isinstance(n, ast.Name) and isinstance(n.ctx, (ast.Store, ast.Del)):
                self.assigned.add(n.id)
            elif isinstance(n, (ast.FunctionDef, ast.ClassDef)):
                self.assigned.add(n.name)
                self.other.add(n.name)
            elif isinstance(n, ast.ExceptHandler) and n.name:
                self.assigned.add(n.name)
                self.other.add(n.name)
            elif isinstance(n, (ast.Import, ast.ImportFrom)):
                for a in n.names:
                    self.assigned.add((a.asname or a.name).split(".")[0])
        simple = set()
        for n in walk_local(body):
            if isinstance(n, ast.Assign):
                for t in n.targets:
                    if isinstance(t, ast.Name):
                        self.rhs.setdefault(t.id, []).append(n.value)
                        simple.add(id(t))
            elif isinstance(n, ast.AnnAssign) and isinstance(n.target, ast.Name):
                self.decl.setdefault(n.target.id, []).append(n.annotation)
                if n.value is not None:
                    self.rhs.setdefault(n.target.id, []).append(n.value)
                simple.add(id(n.target))
            elif isinstance(n, ast.NamedExpr):
                self.rhs.setdefault(n.target.id, []).append(n.value)
                simple.add(id(n.target))
            elif isinstance(n, ast.AugAssign) and isinstance(n.target, ast.Name):
                simple.add(id(n.target))
        for n in walk_local(body):
            if isinstance(n, ast.Name) and isinstance(n.ctx, ast.Store) and id(n) not in simple:
                self.other.add(n.id)

    def owner(self, name):
        s = self
        while s is not None:
            if name in s.assigned and name not in s.globs and name not in s.nonlocals:
                return s
            s = s.parent
        return None

    def declared_global(self, name):
        return name in self.globs


class Summary:
    def __init__(self):
        self.writes = {}            # origin (P/R/G) -> cause chain (tuple of strings)
        self.ret = EMPTY            # origins (P/R/G/FRESH)
        self.fresh_content = EMPTY
        self.edges = {}             # origin (P/R/G) -> frozenset of origins (P/R/G/FRESH)
        self.libreads = {}          # (origin, kind) -> cause

    def key(self):
        return (sorted(self.libreads.items()), sorted(self.writes.items()), sorted(self.ret), sorted(self.fresh_content), sorted((k, sorted(v)) for k, v in self.edges.items()))


def cause_key(c):
    return (len(c), c)


# ---------------------------------------------------------------------------------------------------- per-function analysis
class FA:
    def __init__(self, an, fi):
        self.an, self.fi, self.mod = an, fi, fi.mod
        self.heap = {}
        self.writes = {}
        self.libreads = {}        # (origin, kind) -> cause: caller / global objects handed to Scapy / h11 code that is only ASSUMED pure
        self.changed = False
        self.nested = {}          # id(def node) -> (Scope, def node)
        self.type_guard = set()
        node = fi.node
        if fi.kind == "module":
            self.body = [s for s in node.body if not isinstance(s, (ast.FunctionDef, ast.ClassDef, ast.Import, ast.ImportFrom))]
            self.scope = Scope(None, self.body, [])
        elif fi.closure is not None:
            fac, nested, bmod, call = fi.closure
            self.body = fac.node.body
            self.scope = Scope(None, self.body, [p[0] for p in fac.params])
            self.mod = fac.mod
        else:
            self.body = node.body
            self.scope = Scope(None, self.body, [p[0] for p in fi.params])
            for i, p in enumerate(fi.params):
                self.scope.vars[p[0]] = {("P", i)}

    # ---- errors / bookkeeping
    def fail(self, node, what):
        self.an.fail(self.mod, node, what)

    def loc(self, node):
        return "%s:%s" % (self.mod.rel, getattr(node, "lineno", "?"))

    def src(self, node, n=70):
        s = " ".join(ast.unparse(node).split())
        return s if len(s) <= n else s[:n - 3] + "..."

    def site(self, node, tag):
        return ("F", self.fi.qual, getattr(node, "lineno", 0), getattr(node, "col_offset", 0), tag)

    # ---- heap
    def succ1(self, o):
        k = o[0]
        out = set(self.heap.get(o, ()))
        if k == "P" or k == "R":
            out.add(("R", o[1]))
        elif k == "G":
            out |= self.an.GH.get(o, set())
        return out

    def succ(self, vals):
        out = set()
        for o in vals:
            out |= self.succ1(o)
        return out

    def reach_strict(self, vals):
        seen, todo = set(), list(self.succ(vals))
        while todo:
            o = todo.pop()
            if o in seen:
                continue
            seen.add(o)
            todo.extend(self.succ1(o))
        return seen

    def reach(self, vals):
        return set(vals) | self.reach_strict(vals)

    def heap_add(self, o, vals):
        if not vals:
            return
        if o[0] == "G":
            g = set()
            for v in vals:
                if v[0] == "G":
                    g.add(v)
                elif v[0] == "F":
                    g.add(o)                                     # fresh objects stored in a global become part of it
                    g |= {x if x[0] == "G" else (o if x[0] == "F" else ("G", "<escaped caller object>")) for x in self.reach_strict({v})}
                else:
                    g.add(("G", "<escaped caller object>"))
            cur = self.an.GH.setdefault(o, set())
            if not g <= cur:
                cur |= g
                self.an.changed = True
        cur = self.heap.setdefault(o, set())
        if not set(vals) <= cur:
            cur |= vals
            self.changed = True

    def write(self, o, cause):
        if o[0] == "F":
            return
        cause = tuple(cause)
        old = self.writes.get(o)
        if old is None or cause_key(cause) < cause_key(old):
            self.writes[o] = cause
            self.changed = True

    def libread(self, vals, kind, node, cause=None):
        for o in vals:
            if o[0] != "F":
                c = tuple(cause) if cause is not None else ("%s: `%s`" % (self.loc(node), self.src(node)),)
                old = self.libreads.get((o, kind))
                if old is None or cause_key(c) < cause_key(old):
                    self.libreads[(o, kind)] = c
                    self.changed = True

    def store(self, targets, vals, node, what):
        for o in targets:
            self.write(o, ["%s: %s `%s`" % (self.loc(node), what, self.src(node))])
            self.heap_add(o, vals)

    # ---- variables
    def assign_name(self, name, vals, sc, node):
        if sc.declared_global(name) or (sc.parent is None and self.fi.kind == "module" and False):
            q = self.mod.name + "." + name
            self.write(("G", q), ["%s: assignment to global `%s`" % (self.loc(node), name)])
            cur = self.an.gval.get(q, EMPTY)
            new = cur | {v if v[0] == "G" else ("G", q) for v in vals}
            if new != cur:
                self.an.gval[q] = frozenset(new)
                self.an.changed = True
            self.heap_add(("G", q), self.reach_strict(vals))
            return
        o = sc.owner(name) or sc
        cur = o.vars.setdefault(name, set())
        if not set(vals) <= cur:
            cur |= vals
            self.changed = True

    def is_local(self, name, sc):
        return sc.owner(name) is not None

    def load_name(self, e, sc):
        o = sc.owner(e.id)
        if o is not None:
            return frozenset(o.vars.get(e.id, ()))
        ent = self.an.resolve(self.mod.name, e.id)
        if ent is None:
            self.fail(e, "unknown name " + e.id)
        if ent[0] == "var":
            return self.an.gval.get(ent[1], EMPTY)
        return EMPTY

    def static(self, e, sc):
        return self.an.static(self.mod.name, e, lambda n: self.is_local(n, sc))

    # ---- static types (used ONLY for method resolution and for the rebinding rule)
    def var_type(self, name, sc, depth):
        o = sc.owner(name)
        if o is None:
            return None
        key = (id(o), name)
        if key in self.type_guard or depth > 12:
            return None
        fi = self.fi
        is_top = o is self.scope and fi.kind not in ("module",) and fi.closure is None
        params = fi.params if is_top else self.scope_params.get(id(o), [])
        pidx = [i for i, p in enumerate(params) if p[0] == name]
        if is_top and pidx and pidx[0] == 0 and fi.cls is not None and name not in o.rhs and name not in o.other:
            if fi.kind in ("method", "property"):
                return ("inst", fi.cls)
            if fi.kind == "classmethod":
                return ("cls", fi.cls)
        anns = list(o.decl.get(name, []))
        if pidx and params[pidx[0]][1] is not None:
            anns.insert(0, params[pidx[0]][1])
        for a in anns:
            t = self.an.ann_type(a, self.mod)
            if t is not None:
                return t
        if pidx or name in o.other or not o.rhs.get(name):
            return None
        self.type_guard.add(key)
        try:
            ts = [self.etype(v, o, depth + 1) for v in o.rhs[name]]
        finally:
            self.type_guard.discard(key)
        return ts[0] if all(t == ts[0] for t in ts) else None

    def member_type(self, t, attr, depth):
        if t is None:
            return None
        if t == SCAPY:
            return SCAPYVAL if attr in SCAPY_VALUE_FIELDS else (SCAPY if attr in SCAPY_PACKET_FIELDS else None)
        if t[0] == "inst":
            m = self.an.find_member(t[1], attr)
            if m is None:
                return None
            if m[0] == "field":
                return self.an.ann_type(m[1], m[2])
            if m[0] == "classvar":
                return self.classvar_type(m)
            if m[0] == "method" and m[1].kind == "property":
                return self.an.ann_type(m[1].node.returns, m[1].mod)
            return None
        if t[0] == "cls":
            if self.an.is_enum(t[1]):
                return IMM
            m = self.an.find_member(t[1], attr)
            if m is not None and m[0] == "classvar":
                return self.classvar_type(m)
        return None

    def classvar_type(self, m):
        if m[1] is not None:
            return self.an.ann_type(m[1], m[3])
        if m[2] is not None:
            ent = self.an.static(m[3].name, m[2])
            if ent is not None and ent[0] == "class":
                return ("cls", ent[1])
            if isinstance(m[2], ast.Constant):
                return IMM
        return None

    def etype(self, e, sc, depth=0):
        if depth > 12:
            return None
        if isinstance(e, (ast.Constant, ast.JoinedStr, ast.Compare)):
            return IMM
        if isinstance(e, ast.Name):
            if self.is_local(e.id, sc):
                return self.var_type(e.id, sc, depth)
            ent = self.an.resolve(self.mod.name, e.id)
            if ent is None:
                return None
            if ent[0] == "class":
                return ("cls", ent[1])
            if ent[0] == "var":
                return self.an.module_var_type(ent, depth)
            return None
        if isinstance(e, ast.Attribute):
            ent = self.static(e, sc)
            if ent is not None and ent[0] == "class":
                return ("cls", ent[1])
            return self.member_type(self.etype(e.value, sc, depth + 1), e.attr, depth)
        if isinstance(e, ast.Subscript):
            return SCAPY if self.etype(e.value, sc, depth + 1) == SCAPY and not isinstance(e.slice, ast.Slice) else None
        if isinstance(e, ast.BinOp):
            l, r = self.etype(e.left, sc, depth + 1), self.etype(e.right, sc, depth + 1)
            if l == SCAPY and isinstance(e.op, ast.Div):
                return SCAPY
            if l in (IMM, SCAPYVAL) and r in (IMM, SCAPYVAL):
                return SCAPYVAL if SCAPYVAL in (l, r) else IMM
            return None
        if isinstance(e, ast.UnaryOp):
            if isinstance(e.op, ast.Not):
                return IMM
            t = self.etype(e.operand, sc, depth + 1)
            return t if t in (IMM, SCAPYVAL) else None
        if isinstance(e, ast.IfExp):
            a, b = self.etype(e.body, sc, depth + 1), self.etype(e.orelse, sc, depth + 1)
            return a if a == b else None
        if isinstance(e, ast.BoolOp):
            ts = [self.etype(v, sc, depth + 1) for v in e.values]
            return ts[0] if all(t == ts[0] for t in ts) else None
        if isinstance(e, ast.Call):
            f = e.func
            ent = self.static(f, sc)
            if ent is not None:
                if ent[0] == "class":
                    return IMM if self.an.is_enum(ent[1]) else ("inst", ent[1])
                if ent[0] == "func":
                    return self.an.ann_type(ent[1].node.returns, ent[1].mod)
                if ent[0] == "ext":
                    if ent[1].startswith("scapy."):
                        return SCAPY
                    if ent[1].startswith("builtins.") and (ent[1][9:] in IMM_BUILTINS or ent[1][9:] == "len"):
                        return IMM
                    return None
                if ent[0] == "classattr":
                    m = self.an.find_method(ent[1], ent[2])
                    return self.an.ann_type(m.node.returns, m.mod) if m is not None else None
                return None
            t = self.etype(f, sc, depth + 1) if isinstance(f, ast.Name) else None
            if t is not None and t[0] == "cls":
                return IMM if self.an.is_enum(t[1]) else ("inst", t[1])
            if isinstance(f, ast.Attribute):
                rt = self.etype(f.value, sc, depth + 1)
                if rt is not None and rt[0] in ("inst", "cls"):
                    m = self.an.find_method(rt[1], f.attr)
                    if m is not None:
                        return self.an.ann_type(m.node.returns, m.mod)
            return None
        return None

    # ---- expressions
    def ev(self, e, sc):
        m = getattr(self, "ev_" + type(e).__name__, None)
        if m is None:
            self.fail(e, "expression kind " + type(e).__name__)
        return m(e, sc)

    def ev_Constant(self, e, sc):
        return EMPTY

    def ev_Name(self, e, sc):
        return self.load_name(e, sc)

    def ev_JoinedStr(self, e, sc):
        for v in e.values:
            self.ev(v, sc)
        return EMPTY

    def ev_FormattedValue(self, e, sc):
        self.ev(e.value, sc)
        if e.format_spec is not None:
            self.ev(e.format_spec, sc)
        return EMPTY

    def ev_Compare(self, e, sc):
        self.ev(e.left, sc)
        for op, c in zip(e.ops, e.comparators):
            v = self.ev(c, sc)
            if isinstance(op, (ast.In, ast.NotIn)) and self.etype(c, sc) == SCAPY:
                self.libread(v, "contains", e)
        return EMPTY

    def ev_BoolOp(self, e, sc):
        out = set()
        for v in e.values:
            out |= self.ev(v, sc)
        return frozenset(out)

    def ev_IfExp(self, e, sc):
        self.ev(e.test, sc)
        return frozenset(self.ev(e.body, sc) | self.ev(e.orelse, sc))

    def fresh(self, node, tag, content):
        s = self.site(node, tag)
        self.heap_add(s, content)
        return frozenset([s])

    def ev_UnaryOp(self, e, sc):
        v = self.ev(e.operand, sc)
        if isinstance(e.op, ast.Not) or not v:
            return EMPTY
        return self.fresh(e, "op", self.succ(v))

    def ev_BinOp(self, e, sc):
        l, r = self.ev(e.left, sc), self.ev(e.right, sc)
        if isinstance(e.op, ast.Div) and self.etype(e.left, sc) == SCAPY:
            self.an.used_ext.add("scapy Packet.__truediv__ (a / b): result built from copies of both operands [deep]")
            self.libread(set(l) | set(r), "/", e)
            return self.fresh(e, "div", EMPTY)
        return self.binop(l, r, e)

    def binop(self, l, r, node):
        if not l and not r:
            return EMPTY
        return self.fresh(node, "op", self.succ(l) | self.succ(r))

    def elements(self, elts, sc):
        out = set()
        for x in elts:
            if isinstance(x, ast.Starred):
                out |= self.succ(self.ev(x.value, sc))
            else:
                out |= self.ev(x, sc)
        return out

    def ev_Tuple(self, e, sc):
        c = self.elements(e.elts, sc)
        return self.fresh(e, "tuple", c) if c else EMPTY

    def ev_List(self, e, sc):
        return self.fresh(e, "list", self.elements(e.elts, sc))

    ev_Set = ev_List

    def ev_Dict(self, e, sc):
        c = set()
        for k, v in zip(e.keys, e.values):
            if k is None:
                c |= self.succ(self.ev(v, sc))
            else:
                c |= self.ev(k, sc) | self.ev(v, sc)
        return self.fresh(e, "dict", c)

    def comprehension(self, e, elts, sc):
        for g in e.generators:
            if g.is_async:
                self.fail(e, "async comprehension")
            self.assign(g.target, self.succ(self.ev(g.iter, sc)), sc, e)
            for c in g.ifs:
                self.ev(c, sc)
        c = set()
        for x in elts:
            c |= self.ev(x, sc)
        return self.fresh(e, "comp", c)

    def ev_ListComp(self, e, sc):
        return self.comprehension(e, [e.elt], sc)

    ev_SetComp = ev_GeneratorExp = ev_ListComp

    def ev_DictComp(self, e, sc):
        return self.comprehension(e, [e.key, e.value], sc)

    def ev_NamedExpr(self, e, sc):
        v = self.ev(e.value, sc)
        self.assign_name(e.target.id, v, sc, e)
        return v

    def ev_Slice(self, e, sc):
        for x in (e.lower, e.upper, e.step):
            if x is not None:
                self.ev(x, sc)
        return EMPTY

    def ev_Yield(self, e, sc):
        if e.value is not None:
            self.yield_vals(sc, self.ev(e.value, sc), e)
        return EMPTY

    def ev_YieldFrom(self, e, sc):
        self.yield_vals(sc, self.succ(self.ev(e.value, sc)), e)
        return EMPTY

    def fn_scope(self, sc):
        return sc

    def yield_vals(self, sc, vals, node):
        g = self.site(self.scope_node.get(id(sc), self.fi.node), "generator")
        self.heap_add(g, vals)
        if g not in sc.ret:
            sc.ret.add(g)
            self.changed = True

    def ev_Subscript(self, e, sc):
        v = self.ev(e.value, sc)
        self.ev(e.slice, sc)
        self.no_exc(v, e)
        if self.etype(e.value, sc) == SCAPY:
            self.libread(v, "layer", e)
        if not v:
            return EMPTY
        if isinstance(e.slice, ast.Slice):
            return self.fresh(e, "slice", self.succ(v))
        return frozenset(self.succ(v))

    def ev_Attribute(self, e, sc):
        ent = self.static(e, sc)
        if ent is not None and ent[0] in ("func", "class", "ext", "pymod", "extmod"):
            return EMPTY
        if ent is not None and ent[0] == "var":
            return self.an.gval.get(ent[1], EMPTY)
        if ent is not None and ent[0] == "classattr":
            self.check_classattr(ent, e)
            return EMPTY
        base = self.ev(e.value, sc)
        self.no_exc(base, e)
        if e.attr == "__dict__":
            for o in base:
                self.write(o, ["%s: access to `%s` (treated as a write)" % (self.loc(e), self.src(e))])
        t = self.etype(e.value, sc)
        if t == SCAPY or e.attr == "__class__":
            self.libread(base, "__class__" if e.attr == "__class__" else "field", e)
        if e.attr == "__class__" or not base:
            return EMPTY
        res = set(self.succ(base))
        props = []
        if t is not None and t[0] == "inst":
            props = [f for f in self.an.candidates(t[1], e.attr) if f.kind == "property"]
        elif t is None:
            props = self.an.props_by_name.get(e.attr, [])
        for p in props:
            res |= self.apply_summary(p, [base], e)
        return frozenset(res)

    def check_classattr(self, ent, e):
        m = self.an.find_member(ent[1], ent[2])
        if m is not None and m[0] == "classvar" and m[2] is not None and not self.an.is_enum(ent[1]):
            v = m[2]
            if not (isinstance(v, ast.Constant) or (self.an.static(m[3].name, v) or ("x",))[0] in ("class", "func", "ext")):
                self.fail(e, "class attribute %s.%s with a non-constant initialiser" % (ent[1].name, ent[2]))

    def ev_Starred(self, e, sc):
        self.fail(e, "starred expression")

    def ev_Lambda(self, e, sc):
        self.fail(e, "lambda")

    def ev_Await(self, e, sc):
        self.fail(e, "await")

    # ---- assignment targets
    def assign(self, t, vals, sc, node, value_expr=None):
        if isinstance(t, ast.Name):
            self.assign_name(t.id, vals, sc, node)
        elif isinstance(t, (ast.Tuple, ast.List)):
            if (isinstance(value_expr, (ast.Tuple, ast.List)) and len(value_expr.elts) == len(t.elts)
                    and not any(isinstance(x, ast.Starred) for x in list(t.elts) + list(value_expr.elts))):
                for a, b in zip(t.elts, value_expr.elts):
                    self.assign(a, self.ev(b, sc), sc, node, b)
                return
            inner = self.succ(vals)
            for x in t.elts:
                if isinstance(x, ast.Starred):
                    self.assign(x.value, self.fresh(x, "starred", inner), sc, node)
                else:
                    self.assign(x, inner, sc, node)
        elif isinstance(t, ast.Attribute):
            self.store(self.ev(t.value, sc), vals, node, "attribute store")
        elif isinstance(t, ast.Subscript):
            tv = self.ev(t.value, sc)
            self.ev(t.slice, sc)
            self.store(tv, set(vals) | (self.succ(vals) if isinstance(t.slice, ast.Slice) else set()), node, "subscript store")
        else:
            self.fail(node, "assignment target " + type(t).__name__)

    def immutable_typed(self, e, sc):
        t = self.etype(e, sc)
        return t if t in (IMM, SCAPYVAL) else None

    # ---- statements
    def block(self, body, sc):
        for s in body:
            m = getattr(self, "st_" + type(s).__name__, None)
            if m is None:
                self.fail(s, "statement kind " + type(s).__name__)
            m(s, sc)

    def st_Pass(self, s, sc):
        pass

    st_Break = st_Continue = st_Global = st_Nonlocal = st_Pass

    def st_Expr(self, s, sc):
        self.ev(s.value, sc)

    def st_Assign(self, s, sc):
        v = self.ev(s.value, sc)
        for t in s.targets:
            self.assign(t, v, sc, s, s.value)

    def st_AnnAssign(self, s, sc):
        if s.value is not None:
            self.assign(s.target, self.ev(s.value, sc), sc, s, s.value)

    def st_AugAssign(self, s, sc):
        v = self.ev(s.value, sc)
        t = s.target
        if isinstance(t, ast.Name):
            cur = self.load_name(t, sc)
            ty = self.immutable_typed(t, sc)
            if cur and ty is not None:
                self.an.rebindings.add("%s: `%s` rebinds `%s` (statically %s)" % (
                    self.loc(s), self.src(s, 50), t.id, "immutable by annotation" if ty == IMM else "a Scapy int/str/FlagValue field value"))
            elif cur:                                  # in-place operator of an unknown object: as an opaque mutator
                for o in sorted(self.reach(cur)):
                    self.write(o, ["%s: augmented assignment `%s`" % (self.loc(s), self.src(s))])
                    self.heap_add(o, set(v) | self.succ(v))
            self.assign_name(t.id, self.binop(cur, v, s), sc, s)
        elif isinstance(t, (ast.Attribute, ast.Subscript)):
            tv = self.ev(t.value, sc)
            if isinstance(t, ast.Subscript):
                self.ev(t.slice, sc)
            cur = self.succ(tv)
            ty = self.immutable_typed(t, sc)
            if ty is None:
                for o in sorted(self.reach(cur)):    # the object held by the field may be updated in place
                    self.write(o, ["%s: augmented assignment `%s`" % (self.loc(s), self.src(s))])
                    self.heap_add(o, set(v) | self.succ(v))
            elif any(o[0] != "F" for o in cur):
                self.an.rebindings.add("%s: `%s` replaces the field value (statically %s)" % (
                    self.loc(s), self.src(s, 50), "immutable by annotation" if ty == IMM else "a Scapy int/str/FlagValue field value"))
            self.store(tv, self.binop(cur, v, s), s, "augmented store")
        else:
            self.fail(s, "augmented assignment target")

    def st_Return(self, s, sc):
        if s.value is not None:
            v = self.ev(s.value, sc)
            if sc.is_gen:
                self.yield_vals(sc, v, s)
            elif not set(v) <= sc.ret:
                sc.ret |= v
                self.changed = True

    def st_Raise(self, s, sc):
        for x in (s.exc, s.cause):                     # exception objects are not tracked: see no_exc()
            if x is not None:
                self.ev(x, sc)

    def no_exc(self, vals, node):
        """what a caught exception holds is unknown: its contents may not be used (str(e), repr(e), `raise ... from e` only)"""
        if any(o[0] == "F" and o[4] == "exc" for o in vals):
            self.fail(node, "use of the contents of a caught exception: " + self.src(node))

    def st_If(self, s, sc):
        self.ev(s.test, sc)
        self.block(s.body, sc)
        self.block(s.orelse, sc)

    st_While = st_If

    def st_For(self, s, sc):
        self.assign(s.target, self.succ(self.ev(s.iter, sc)), sc, s)
        self.block(s.body, sc)
        self.block(s.orelse, sc)

    def st_Try(self, s, sc):
        self.block(s.body, sc)
        for h in s.handlers:
            if h.type is not None:
                self.ev(h.type, sc)
            if h.name:
                self.assign_name(h.name, self.fresh(h, "exc", EMPTY), sc, h)
            self.block(h.body, sc)
        self.block(s.orelse, sc)
        self.block(s.finalbody, sc)

    def st_With(self, s, sc):
        for it in s.items:
            v = self.ev(it.context_expr, sc)
            if any(o[0] != "F" for o in v):
                self.fail(s, "`with` on a caller / global object: " + self.src(it.context_expr))
            if it.optional_vars is not None:
                self.assign(it.optional_vars, set(v) | self.succ(v), sc, s)
        self.block(s.body, sc)

    def st_Assert(self, s, sc):
        self.ev(s.test, sc)
        if s.msg is not None:
            self.ev(s.msg, sc)

    def st_Delete(self, s, sc):
        for t in s.targets:
            if isinstance(t, ast.Name):
                continue
            if isinstance(t, (ast.Attribute, ast.Subscript)):
                for o in self.ev(t.value, sc):
                    self.write(o, ["%s: `%s`" % (self.loc(s), self.src(s))])
                if isinstance(t, ast.Subscript):
                    self.ev(t.slice, sc)
            else:
                self.fail(s, "delete target")

    def st_FunctionDef(self, s, sc):
        if s.decorator_list:
            self.fail(s, "decorated nested function")
        a = s.args
        if a.vararg or a.kwarg:
            self.fail(s, "*args/**kwargs of a nested function")
        key = id(s)
        if key not in self.nested:
            pos = a.posonlyargs + a.args
            defs = [None] * (len(pos) - len(a.defaults)) + list(a.defaults)
            params = [(p.arg, p.annotation, d) for p, d in zip(pos, defs)] + [(p.arg, p.annotation, d) for p, d in zip(a.kwonlyargs, a.kw_defaults)]
            child = Scope(sc, s.body, [p[0] for p in params])
            self.nested[key] = (child, s, params, len(pos))
            self.scope_params[id(child)] = params
            self.scope_node[id(child)] = s
            self.nested_by_name.setdefault((id(sc), s.name), []).append(key)
        child, _, params, _ = self.nested[key]
        if self.fi.closure is not None and self.fi.closure[1] is s:
            for i, p in enumerate(params):
                self.assign_name(p[0], {("P", i)}, child, s)
        for p in params:
            if p[2] is not None:
                self.assign_name(p[0], self.ev(p[2], sc), child, s)
        self.block(s.body, child)

    def unsupported_stmt(self, s, sc):
        self.fail(s, "statement kind " + type(s).__name__)

    st_ClassDef = st_Import = st_ImportFrom = st_AsyncFunctionDef = st_AsyncFor = st_AsyncWith = st_Match = st_TryStar = unsupported_stmt

    # ---- calls
    def ev_Call(self, e, sc):
        pos, kw, star = [], {}, False
        for a in e.args:
            if isinstance(a, ast.Starred):
                star = True
                pos.append(frozenset(self.succ(self.ev(a.value, sc))))
            else:
                pos.append(self.ev(a, sc))
        for k in e.keywords:
            if k.arg is None:
                star = True
                kw["**%d" % len(kw)] = frozenset(self.succ(self.ev(k.value, sc)))
            else:
                kw[k.arg] = self.ev(k.value, sc)
        allv = frozenset().union(*pos, *kw.values()) if (pos or kw) else EMPTY
        f = e.func
        out = set()
        # --- super().m(...)
        if isinstance(f, ast.Attribute) and isinstance(f.value, ast.Call) and isinstance(f.value.func, ast.Name) and f.value.func.id == "super":
            return self.call_super(e, f, pos, kw, allv, star, sc)
        # --- type(x)(...) / x.__class__(...)
        if (isinstance(f, ast.Call) and isinstance(f.func, ast.Name) and f.func.id == "type" and not self.is_local("type", sc)) or \
                (isinstance(f, ast.Attribute) and f.attr == "__class__"):
            inner = f.args[0] if isinstance(f, ast.Call) else f.value
            self.libread(self.ev(inner, sc), "__class__", e)
            if isinstance(f, ast.Call) and len(pos) == 3 and not kw:
                self.an.used_ext.add("type(x)(name, bases, dict): metaclass call creating a class [new]")
                return self.fresh(e, "class", self.reach(allv))
            if any(o[0] != "F" for o in self.reach(allv)):
                self.fail(e, "constructor of the receiver's class called with caller objects: " + self.src(e))
            self.an.used_ext.add("x.__class__(args) / type(x)(args) with Const or fresh args: new instance of x's class [new]")
            return self.fresh(e, "new", allv)
        ent = self.static(f, sc)
        if ent is not None:
            if ent[0] == "func":
                return self.call_func(ent[1], None, pos, kw, e, star)
            if ent[0] == "class":
                return self.call_ctor([ent[1]], pos, kw, allv, e, star)
            if ent[0] == "ext":
                return self.call_ext(ent[1], pos, kw, allv, e, sc)
            if ent[0] == "var":
                inst = self.an.closure_instance(ent)
                if inst is not None:
                    return self.call_func(inst, None, pos, kw, e, star)
                return self.call_unknown(e, EMPTY, allv, "call of module variable " + self.src(f))
            if ent[0] == "classattr":
                return self.call_on_class(ent[1], ent[2], pos, kw, allv, e, star)
            self.fail(e, "call of " + self.src(f))
        if isinstance(f, ast.Name):
            o = sc.owner(f.id)
            keys = []
            s = o
            while s is not None and not keys:
                keys = self.nested_by_name.get((id(s), f.id), [])
                s = s.parent
            if keys:
                for k in keys:
                    out |= self.call_nested(k, pos, kw, e, star)
                return frozenset(out)
            t = self.var_type(f.id, sc, 0)
            if t is not None and t[0] == "cls":
                return self.call_ctor([t[1]] + self.an.subclasses(t[1]), pos, kw, allv, e, star)
            return self.call_unknown(e, self.load_name(f, sc), allv, "call of local variable " + f.id)
        if isinstance(f, ast.Attribute):
            recv = self.ev(f.value, sc)
            self.no_exc(recv, e)
            t = self.etype(f.value, sc)
            if t is not None and t[0] == "cls":
                return self.call_on_class(t[1], f.attr, pos, kw, allv, e, star, subclasses=True)
            cands = []
            if t is not None and t[0] == "inst":
                cands = [c for c in self.an.candidates(t[1], f.attr) if c.kind != "property"]
            elif t is None and recv:
                cands = self.an.methods_by_name.get(f.attr, [])
            for c in cands:
                out |= self.call_func(c, recv, pos, kw, e, star)
            typed_inst = t is not None and t[0] == "inst" and cands
            known = f.attr in METH_CONST or f.attr in METH_SHALLOW or f.attr in METH_ELEM or f.attr in MUTATING_METHODS
            if not typed_inst:
                if known:
                    out |= self.call_extmethod(f.attr, recv, t, pos, kw, allv, e)
                elif not cands:
                    out |= self.call_unknown(e, recv, allv, "method " + f.attr)
            return frozenset(out)
        return self.call_unknown(e, EMPTY, allv, "call of " + self.src(f))

    def call_unknown(self, e, recv, allv, what):
        if any(o[0] != "F" for o in self.reach(set(recv) | set(allv))):
            self.fail(e, "%s is neither a pyp0f function nor in the external tables and receives caller objects: %s" % (what, self.src(e)))
        return self.fresh(e, "unknown", set(recv) | set(allv))

    def bind(self, params, npos, first, pos, kw, e, star, owner):
        """argument values per parameter index; missing ones get the default"""
        if star:
            self.fail(e, "star-args in a call of a pyp0f function: " + self.src(e))
        argv = [None] * len(params)
        i = 0
        if first is not None:
            if not params:
                self.fail(e, "receiver passed to a function without parameters")
            argv[0] = frozenset(first)
            i = 1
        for v in pos:
            if i >= npos:
                self.fail(e, "too many positional arguments: " + self.src(e))
            argv[i] = v
            i += 1
        names = [p[0] for p in params]
        for k, v in kw.items():
            if k not in names:
                self.fail(e, "unknown keyword %s in %s" % (k, self.src(e)))
            argv[names.index(k)] = v
        for j, p in enumerate(params):
            if argv[j] is None:
                argv[j] = self.an.default_val(owner, j) if (p[2] is not None and owner is not None) else EMPTY
        return argv

    def call_func(self, fi, recv, pos, kw, e, star):
        first = None
        if fi.cls is not None and fi.closure is None:
            if fi.kind in ("method", "property"):
                first = recv
                if recv is None:                 # unbound call C.m(obj, ...)
                    first = None
            elif fi.kind == "classmethod":
                first = EMPTY
        argv = self.bind(fi.params, fi.npos, first, pos, kw, e, star, fi)
        return self.apply_summary(fi, argv, e)

    def call_on_class(self, c, name, pos, kw, allv, e, star, subclasses=False):
        if self.an.is_enum(c):
            return EMPTY
        cands = self.an.candidates(c, name) if subclasses else [self.an.find_method(c, name)]
        cands = [x for x in cands if x is not None]
        if not cands:
            m = self.an.find_member(c, name)
            if m is not None and m[0] == "classvar":
                t = self.classvar_type(m)
                if t is not None and t[0] == "cls":
                    return self.call_ctor([t[1]] + self.an.subclasses(t[1]), pos, kw, allv, e, star)
            return self.call_unknown(e, EMPTY, allv, "%s.%s" % (c.name, name))
        out = set()
        for f in cands:
            out |= self.call_func(f, None, pos, kw, e, star)
        return frozenset(out)

    def call_super(self, e, f, pos, kw, allv, star, sc):
        c = self.fi.cls
        if c is None or f.value.args:
            self.fail(e, "super() outside a method")
        selfv = frozenset(self.scope.vars.get(self.fi.params[0][0], ()))
        for k in c.mro[1:]:
            if f.attr in k.methods:
                return self.call_func(k.methods[f.attr], selfv, pos, kw, e, star)
        if f.attr == "__init__":
            self.an.used_ext.add("super().__init__(args) of an external base class: stores args in self [mutating self]")
            self.store(selfv, allv, e, "external base-class constructor")
            return EMPTY
        return self.call_unknown(e, selfv, allv, "super()." + f.attr)

    def call_nested(self, key, pos, kw, e, star):
        child, node, params, npos = self.nested[key]
        argv = self.bind(params, npos, None, pos, kw, e, star, None)
        for p, v in zip(params, argv):
            self.assign_name(p[0], v, child, e)
        return frozenset(child.ret)

    def field_default(self, c, f, e):
        node, k = f[2], f[3]
        if node is None:
            return EMPTY
        if isinstance(node, ast.Call) and self.an.static(k.mod.name, node.func) == ("ext", "dataclasses.field"):
            out = set()
            for kwd in node.keywords:
                if kwd.arg == "default":
                    out |= self.an.module_eval(k.mod, kwd.value, c.qual + "." + f[0])
                elif kwd.arg == "default_factory":
                    ent = self.an.static(k.mod.name, kwd.value)
                    if ent is not None and ent[0] == "func":
                        out |= self.apply_summary(ent[1], self.bind(ent[1].params, ent[1].npos, None, [], {}, e, False, ent[1]), e)
                    elif ent in (("ext", "builtins.list"), ("ext", "builtins.dict"), ("ext", "builtins.set")):
                        out |= self.fresh(e, "default_factory", EMPTY)
                    else:
                        self.fail(e, "default_factory " + ast.unparse(kwd.value))
            return out
        return self.an.module_eval(k.mod, node, c.qual + "." + f[0])

    def call_ctor(self, classes, pos, kw, allv, e, star):
        out = set()
        for c in classes:
            if self.an.is_enum(c):
                continue
            site = self.site(e, "new " + c.name)
            out.add(site)
            init = self.an.find_method(c, "__init__")
            if init is not None:
                argv = self.bind(init.params, init.npos, {site}, pos, kw, e, star, init)
                self.apply_summary(init, argv, e)
            elif self.an.is_dataclass(c):
                self.heap_add(site, allv)
                for f in self.an.all_fields(c):
                    self.heap_add(site, self.field_default(c, f, e))
                pi = self.an.find_method(c, "__post_init__")
                if pi is not None:
                    self.apply_summary(pi, [frozenset([site])] + [allv] * (len(pi.params) - 1), e)
            else:
                self.heap_add(site, allv)      # external base (Exception, object, ...): the object holds its arguments
        return frozenset(out)

    def apply_summary(self, fi, argv, e):
        s = self.an.summ.get(fi.qual)
        if s is None:
            return EMPTY
        site = self.site(e, "ret " + fi.qual)
        here = "%s: call `%s` -> %s" % (self.loc(e), self.src(e, 50), fi.qual)

        def m(o):
            if o == FRESH:
                return {site}
            if o[0] == "P":
                return argv[o[1]]
            if o[0] == "R":
                return self.reach_strict(argv[o[1]])
            return {o}

        def mset(S):
            out = set()
            for o in S:
                out |= m(o)
            return out
        for o, cause in s.writes.items():
            for o2 in m(o):
                self.write(o2, (here,) + tuple(cause))
        for (o, kind), cause in s.libreads.items():
            self.libread(m(o), kind, e, (here,) + tuple(cause))
        for t, srcs in s.edges.items():
            vs = mset(srcs)
            for t2 in m(t):
                self.heap_add(t2, vs)
        if s.fresh_content:
            self.heap_add(site, mset(s.fresh_content))
        return frozenset(mset(s.ret))

    def call_ext(self, name, pos, kw, allv, e, sc):
        an = self.an
        if name in EXT_FORBIDDEN:
            self.fail(e, "call of " + name)
        short = name[9:] if name.startswith("builtins.") else None
        if name.startswith("random."):
            an.used_ext.add(name + " [writes G random]")
            self.write(("G", "random"), ["%s: `%s` advances the global random generator" % (self.loc(e), self.src(e, 50))])
            if name in RANDOM_ELEM:
                return frozenset(self.succ(allv))
            if name in RANDOM_FRESH:
                return self.fresh(e, "random", self.succ(allv))
            if name in RANDOM_MUTATING:
                for o in (pos[0] if pos else EMPTY):
                    self.write(o, ["%s: `%s`" % (self.loc(e), self.src(e))])
            return EMPTY
        if name == "builtins.next":
            an.used_ext.add("builtins.next [advances its first argument, returns an element or the default]")
            it = pos[0] if pos else EMPTY
            for o in it:
                self.write(o, ["%s: `next` advances `%s`" % (self.loc(e), self.src(e.args[0]))])
            return frozenset(self.succ(it) | frozenset().union(*pos[1:]))
        if name == "builtins.getattr":
            an.used_ext.add("builtins.getattr [attribute load]")
            return frozenset(self.succ(pos[0]) | frozenset().union(*pos[2:])) if pos else EMPTY
        if name in ("builtins.setattr", "builtins.delattr"):
            self.store(pos[0] if pos else EMPTY, frozenset().union(*pos[1:]), e, name[9:])
            return EMPTY
        if name == "dataclasses.field":
            return EMPTY
        mode = EXT_FUNCS.get(name)
        if mode is None and name.startswith(EXT_CONST_PREFIXES):
            mode = "const"
        if mode is None and short is not None and short.endswith(BUILTIN_EXC_SUFFIXES):
            mode = "new"
        if mode is None and name.startswith("scapy."):
            mode = "new"
        if mode is None:
            return self.call_unknown(e, EMPTY, allv, name)
        an.used_ext.add("%s [%s]" % (name, mode))
        for a, v in zip(e.args, pos):
            if name in ("builtins.bytes", "builtins.bytearray", "copy.copy", "copy.deepcopy") or (not isinstance(a, ast.Starred) and self.etype(a, sc) == SCAPY):
                self.libread(v, name.split(".")[-1], e)
        if mode == "const":
            return EMPTY
        if mode == "deep":
            return self.fresh(e, "ext", EMPTY)
        if mode == "shallow":
            return self.fresh(e, "ext", self.succ(allv))
        if mode == "reach":
            return self.fresh(e, "ext", self.reach_strict(allv))
        if mode == "elem":
            return frozenset(set(allv) | self.reach_strict(allv))
        if mode == "new":
            return self.fresh(e, "ext", allv)
        self.fail(e, "external mode " + mode)

    def call_extmethod(self, name, recv, rtype, pos, kw, allv, e):
        an = self.an
        if rtype == SCAPY or name in ("copy", "maybe_extract_lines", "maybe_extract_next_line", "maybe_extract_at_most"):
            self.libread(recv, "." + name, e)
        if name in MUTATING_METHODS:
            deep = name not in CONTAINER_MUTATORS
            an.used_ext.add(".%s() [%s]" % (name, "mutating receiver, arguments and everything reachable" if deep else "mutating the receiver container"))
            for o in sorted(self.reach(set(recv) | set(allv)) if deep else recv):
                self.write(o, ["%s: mutating method `%s`" % (self.loc(e), self.src(e))])
            for o in (self.reach(recv) if deep else recv):
                self.heap_add(o, set(allv) | self.succ(allv))
            if not recv:
                return EMPTY
            return frozenset(self.succ(recv) | set(allv) | self.fresh(e, "ext", self.succ(recv)))
        if name == "copy" and rtype == SCAPY:
            an.used_ext.add("scapy Packet.copy() [deep]")
            return self.fresh(e, "ext", EMPTY)
        if name in METH_CONST:
            an.used_ext.add(".%s() [const]" % name)
            return EMPTY
        if name in METH_SHALLOW:
            an.used_ext.add(".%s() [shallow]" % name)
            return self.fresh(e, "ext", self.succ(recv) | self.succ(allv))
        if name in METH_ELEM:
            an.used_ext.add(".%s() [elem]" % name)
            return frozenset(set(recv) | self.succ(recv) | set(allv))
        self.fail(e, "external method " + name)

    # ---- driver
    def run(self):
        an, fi = self.an, self.fi
        self.changed = True
        n = 0
        while self.changed:
            self.changed = False
            n += 1
            if n > 200:
                self.fail(fi.node, "no fixpoint in " + fi.qual)
            if fi.closure is not None:
                fac, nested, bmod, call = fi.closure
                mfa = an.get_fa(bmod.init)
                pos = [an.globalize(mfa, mfa.ev(a, mfa.scope), fi.qual) for a in call.args]
                kw = {k.arg: an.globalize(mfa, mfa.ev(k.value, mfa.scope), fi.qual) for k in call.keywords}
                argv = self.bind(fac.params, fac.npos, None, pos, kw, call, False, fac)
                for p, v in zip(fac.params, argv):
                    self.assign_name(p[0], v, self.scope, call)
            self.block(self.body, self.scope)
        return self.summary()

    def summary(self):
        fi = self.fi
        s = Summary()
        s.writes = dict(self.writes)
        s.libreads = dict(self.libreads)
        ret = set(self.scope.ret)
        if fi.closure is not None:
            ret = set()
            for child, node, params, npos in self.nested.values():
                if node is fi.closure[1]:
                    ret |= child.ret
        flat = lambda S: frozenset(FRESH if o[0] == "F" else o for o in S)
        esc = set(ret)
        for t, vs in self.heap.items():
            if t[0] != "F" and vs:
                extra = set(vs) - ({("R", t[1])} if t[0] in "PR" else set())
                if extra:
                    s.edges[t] = flat(extra)
                    esc |= extra
        s.ret = flat(ret)
        fresh = {o for o in self.reach(esc) if o[0] == "F"}
        s.fresh_content = flat(self.succ(fresh))
        return s


# ---------------------------------------------------------------------------------------------------- whole-program part
def _get_fa(self, fi):
    fa = self.fa.get(fi.qual)
    if fa is None:
        fa = self.fa[fi.qual] = FA(self, fi)
        fa.scope_params, fa.scope_node, fa.nested_by_name = {}, {}, {}
    return fa


def _globalize(self, fa, vals, owner):
    out = set()
    for v in vals:
        if v[0] == "G":
            out.add(v)
        elif v[0] == "F":
            g = ("G", owner)
            out.add(g)
            content = {x if x[0] == "G" else g for x in fa.reach_strict({v})}
            cur = self.GH.setdefault(g, set())
            if not content <= cur:
                cur |= content
                self.changed = True
        else:
            raise Unsupported("%s: parameter origin at module level" % owner)
    return frozenset(out)


def _module_eval(self, mod, node, owner):
    mfa = self.get_fa(mod.init)
    return self.globalize(mfa, mfa.ev(node, mfa.scope), owner)


def _default_val(self, fi, j):
    name, ann, node = fi.params[j]
    if fi.closure is not None:
        return EMPTY
    return self.module_eval(fi.mod, node, "%s.<default of %s>" % (fi.qual, name))


def _module_var_type(self, ent, depth=0):
    _, qual, value, ann, mod = ent
    if ann is not None:
        t = self.ann_type(ann, mod)
        if t is not None:
            return t
    if isinstance(value, ast.Call) and depth < 10:
        mfa = self.get_fa(mod.init)
        return mfa.etype(value, mfa.scope, depth + 1)
    return None


def _closure_instance(self, ent):
    _, qual, value, ann, mod = ent
    if qual in self.closures:
        return self.closures[qual]
    inst = None
    if isinstance(value, ast.Call):
        f = self.static(mod.name, value.func)
        if f is not None and f[0] == "func":
            fac = f[1]
            nested = {s.name: s for s in fac.node.body if isinstance(s, ast.FunctionDef)}
            rets = [n for n in walk_local(fac.node.body) if isinstance(n, ast.Return)]
            names = {r.value.id if isinstance(r.value, ast.Name) else None for r in rets}
            if rets and len(names) == 1 and list(names)[0] in nested:
                nd = nested[list(names)[0]]
                inst = FuncInfo(qual, fac.mod, nd)
                inst.closure = (fac, nd, mod, value)
                self.funcs.append(inst)
                self.summ[inst.qual] = Summary()
                self.changed = True
    self.closures[qual] = inst
    return inst


def _update_gvals(self, fi, fa):
    for name, vals in sorted(fa.scope.vars.items()):
        q = fi.mod.name + "." + name
        g = self.globalize(fa, vals, q) | self.gval.get(q, EMPTY)
        if g != self.gval.get(q, EMPTY):
            self.gval[q] = frozenset(g)
            self.changed = True


def _solve(self):
    self.funcs.sort(key=lambda f: f.qual)
    for fi in self.funcs:
        self.summ[fi.qual] = Summary()
    rounds = 0
    while True:
        rounds += 1
        if rounds > 100:
            raise Unsupported("no global fixpoint after 100 rounds")
        self.changed = False
        for fi in sorted(self.funcs, key=lambda f: f.qual):
            fa = self.get_fa(fi)
            s = fa.run()
            if fi.kind == "module":
                self.update_gvals(fi, fa)
            if s.key() != self.summ[fi.qual].key():
                self.summ[fi.qual] = s
                self.changed = True
        if not self.changed:
            break
    for fi in self.funcs:
        if getattr(fi, "dunder", False) and self.summ[fi.qual].writes:
            raise Unsupported("%s:%s: special method %s has side effects but is invoked implicitly" % (fi.mod.rel, fi.node.lineno, fi.qual))
    self.rounds = rounds


def _check_externals(self):
    """re-check on the INSTALLED sources the facts about Scapy / h11 that the tables assume (ast only)"""
    def source(pkg, relfile):
        try:
            spec = importlib.util.find_spec(pkg)
        except (ImportError, ValueError):
            spec = None
        if spec is None or not spec.submodule_search_locations:
            return None
        p = os.path.join(list(spec.submodule_search_locations)[0], relfile)
        return ast.parse(open(p, encoding="utf-8").read()) if os.path.exists(p) else None

    def cls(tree, name):
        for n in tree.body:
            if isinstance(n, ast.ClassDef) and n.name == name:
                return n
        return None
    notes = []
    t = source("scapy", "fields.py")
    c = cls(t, "FlagValue") if t else None
    if c is None:
        notes.append("scapy/fields.py FlagValue: NOT CHECKED (source not found)")
    else:
        bad = [m.name for m in c.body if isinstance(m, ast.FunctionDef) and m.name.startswith("__i") and m.name not in ("__init__", "__int__", "__iter__", "__index__", "__invert__")]
        if bad:
            raise Unsupported("scapy/fields.py: FlagValue defines in-place operators %s: `flags op= v` is a write" % bad)
        notes.append("scapy/fields.py FlagValue defines no in-place operator: checked")
    t = source("scapy", "packet.py")
    c = cls(t, "Packet") if t else None
    if c is None:
        notes.append("scapy/packet.py Packet.__div__: NOT CHECKED (source not found)")
    else:
        div = [m for m in c.body if isinstance(m, ast.FunctionDef) and m.name == "__div__"]
        alias = any(isinstance(m, ast.Assign) and ast.unparse(m) == "__truediv__ = __div__" for m in c.body)
        text = ast.unparse(div[0]) if div else ""
        if not (alias and "cloneA = self.copy()" in text and "cloneB = other.copy()" in text and "cloneA.add_payload(cloneB)" in text and "return cloneA" in text):
            raise Unsupported("scapy/packet.py: Packet.__div__ is not `copy both operands, add_payload on the copy`")
        inplace = [m.name for m in c.body if isinstance(m, ast.FunctionDef) and m.name in ("__itruediv__", "__idiv__", "__iadd__", "__iand__", "__ior__")]
        if inplace:
            raise Unsupported("scapy/packet.py: Packet defines in-place operators %s" % inplace)
        notes.append("scapy/packet.py Packet.__truediv__ = __div__ copies both operands (self.copy(), other.copy(), add_payload on the copy): checked")
        muts = set()
        for m in c.body:
            if isinstance(m, ast.FunctionDef) and any(
                    isinstance(x, (ast.Attribute, ast.Subscript)) and isinstance(x.ctx, (ast.Store, ast.Del)) and
                    isinstance(x.value, ast.Name) and x.value.id == "self" for x in ast.walk(m)):
                muts.add(m.name)
        missing = sorted(muts - set(MUTATING_METHODS) - {"copy", "clone_with", "__iter__", "comment"})
        if missing:
            raise Unsupported("scapy/packet.py: Packet methods %s store into self but are not in the MUTATING table" % missing)
        notes.append("scapy/packet.py every Packet method that stores into self is in the MUTATING table (copy / clone_with / __iter__ store into their clone only; `comment` is a property setter = attribute store): checked")
    t = source("h11", "_receivebuffer.py")
    c = cls(t, "ReceiveBuffer") if t else None
    if c is None:
        notes.append("h11/_receivebuffer.py ReceiveBuffer: NOT CHECKED (source not found)")
    else:
        muts = set()
        for m in c.body:
            if isinstance(m, ast.FunctionDef):
                w = any(isinstance(x, (ast.Attribute, ast.Subscript)) and isinstance(x.ctx, (ast.Store, ast.Del)) for x in ast.walk(m))
                calls = any(isinstance(x, ast.Call) and isinstance(x.func, ast.Attribute) and x.func.attr == "_extract" for x in ast.walk(m))
                if w or calls:
                    muts.add(m.name)
        missing = sorted(muts - set(MUTATING_METHODS))
        if missing:
            raise Unsupported("h11/_receivebuffer.py: ReceiveBuffer methods %s write the buffer but are not in the MUTATING table" % missing)
        notes.append("h11/_receivebuffer.py every ReceiveBuffer method that writes the buffer (%s) is in the MUTATING table: checked" % " ".join(sorted(muts - {"__init__"})))
    self.scapy_checks = notes


Analyzer.get_fa = _get_fa
Analyzer.globalize = _globalize
Analyzer.module_eval = _module_eval
Analyzer.default_val = _default_val
Analyzer.module_var_type = _module_var_type
Analyzer.closure_instance = _closure_instance
Analyzer.update_gvals = _update_gvals
Analyzer.solve = _solve
Analyzer.check_externals = _check_externals


# ---------------------------------------------------------------------------------------------------- emission
ENTRIES = [
    ("fingerprint_tcp", "pyp0f.fingerprint", ["fingerprint_tcp"]),
    ("fingerprint_mtu", "pyp0f.fingerprint", ["fingerprint_mtu"]),
    ("fingerprint_uptime", "pyp0f.fingerprint", ["fingerprint_uptime"]),
    ("fingerprint_http", "pyp0f.fingerprint", ["fingerprint_http"]),
    ("impersonate_tcp", "pyp0f.impersonate", ["impersonate_tcp"]),
    ("impersonate_mtu", "pyp0f.impersonate", ["impersonate_mtu"]),
    ("parse_packet", "pyp0f.net.packet", ["parse_packet"]),
    ("read_payload", "pyp0f.net.layers.http", ["read_payload"]),
    ("Database.load", "pyp0f.database", ["Database", "load"]),
    ("RecordsDatabase.get_random", "pyp0f.database.records_database", ["RecordsDatabase", "get_random"]),
    ("RecordsDatabase.iter_values", "pyp0f.database.records_database", ["RecordsDatabase", "iter_values"]),
]


def coq_str(s):
    return '"%s"' % s.replace('"', '""')


def coq_origin(o):
    if o == FRESH or o[0] == "F":
        return (2, 0, ""), "OFresh"
    if o[0] in "PR":
        return (0, o[1], ""), "OParam %d" % o[1]
    return (1, 0, o[1]), "OGlob %s" % coq_str(o[1])


def coq_origins(S):
    items = sorted(set(coq_origin(o) for o in S))
    return "[%s]" % "; ".join(t for _, t in items)


def content_of(an, s, start):
    seen, todo = set(), list(start)
    first = True
    out = set()
    while todo:
        o = todo.pop()
        if o[0] == "P":
            nxt = {("R", o[1])}
        elif o[0] == "R":
            nxt = {o}
        elif o[0] == "G":
            nxt = an.GH.get(o, set())
        else:
            nxt = s.fresh_content
        for x in nxt:
            if x not in out:
                out.add(x)
                todo.append(x)
    return out


def lookup_entry(an, modname, path):
    if modname not in an.mods:
        raise Unsupported("entry point module %s is missing" % modname)
    ent = an.resolve(modname, path[0])
    if ent is None:
        raise Unsupported("entry point %s.%s is missing" % (modname, path[0]))
    if len(path) == 1:
        if ent[0] != "func":
            raise Unsupported("entry point %s.%s is not a function" % (modname, path[0]))
        return ent[1]
    if ent[0] != "class":
        raise Unsupported("entry point %s.%s is not a class" % (modname, path[0]))
    f = an.find_method(ent[1], path[1])
    if f is None:
        raise Unsupported("entry point %s.%s.%s is missing" % (modname, path[0], path[1]))
    return f


def emit(an, out):
    L = []
    w = L.append
    w("(* GENERATED by translate/eff2coq.py from pyp0f/**/*.py - do not edit.")
    w("   May-write summaries of the public entry points (flow-insensitive interprocedural points-to + mod analysis).")
    w("   OParam i = parameter i or anything reachable from it; OGlob n = module-level mutable object n; OFresh = allocated by the call.")
    w("   %d modules, %d functions / methods / module initialisers analysed. *)" % (len(an.mods), len(an.funcs)))
    w("From Coq Require Import List String.")
    w("From PV Require Import Gen.GenEffLib.")
    w("Import ListNotations.")
    w("Open Scope string_scope.")
    w("")
    w("(* TRUSTED BASE of the analysis")
    w("   1. external functions / methods assumed pure, deep-copying or mutating as tabulated (gen_assumed_externals lists the")
    w("      entries the current source actually uses; mode in brackets: const = returns an immutable value, deep = returns a fresh")
    w("      object sharing nothing, shallow / reach = fresh container of the arguments' elements / of everything reachable,")
    w("      elem = returns an argument or a part of one, new = fresh object holding its arguments, mutating = writes its receiver).")
    w("   2. `x op= v` is a rebinding when x is statically of an immutable type (gen_trusted_rebindings lists every use).")
    w("   3. checks made on the installed library sources on this run:")
    for n in an.scapy_checks:
        w("      - " + n)
    w("   4. exception objects are not tracked (checked: the contents of a caught exception are never used); iterating is a read. *)")
    w("")
    sums = []
    for name, modname, path in ENTRIES:
        fi = lookup_entry(an, modname, path)
        s = an.summ[fi.qual]
        w("(* %s = %s  (%s:%d)" % (name, fi.qual, fi.mod.rel, fi.node.lineno))
        if not s.writes:
            w("     writes nothing")
        for o in sorted(s.writes, key=lambda o: coq_origin(o)[0] + (o,)):
            kind = {"P": "the parameter object itself", "R": "an object reachable from the parameter", "G": "module-level object"}[o[0]]
            label = "parameter %d `%s` (%s)" % (o[1], fi.params[o[1]][0], kind) if o[0] in "PR" else "%s %s" % (kind, o[1])
            w("     WRITES %s because" % label)
            for c in s.writes[o]:
                w("         " + c.replace("(*", "( *").replace("*)", "* )"))
        for (o, k) in sorted(s.libreads, key=lambda x: coq_origin(x[0])[0] + x):
            if o[0] in "PR" and k not in ("bytes", "__class__", ".copy"):
                w("     library code reads parameter %d `%s` directly (%s) because" % (o[1], fi.params[o[1]][0], k))
                for c in s.libreads[(o, k)]:
                    w("         " + c.replace("(*", "( *").replace("*)", "* )"))
        for t in sorted(s.edges, key=lambda o: coq_origin(o)[0] + (o,)):
            w("     may store into %s: %s" % (coq_origin(t)[1], coq_origins(s.edges[t])))
        w("*)")
        sums.append((name, fi, s))
    w("")
    w("Definition gen_summaries : list summary := [")
    rows = []
    for name, fi, s in sorted(sums, key=lambda x: x[0]):
        rows.append("  {| s_name := %s; s_params := [%s];\n     s_writes := %s;\n     s_ret_self := %s;\n     s_ret_content := %s |}" % (
            coq_str(name), "; ".join(coq_str(p[0]) for p in fi.params), coq_origins(s.writes), coq_origins(s.ret),
            coq_origins(content_of(an, s, s.ret))))
    w(";\n".join(rows))
    w("].")
    w("")
    w("(* Caller / global objects that each entry point hands to Scapy / h11 code which is only ASSUMED not to write them")
    w("   (kind: bytes = bytes(x) (re-assembly), __class__ = x.__class__, .copy = x.copy(), field = attribute load of a Scapy packet,")
    w("   layer = pkt[cls], contains = cls in pkt, / = operand of Scapy's /, .m = method m, other = name of the builtin). *)")
    w("Definition gen_lib_reads : list (string * list (origin * string)) := [")
    rows = []
    for name, fi, s in sorted(sums, key=lambda x: x[0]):
        items = sorted(set((coq_origin(o)[0], coq_origin(o)[1], k) for (o, k) in s.libreads))
        rows.append("  (%s, [%s])" % (coq_str(name), "; ".join("(%s, %s)" % (t, coq_str(k)) for _, t, k in items)))
    w(";\n".join(rows))
    w("].")
    w("")
    w("Definition gen_assumed_externals : list string := [")
    w(";\n".join("  " + coq_str(x) for x in sorted(an.used_ext)))
    w("].")
    w("")
    w("Definition gen_mutating_methods : list string := [")
    w("  " + "; ".join(coq_str(x) for x in MUTATING_METHODS))
    w("].")
    w("")
    w("Definition gen_trusted_rebindings : list string := [")
    w(";\n".join("  " + coq_str(x) for x in sorted(an.rebindings)))
    w("].")
    w("")
    w("(* the complete external tables of the translator")
    w("   functions: " + "; ".join("%s [%s]" % kv for kv in sorted(EXT_FUNCS.items())))
    w("   const by module prefix: " + " ".join(EXT_CONST_PREFIXES) + " ; builtin exception classes and scapy.* classes: new")
    w("   random.*: writes G random (choice: elem; sample / choices: shallow; shuffle: mutating)")
    w("   methods const: " + " ".join(sorted(METH_CONST)))
    w("   methods shallow: " + " ".join(sorted(METH_SHALLOW)) + "   (Scapy Packet.copy: deep)")
    w("   methods elem: " + " ".join(sorted(METH_ELEM)))
    w("   container mutators (write the receiver only; all other mutating methods write receiver, arguments and everything reachable): " + " ".join(sorted(CONTAINER_MUTATORS)))
    w("   scapy value fields (no in-place operators): " + " ".join(sorted(SCAPY_VALUE_FIELDS)))
    w("*)")
    text = "\n".join(L) + "\n"
    with open(out, "w", encoding="utf-8") as f:
        f.write(text)


def main(argv):
    if len(argv) != 3:
        sys.stderr.write("usage: eff2coq.py <repo> <out.v>\n")
        return 1
    try:
        an = Analyzer(argv[1])
        an.check_externals()
        an.solve()
        emit(an, argv[2])
    except Unsupported as ex:
        sys.stderr.write("UNSUPPORTED: %s\n" % ex)
        return 2
    if os.environ.get("EFF_DEBUG"):
        for q in sorted(an.summ):
            s = an.summ[q]
            sys.stderr.write("%s: writes=%s ret=%s fc=%s edges=%s\n" % (q, sorted(s.writes), sorted(s.ret), sorted(s.fresh_content), {k: sorted(v) for k, v in s.edges.items()}))
    return 0


if __name__ == "__main__":
    sys.exit(main(sys.argv))
