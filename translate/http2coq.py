#!/venv/bin/python
"""Fail-closed translator for pyp0f's HTTP payload reader and HTTP signature parser.

Translated from /repo's CURRENT source into Gallina (coq/Gen/GeneratedHttp.v); coq/Gen/GenHttpP.v proves the result equal to the
hand-written models coq/Model/HttpRead.v and coq/Model/SigParse.v:

  net/layers/http/read.py      extract_minor_version, read_first_line, read_headers, read_payload
  net/layers/http/header.py    Header.__post_init__ (lower_name)
  net/layers/http/http.py      HTTP._get_header_value, HTTP.software, HTTP.from_buffer
  database/signatures/http.py  _parse_version, _parse_headers, HTTPSignature.parse, HTTPSignature.__post_init__ (header_names)

The expression / statement translator is sig2coq's `Tr` (functions over `text` in the `res` monad); this file adds the forms
these four modules need: bytes values (type BY; a Python `bytes` is a list of byte values, a `str` a list of code points),
`bytes.split(None, maxsplit=n)`, `.strip()`, `.lower()`, `str.encode()`, `+` on bytes, slices, `x in (a, b)`, `int in bytes`,
list indexing with IndexError, `l[-1]` / `l[-1] = v`, dataclass constructors (the field lists are read from the class
definitions), `continue`, try / except with a tuple of classes, narrowing of an Optional by `if x is None: raise` /
`if not x: raise`, list / set comprehensions (a set is rendered as a list, as in the model), `next(<genexp>, None)`,
`a or b` on Optional[bytes], tuple returns.

ASSUMED primitives (trusted base, on top of sig2coq's):
  * re.compile(rb"^HTTP/1\\.(?P<version>\\d)$").match(b) and .group("version"): `gen_re_http_version` (NOTE Python's `$` also
    matches before one trailing "\\n"; the primitive says so);
  * re.compile(rb",(?![^\\[]*\\])").split(b): Model.SigParse.hsplit;
  * copy_buffer(b).maybe_extract_lines() (h11 ReceiveBuffer): Model.HttpRead.extract_lines;
  * bytes.split(None, maxsplit=n): `gen_split_ws n`; bytes.strip(): Model.Text.bstrip; bytes.lower(): Model.Text.lower;
    str.encode(): Model.Text.utf8; int(bytes): Model.Text.py_int_ascii.
The two regular expressions are read LITERALLY from the source; any other pattern is refused.  Anything else: UNSUPPORTED.
"""
import ast
import os
import sys

sys.path.insert(0, os.path.dirname(os.path.abspath(__file__)))
import sig2coq                                              # noqa: E402
from sig2coq import Tr, Fn, Unsupported, fail, coq_str     # noqa: E402

ANN = sig2coq.ANN
COQ_TY = sig2coq.COQ_TY

ANN.update({
    "bytes": "BY", "BufferLike": "BY", "Tuple[Direction, int]": "PAIR DIR Z", "Iterable[bytes]": "LIST BY",
    "List[PacketHeader]": "LIST HDR", "Sequence[PacketHeader]": "LIST HDR", "Tuple[Direction, int, List[PacketHeader]]": "TRIPLE",
    "Optional[bytes]": "OPT BY", "List[SignatureHeader]": "LIST SHDR", "Sequence[SignatureHeader]": "LIST SHDR", "Set[bytes]": "LIST BY",
})
COQ_TY.update({
    "BY": "text", "DIR": "direction", "HDR": "pkt_header", "SHDR": "sig_header", "LIST BY": "list text", "LIST HDR": "list pkt_header",
    "LIST SHDR": "list sig_header", "OPT BY": "option text", "OPT LIST BY": "option (list text)", "OPT MATCH": "option text", "MATCH": "text",
    "PAIR DIR Z": "(direction * Z)", "TRIPLE": "(direction * Z * list pkt_header)", "HSIG": "http_sig", "HTTP": "(Z * list pkt_header)",
})

VERSION_PATTERN = rb"^HTTP/1\.(?P<version>\d)$"
HEADER_PATTERN = rb",(?![^\[]*\])"
COPY_BUFFER_BODY = "buffer_copy = ReceiveBuffer()\nbuffer_copy += bytes(buffer)\nreturn buffer_copy"
DIRECTIONS = {"CLIENT_TO_SERVER": "Request", "SERVER_TO_CLIENT": "Response"}
ERRS = {"PacketError": "Err PacketError", "ValueError": "Err (Crash CValue)", "IndexError": "Err (Crash CIndex)"}
RESERVED = ("min", "max", "type", "fix", "match", "end", "in", "at", "return", "with", "fun", "let", "if", "then", "else", "as")
# dataclass -> (record fields in constructor order: python field -> (coq field, type)), checked against the class definitions
RECORDS = {
    "PacketHeader": ("HDR", [("name", "ph_name", "BY"), ("value", "ph_value", "BY")]),
    "SignatureHeader": ("SHDR", [("name", "sh_name", "BY"), ("is_optional", "sh_optional", "B"), ("value", "sh_value", "OPT BY")]),
    "HTTPSignature": ("HSIG", [("version", "hs_version", "Z"), ("headers", "hs_headers", "LIST SHDR"), ("absent_headers", "hs_absent", "LIST BY"),
                               ("expected_software", "hs_software", "OPT BY")]),
}


def by_lit(b):
    if b and all(32 <= c <= 126 and c != 34 for c in b):
        return '(str "%s")' % b.decode("ascii")
    return "[%s]" % "; ".join(str(c) for c in b)


def strip_doc(body):
    return [s for s in body if not (isinstance(s, ast.Expr) and isinstance(s.value, ast.Constant) and isinstance(s.value.value, str))]


def is_none(e):
    return isinstance(e, ast.Constant) and e.value is None


class HTr(Tr):
    def __init__(self, repo):
        Tr.__init__(self, repo)
        self.regex = {}            # module-level name -> "version" | "header"
        self.loop_stack = []
        self.methods = {}          # method name -> (Fn, [self fields passed first])

    # ---------------------------------------------------------------- helpers
    def const_nat(self, e):
        c = self.const(e)
        if c is None or c[2] != "Z":
            return None
        return int(c[1].strip("()"))

    def truthy(self, r, node):
        ty = r[2]
        if ty == "BY" or (ty.startswith("LIST ") and ty not in ("LIST T", "LIST Z")):
            return self.bind_all([r], lambda a: (False, "(match %s with [] => false | _ :: _ => true end)" % a[0], "B"))
        if ty in ("OPT BY", "OPT LIST BY"):
            return self.bind_all([r], lambda a: (False, "(match %s with Some (_ :: _) => true | _ => false end)" % a[0], "B"))
        return Tr.truthy(self, r, node)

    def lam(self, var, body_expr, env, ty):
        """fun <var> => <pure expression>"""
        v = self.fresh(var)
        env2 = dict(env)
        env2[var] = (v, ty)
        r = self.ex(body_expr, env2)
        if r[0]:
            fail(body_expr, "an expression that can raise inside a comprehension")
        return v, r

    def comprehension(self, e, env):
        """[elt for x in it if c] / {elt ...}: map over filter (a set is rendered as the list of its elements in iteration order)"""
        if len(e.generators) != 1:
            fail(e, "comprehension shape")
        g = e.generators[0]
        if g.is_async or not isinstance(g.target, ast.Name) or len(g.ifs) > 1:
            fail(e, "comprehension shape")
        it = self.ex(g.iter, env)
        if not it[2].startswith("LIST "):
            fail(e, "comprehension over " + it[2])
        ety = it[2][5:]
        src = "%s"
        if g.ifs:
            v, c = self.lam(g.target.id, g.ifs[0], env, ety)
            c = self.truthy(c, g.ifs[0])
            src = "(filter (fun %s => %s) %%s)" % (v, c[1])
        v, r = self.lam(g.target.id, e.elt, env, ety)
        return it, src, v, r

    # ---------------------------------------------------------------- expressions
    def ex(self, e, env):
        if isinstance(e, ast.Constant) and isinstance(e.value, bytes):
            return (False, by_lit(e.value), "BY")
        if isinstance(e, ast.Attribute):
            if isinstance(e.value, ast.Name) and e.value.id == "Direction":
                if e.attr not in DIRECTIONS:
                    fail(e, "Direction member")
                return (False, DIRECTIONS[e.attr], "DIR")
            if isinstance(e.value, ast.Name) and e.value.id == "self" and "__self__" in env:
                if e.attr in env["__self__"]:
                    return (False,) + tuple(env[e.attr])
                fail(e, "attribute of self")
            b = self.ex(e.value, env)
            acc = {("HDR", "name"): ("(ph_name %s)", "BY"), ("HDR", "value"): ("(ph_value %s)", "BY"),
                   ("HDR", "lower_name"): ("(gen_Header_lower_name (ph_name %s))", "BY"),
                   ("SHDR", "name"): ("(sh_name %s)", "BY"), ("SHDR", "value"): ("(sh_value %s)", "OPT BY"),
                   ("SHDR", "is_optional"): ("(sh_optional %s)", "B"),
                   ("SHDR", "lower_name"): ("(gen_Header_lower_name (sh_name %s))", "BY")}.get((b[2], e.attr))
            if acc is None:
                fail(e, "attribute %s of %s" % (e.attr, b[2]))
            if e.attr == "lower_name" and "Header_lower_name" not in self.fns:
                fail(e, "Header.lower_name is not defined")
            return self.bind_all([b], lambda a: (False, acc[0] % a[0], acc[1]))
        if isinstance(e, ast.BinOp) and isinstance(e.op, ast.Add):
            l, r = self.ex(e.left, env), self.ex(e.right, env)
            if l[2] == "BY" and r[2] == "BY":
                return self.bind_all([l, r], lambda a: (False, "(%s ++ %s)" % (a[0], a[1]), "BY"))
            if "BY" in (l[2], r[2]):
                fail(e, "+ on %s and %s" % (l[2], r[2]))
        if isinstance(e, ast.BoolOp) and isinstance(e.op, ast.Or) and len(e.values) == 2:
            l = self.ex(e.values[0], env)
            if l[2] == "OPT BY":
                r = self.ex(e.values[1], env)
                if r[2] != "OPT BY" or l[0] or r[0]:
                    fail(e, "`or` on an Optional[bytes] and " + r[2])
                return (False, "(match %s with Some (c_ :: v_) => Some (c_ :: v_) | _ => %s end)" % (l[1], r[1]), "OPT BY")
        if isinstance(e, ast.IfExp) and is_none(e.orelse):
            c = self.truthy(self.ex(e.test, env), e.test)
            a = self.ex(e.body, env)
            if a[0] or a[2] not in ("BY",):
                fail(e, "`x if c else None` of type " + a[2])
            return self.bind_all([c], lambda x: (False, "(if %s then Some %s else None)" % (x[0], a[1]), "OPT " + a[2]))
        if isinstance(e, (ast.ListComp, ast.SetComp)):
            it, src, v, r = self.comprehension(e, env)
            return self.bind_all([it], lambda a: (False, "(map (fun %s => %s) %s)" % (v, r[1], src % a[0]), "LIST " + r[2]))
        return Tr.ex(self, e, env)

    def compare(self, e, env):
        if len(e.ops) == 1:
            op, rhs = e.ops[0], e.comparators[0]
            if isinstance(op, (ast.In, ast.NotIn)) and isinstance(rhs, ast.Tuple) and rhs.elts:
                l = self.ex(e.left, env)
                alts = [self.ex(x, env) for x in rhs.elts]
                if l[2] != "BY" or any(a[0] or a[2] != "BY" for a in alts):
                    fail(e, "`in` on a tuple")
                neg = isinstance(op, ast.NotIn)
                return self.bind_all([l], lambda a: (False, ("(negb (%s))" if neg else "(%s)") % " || ".join("text_eqb %s %s" % (a[0], x[1]) for x in alts), "B"))
            if isinstance(op, (ast.In, ast.NotIn, ast.Eq, ast.NotEq)):
                l, r = self.ex(e.left, env), self.ex(rhs, env)
                neg = isinstance(op, (ast.NotIn, ast.NotEq))
                t = None
                if isinstance(op, (ast.In, ast.NotIn)) and l[2] == "Z" and r[2] == "BY":
                    t = "(mem %s %s)"                         # int in bytes
                elif isinstance(op, (ast.Eq, ast.NotEq)) and l[2] == "BY" and r[2] == "BY":
                    t = "(text_eqb %s %s)"
                elif "BY" in (l[2], r[2]):
                    fail(e, "comparison of %s and %s" % (l[2], r[2]))
                if t is not None:
                    return self.bind_all([l, r], lambda a: (False, ("(negb %s)" % t if neg else t) % (a[0], a[1]), "B"))
        return Tr.compare(self, e, env)

    def subscript(self, e, env):
        b = self.ex(e.value, env)
        if b[2] == "BY" or b[2].startswith("LIST "):
            is_list = b[2] != "BY"
            if isinstance(e.slice, ast.Slice):
                if e.slice.step is not None:
                    fail(e, "slice step")
                lo = 0 if e.slice.lower is None else self.const_nat(e.slice.lower)
                hi = None if e.slice.upper is None else self.const_nat(e.slice.upper)
                if lo is None or lo < 0 or (e.slice.upper is not None and hi is None):
                    fail(e, "slice bounds")
                inner = "(skipn %d %%s)" % lo if lo > 0 else "%s"
                if hi is None:
                    if lo == 0:
                        fail(e, "slice bounds")
                    t = inner
                elif hi == -1:
                    t = "(removelast %s)" % inner
                elif hi >= lo:
                    t = "(firstn %d %s)" % (hi - lo, inner)
                else:
                    fail(e, "slice bounds")
                return self.bind_all([b], lambda a: (False, t % a[0], b[2]))
            k = self.const_nat(e.slice)
            if k is None:
                fail(e, "index")
            if k >= 0:
                if is_list:
                    return self.bind_all([b], lambda a: (True, "(gen_list_at %s %d)" % (a[0], k), b[2][5:]))
                return self.bind_all([b], lambda a: (True, "(index %s %d)" % (a[0], k), "Z"))      # bytes[i] is an int
            if k == -1 and is_list:
                return self.bind_all([b], lambda a: (True, "(gen_last %s)" % a[0], b[2][5:]))
            fail(e, "index")
        return Tr.subscript(self, e, env)

    def record(self, cls, e, env):
        ty, fields = RECORDS[cls]
        if e.args:
            fail(e, "positional constructor arguments")
        seen = {}
        rs = []
        for kw in e.keywords:
            names = [f[0] for f in fields]
            if kw.arg not in names or kw.arg in seen:
                fail(e, "constructor keyword")
            want = fields[names.index(kw.arg)][2]
            r = self.ex(kw.value, env)
            if r[2] != want:
                fail(kw.value, "field %s: type %s where %s is needed" % (kw.arg, r[2], want))
            seen[kw.arg] = len(rs)
            rs.append(r)
        if set(seen) != set(f[0] for f in fields):
            fail(e, "constructor keywords missing")
        return self.bind_all(rs, lambda a: (False, "{| %s |}" % "; ".join("%s := %s" % (f[1], a[seen[f[0]]]) for f in fields), ty))

    def call(self, e, env):
        f = e.func
        if isinstance(f, ast.Name):
            if f.id == "int" and len(e.args) == 1 and not e.keywords:
                r = self.ex(e.args[0], env)
                if r[2] == "BY":
                    return self.bind_all([r], lambda a: (True, "(gen_int_bytes %s)" % a[0], "Z"))
                if r[2] != "T":
                    fail(e, "int() of " + r[2])
            if f.id == "bytes" and len(e.args) == 1 and not e.keywords:
                r = self.ex(e.args[0], env)
                if r[2] != "BY":
                    fail(e, "bytes() of " + r[2])
                return self.bind_all([r], lambda a: (False, "(gen_bytes %s)" % a[0], "BY"))
            if f.id == "next" and len(e.args) == 2 and not e.keywords and is_none(e.args[1]) and isinstance(e.args[0], ast.GeneratorExp):
                g = e.args[0]
                if len(g.generators) != 1 or len(g.generators[0].ifs) != 1 or not isinstance(g.generators[0].target, ast.Name) or g.generators[0].is_async:
                    fail(e, "next(...) shape")
                it = self.ex(g.generators[0].iter, env)
                if it[0] or not it[2].startswith("LIST "):
                    fail(e, "next(...) over " + it[2])
                var = g.generators[0].target.id
                v1, c = self.lam(var, g.generators[0].ifs[0], env, it[2][5:])
                c = self.truthy(c, e)
                v2, r = self.lam(var, g.elt, env, it[2][5:])
                if r[2] != "BY":
                    fail(e, "next(...) element type")
                return (False, "(gen_next (fun %s => %s) (fun %s => %s) %s)" % (v1, c[1], v2, r[1], it[1]), "OPT " + r[2])
            if f.id in ("PacketHeader", "SignatureHeader"):
                if f.id not in self.checked_records:
                    fail(e, "class %s was not checked" % f.id)
                return self.record(f.id, e, env)
            if f.id == "cls" and env.get("__class__") == "HTTPSignature":
                return self.record("HTTPSignature", e, env)
            if f.id == "cls" and env.get("__class__") == "HTTP":
                if e.args or [k.arg for k in e.keywords] != ["version", "headers"]:
                    fail(e, "HTTP(...) keywords")
                rs = [self.ex(k.value, env) for k in e.keywords]
                if [r[2] for r in rs] != ["Z", "LIST HDR"]:
                    fail(e, "HTTP(...) field types")
                return self.bind_all(rs, lambda a: (False, "(%s, %s)" % (a[0], a[1]), "HTTP"))
        if isinstance(f, ast.Attribute):
            # the two regular expressions and h11's line extractor: assumed primitives
            if isinstance(f.value, ast.Name) and f.value.id in self.regex and f.value.id not in env:
                kind = self.regex[f.value.id]
                if len(e.args) != 1 or e.keywords:
                    fail(e, "regular expression call")
                a = self.ex(e.args[0], env)
                if a[2] != "BY":
                    fail(e, "regular expression over " + a[2])
                if kind == "version" and f.attr == "match":
                    return self.bind_all([a], lambda x: (False, "(gen_re_http_version %s)" % x[0], "OPT MATCH"))
                if kind == "header" and f.attr == "split":
                    return self.bind_all([a], lambda x: (False, "(hsplit %s)" % x[0], "LIST BY"))
                fail(e, "regular expression method")
            if f.attr == "maybe_extract_lines":
                inner = f.value
                if e.args or e.keywords or not (isinstance(inner, ast.Call) and isinstance(inner.func, ast.Name) and inner.func.id == "copy_buffer"
                                                and len(inner.args) == 1 and not inner.keywords and self.copy_buffer_ok):
                    fail(e, "maybe_extract_lines() of something else than copy_buffer(...)")
                a = self.ex(inner.args[0], env)
                if a[2] != "BY":
                    fail(e, "copy_buffer argument")
                return self.bind_all([a], lambda x: (False, "(extract_lines %s)" % x[0], "OPT LIST BY"))
            if isinstance(f.value, ast.Name) and f.value.id == "self" and "__self__" in env and f.attr in self.methods:
                fn, fields = self.methods[f.attr]
                if any(x not in env["__self__"] for x in fields):
                    fail(e, "method needs a field that is not available")
                fake = ast.Call(func=ast.Name(id=f.attr, ctx=ast.Load()), args=[ast.Name(id=x, ctx=ast.Load()) for x in fields] + list(e.args), keywords=e.keywords)
                ast.copy_location(fake, e)
                ast.fix_missing_locations(fake)
                return self.apply(fn, fake, env)
            recv = self.ex(f.value, env)
            m = f.attr
            if recv[2] == "MATCH" and m == "group" and len(e.args) == 1 and not e.keywords:
                if not (isinstance(e.args[0], ast.Constant) and e.args[0].value == "version"):
                    fail(e, "match group")
                return (recv[0], recv[1], "BY")
            if recv[2] == "T" and m == "encode" and not e.args and not e.keywords:
                return self.bind_all([recv], lambda a: (False, "(utf8 %s)" % a[0], "BY"))
            if recv[2] == "BY":
                if m == "strip" and not e.args and not e.keywords:
                    return self.bind_all([recv], lambda a: (False, "(bstrip %s)" % a[0], "BY"))
                if m == "lower" and not e.args and not e.keywords:
                    return self.bind_all([recv], lambda a: (False, "(lower %s)" % a[0], "BY"))
                if m == "partition" and len(e.args) == 1 and not e.keywords and isinstance(e.args[0], ast.Constant) \
                        and isinstance(e.args[0].value, bytes) and len(e.args[0].value) == 1:
                    return self.bind_all([recv], lambda a: (False, "(partition_on %d %s)" % (e.args[0].value[0], a[0]), "PARTB"))
                if m == "split" and len(e.args) == 1 and len(e.keywords) <= 1:
                    n = None
                    if e.keywords:
                        if e.keywords[0].arg != "maxsplit":
                            fail(e, "split keyword")
                        n = self.const_nat(e.keywords[0].value)
                        if n is None or n < 0:
                            fail(e, "maxsplit must be a non-negative constant")
                    if is_none(e.args[0]):
                        if n is None:
                            fail(e, "split(None) without maxsplit")
                        return self.bind_all([recv], lambda a: (False, "(gen_split_ws %d %s)" % (n, a[0]), "LIST BY"))
                    if not (isinstance(e.args[0], ast.Constant) and isinstance(e.args[0].value, bytes) and len(e.args[0].value) == 1):
                        fail(e, "split separator")
                    sep = by_lit(e.args[0].value)
                    if n is None:
                        return self.bind_all([recv], lambda a: (False, "(gen_split %s %s)" % (sep, a[0]), "LIST BY"))
                    return self.bind_all([recv], lambda a: (False, "(gen_split_max %s (%d) %s)" % (sep, n, a[0]), "LIST BY"))
                fail(e, "bytes method " + m)
            if recv[2] in ("MATCH", "OPT MATCH", "HDR", "SHDR") or recv[2].startswith("LIST ") and recv[2] not in ("LIST T", "LIST Z"):
                fail(e, "method %s of %s" % (m, recv[2]))
        return Tr.call(self, e, env)

    def apply(self, fn, e, env):
        if fn.ret.startswith("PURE "):
            saved = fn.ret
            fn.ret = "FUN " + saved[5:]            # Tr.apply returns a pure application for FUN results
            try:
                r = Tr.apply(self, fn, e, env)
            finally:
                fn.ret = saved
            return (r[0], r[1], saved[5:])
        return Tr.apply(self, fn, e, env)

    def coerce(self, r, want, node):
        if r[2] == want:
            return r
        if {r[2], want} <= {"T", "BY"}:
            fail(node, "a %s where a %s is needed" % (r[2], want))      # str and bytes share the Coq type but never mix
        return Tr.coerce(self, r, want, node)

    # ---------------------------------------------------------------- statements
    def assigned(self, stmts):
        out = Tr.assigned(self, stmts)
        for s in stmts:
            for n in ast.walk(s):
                if isinstance(n, ast.Assign):
                    for t in n.targets:
                        if isinstance(t, ast.Subscript) and isinstance(t.value, ast.Name) and t.value.id not in out:
                            out.append(t.value.id)
        return out

    def terminates(self, stmts):
        if stmts and isinstance(stmts[-1], ast.Continue):
            return True
        return Tr.terminates(self, stmts)

    def raise_term(self, s, env):
        if isinstance(s.exc, ast.Call) and isinstance(s.exc.func, ast.Name) and s.exc.func.id in ("PacketError", "ValueError"):
            if s.cause is not None and not (isinstance(s.cause, ast.Name) and s.cause.id == env.get("__exc__")):
                fail(s, "raise ... from")
            return "(%s)" % ERRS[s.exc.func.id]
        return Tr.raise_term(self, s, env)

    def block(self, stmts, env, ret_ty, k):
        if stmts:
            s, rest = stmts[0], stmts[1:]
            cont = lambda env2: self.block(rest, env2, ret_ty, k)
            if isinstance(s, ast.Continue):
                if not self.loop_stack or rest:
                    fail(s, "continue")
                return self.loop_stack[-1](env)
            if isinstance(s, ast.Return) and isinstance(s.value, ast.Tuple) and ret_ty in ("PAIR DIR Z", "TRIPLE"):
                want = ["DIR", "Z"] if ret_ty == "PAIR DIR Z" else ["DIR", "Z", "LIST HDR"]
                rs = [self.ex(x, env) for x in s.value.elts]
                if [r[2] for r in rs] != want:
                    fail(s, "returned tuple has types %s" % [r[2] for r in rs])
                return self.to_m(self.bind_all(rs, lambda a: (False, "(%s)" % ", ".join(a), ret_ty)))
            if isinstance(s, ast.Return) and s.value is not None and not isinstance(s.value, ast.Tuple):
                r = self.ex(s.value, env)
                if r[2] != ret_ty:
                    r = self.coerce(r, ret_ty, s)
                return self.to_m(r)
            if isinstance(s, ast.AnnAssign) and isinstance(s.target, ast.Name) and isinstance(s.value, ast.Call) and isinstance(s.value.func, ast.Name) \
                    and s.value.func.id == "set" and not s.value.args and not s.value.keywords:
                ty = ANN.get(ast.unparse(s.annotation))
                if ty is None or not ty.startswith("LIST "):
                    fail(s, "annotation of an empty set")
                return self.assign(s.target.id, (False, "[]", ty), env, cont)
            if isinstance(s, ast.Assign) and len(s.targets) == 1 and isinstance(s.targets[0], ast.Subscript):
                t = s.targets[0]
                if not (isinstance(t.value, ast.Name) and t.value.id in env and env[t.value.id][1].startswith("LIST ") and self.const_nat(t.slice) == -1):
                    fail(s, "subscript assignment other than l[-1] = v")
                lst = env[t.value.id]
                r = self.ex(s.value, env)
                if r[2] != lst[1][5:]:
                    fail(s, "l[-1] = v with v of type " + r[2])
                return self.assign(t.value.id, self.bind_all([r], lambda a: (True, "(gen_set_last %s %s)" % (lst[0], a[0]), lst[1])), env, cont)
        return Tr.block(self, stmts, env, ret_ty, k)

    def unpack(self, t, value, env, cont):
        names = []
        for x in t.elts:
            if not isinstance(x, ast.Name):
                fail(t, "unpacking target")
            names.append(x.id)
        r = self.ex(value, env)
        shapes = {"PARTB": ["BY", None, "BY"], "PAIR DIR Z": ["DIR", "Z"], "TRIPLE": ["DIR", "Z", "LIST HDR"]}
        if r[2] in shapes:
            tys = shapes[r[2]]
            if len(names) != len(tys) or (r[2] == "PARTB" and names[1] != "_"):
                fail(t, "unpacking of " + r[2])
            env2 = dict(env)
            pats = []
            for n_, ty in zip(names, tys):
                if n_ == "_" or ty is None:
                    pats.append("_")
                    continue
                v = self.fresh(n_)
                pats.append(v)
                env2[n_] = (v, ty)
            body = cont(env2)
            return self.bind_all([r], lambda x: (True, "(let '(%s) := %s in %s)" % (", ".join(pats), x[0], body), "?"))[1]
        if r[2] == "LIST BY":
            env2 = dict(env)
            vs = []
            for n_ in names:
                if n_ == "_":
                    fail(t, "unpacking target")
                v = self.fresh(n_)
                vs.append(v)
                env2[n_] = (v, "BY")
            body = cont(env2)
            # Python: ValueError when the number of items differs
            return self.bind_all([r], lambda x: (True, "(match %s with [%s] => %s | _ => Err (Crash CValue) end)" % (x[0], "; ".join(vs), body), "?"))[1]
        if r[2] not in ("PART", "LIST T") and not r[2].startswith("PAIR "):
            fail(t, "unpacking of " + r[2])
        return Tr.unpack(self, t, value, env, cont)

    def narrowing(self, s, env):
        """`if x is None: <raise>` / `if not x: <raise>` on an Optional x: what follows sees the value inside"""
        if s.orelse or not self.terminates(s.body) or not all(isinstance(n, (ast.Raise, ast.Return)) for n in s.body[-1:]):
            return None
        t = s.test
        if isinstance(t, ast.Compare) and len(t.ops) == 1 and isinstance(t.ops[0], ast.Is) and isinstance(t.left, ast.Name) and is_none(t.comparators[0]):
            name, mode = t.left.id, "none"
        elif isinstance(t, ast.UnaryOp) and isinstance(t.op, ast.Not) and isinstance(t.operand, ast.Name):
            name, mode = t.operand.id, "falsy"
        else:
            return None
        if name not in env or not isinstance(env[name], tuple) or not env[name][1].startswith("OPT "):
            return None
        return name, mode

    def if_stmt(self, s, rest, env, ret_ty, k):
        nw = self.narrowing(s, env)
        if nw is None:
            return Tr.if_stmt(self, s, rest, env, ret_ty, k)
        name, mode = nw
        outer, oty = env[name]
        inner = self.fresh(name)
        env2 = dict(env)
        env2[name] = (inner, oty[4:])
        bad = self.block(s.body, env, ret_ty, None)
        good = self.block(rest, env2, ret_ty, k)
        if mode == "falsy":
            c = self.truthy((False, inner, oty[4:]), s)
            good = "(if (negb %s) then %s else %s)" % (c[1], bad, good)
        return "(match %s with None => %s | Some %s => %s end)" % (outer, bad, inner, good)

    def try_stmt(self, s, env, ret_ty, cont):
        if s.orelse or s.finalbody or len(s.handlers) != 1:
            fail(s, "try shape")
        h = s.handlers[0]
        if isinstance(h.type, ast.Name):
            classes = [h.type.id]
        elif isinstance(h.type, ast.Tuple) and all(isinstance(x, ast.Name) for x in h.type.elts):
            classes = [x.id for x in h.type.elts]
        else:
            fail(s, "handler shape")
        if not classes or any(c not in ERRS for c in classes) or len(h.body) != 1 or not isinstance(h.body[0], ast.Raise):
            fail(s, "handler shape")
        envh = dict(env)
        if h.name is not None:
            envh["__exc__"] = h.name
        handler = self.raise_term(h.body[0], envh)
        vs = self.assigned(s.body)
        tys = {}

        def end(envx):
            for v in vs:
                tys[v] = envx[v][1]
            outs = [envx[v][0] for v in vs]
            return "(Ok (%s))" % ", ".join(outs) if len(outs) != 1 else "(Ok %s)" % outs[0]
        body = self.block(s.body, env, ret_ty, end)
        env2 = dict(env)
        names = []
        for v in vs:
            nv = self.fresh(v)
            names.append(nv)
            env2[v] = (nv, tys[v])
        caught = " | ".join(dict.fromkeys(ERRS[c] for c in classes))
        x = self.fresh("r")
        return self.bind_pat(names, "(match %s with %s => %s | %s => %s end)" % (body, caught, handler, x, x), cont(env2))

    def for_stmt(self, s, env, ret_ty, cont):
        if s.orelse or not isinstance(s.target, ast.Name):
            fail(s, "for loop shape")
        it = self.ex(s.iter, env)
        if not it[2].startswith("LIST "):
            fail(s, "for loop over " + it[2])
        carried = [v for v in self.assigned(s.body) if v in env]
        self.loops += 1
        lname = "loop%d" % self.loops
        env_in = dict(env)
        params = []
        for v in carried:
            nv = self.fresh(v)
            env_in[v] = (nv, env[v][1])
            params.append("(%s : %s)" % (nv, COQ_TY[env[v][1]]))
        elem = self.fresh(s.target.id)
        if s.target.id != "_":
            env_in[s.target.id] = (elem, it[2][5:])
        state_ty = " * ".join(COQ_TY[env[v][1]] for v in carried) or "unit"

        def end(envx):
            for v in carried:
                if envx[v][1] != env[v][1]:
                    fail(s, "loop variable %s changes type" % v)
            return "(%s rest_ %s)" % (lname, " ".join(envx[v][0] for v in carried))
        self.loop_stack.append(end)
        try:
            body = self.block(s.body, env_in, ret_ty, end)
        finally:
            self.loop_stack.pop()
        if not carried:
            fail(s, "loop without effect")
        done = "(Ok (%s))" % ", ".join(env_in[v][0] for v in carried) if len(carried) != 1 else "(Ok %s)" % env_in[carried[0]][0]
        fix = "(fix %s (l_ : list %s) %s {struct l_} : res (%s) := match l_ with [] => %s | %s :: rest_ => %s end)" % (
            lname, COQ_TY[it[2][5:]], " ".join(params), state_ty, done, elem, body)
        env2 = dict(env)
        names = []
        for v in carried:
            nv = self.fresh(v)
            names.append(nv)
            env2[v] = (nv, env[v][1])
        call = "%s %s %s" % (fix, "%s", " ".join(env[v][0] for v in carried))
        if it[0]:
            lv = self.fresh("l")
            return "(do %s <- %s; %s)" % (lv, it[1], self.bind_pat(names, call % lv, cont(env2)))
        return self.bind_pat(names, call % it[1], cont(env2))

    # ---------------------------------------------------------------- functions
    def params_of(self, fn, extra=()):
        a = fn.args
        if a.vararg or a.kwarg or a.posonlyargs or a.kwonlyargs or a.defaults:
            fail(fn, "parameter kinds")
        params = list(extra)
        for x in a.args:
            if x.arg in ("self", "cls"):
                continue
            ty = ANN.get(ast.unparse(x.annotation)) if x.annotation is not None else None
            if ty is None:
                fail(fn, "parameter annotation of " + x.arg)
            params.append((x.arg, ty))
        return params

    def define(self, fn, gen_name, py_name, params, ret, cls=None, self_fields=None, pure=False):
        """Definition gen_<gen_name> params : res ret := <body>.   pure: straight-line code that cannot raise, no monad"""
        env = {}
        ps = []
        for name, ty in params:
            v = name + "_" if name in RESERVED else name
            env[name] = (v, ty)
            ps.append("(%s : %s)" % (v, COQ_TY[ty]))
        if cls:
            env["__class__"] = cls
        if self_fields is not None:
            env["__self__"] = list(self_fields)
        body = strip_doc(fn.body)
        if pure:
            term = self.pure_block(body, env, ret)
            self.fns[py_name] = Fn(gen_name, [(n, t, None, False) for n, t in params], "PURE " + ret, False)
            return "Definition gen_%s %s : %s :=\n  %s." % (gen_name, " ".join(ps), COQ_TY[ret], term)
        term = self.block(body, env, ret, None)
        self.fns[py_name] = Fn(gen_name, [(n, t, None, False) for n, t in params], ret, False)
        return "Definition gen_%s %s : res (%s) :=\n  %s." % (gen_name, " ".join(ps), COQ_TY[ret], term)

    def pure_block(self, stmts, env, ret):
        if not stmts:
            fail(None, "function falls off its end")
        s, rest = stmts[0], stmts[1:]
        if isinstance(s, ast.Return) and not rest and s.value is not None:
            r = self.ex(s.value, env)
            if r[0] or r[2] != ret:
                fail(s, "a pure function must return a %s that cannot raise (got %s)" % (ret, r[2]))
            return r[1]
        if isinstance(s, ast.Assign) and len(s.targets) == 1 and isinstance(s.targets[0], ast.Name):
            r = self.ex(s.value, env)
            if r[0]:
                fail(s, "an expression that can raise in a pure function")
            v = self.fresh(s.targets[0].id)
            env2 = dict(env)
            env2[s.targets[0].id] = (v, r[2])
            return "(let %s := %s in %s)" % (v, r[1], self.pure_block(rest, env2, ret))
        fail(s, "statement form in a pure function")

    def self_assign(self, fn, attr, gen_name, py_name, params, ret):
        """def __post_init__(self): self.<attr> = <pure expression over the fields>"""
        body = strip_doc(fn.body)
        if [a.arg for a in fn.args.args] != ["self"] or len(body) != 1 or not isinstance(body[0], ast.Assign) or len(body[0].targets) != 1:
            fail(fn, "__post_init__ shape")
        t = body[0].targets[0]
        if not (isinstance(t, ast.Attribute) and isinstance(t.value, ast.Name) and t.value.id == "self" and t.attr == attr):
            fail(fn, "__post_init__ must set self.%s only" % attr)
        fake = ast.FunctionDef(name=fn.name, args=fn.args, body=[ast.Return(value=body[0].value)], decorator_list=[], returns=None)
        ast.copy_location(fake, fn)
        ast.fix_missing_locations(fake)
        return self.define(fake, gen_name, py_name, params, ret, self_fields=[p[0] for p in params], pure=True)


PRELUDE = r"""(* GENERATED by translate/http2coq.py from pyp0f/net/layers/http/{read,header,http}.py and database/signatures/http.py -- do not edit *)
From Coq Require Import String.
From PV Require Import Model.Prelude Model.Bits Model.Sig Model.Text Model.SigParse Model.HttpRead Gen.GeneratedSig.
Local Open Scope string_scope.
Local Open Scope Z_scope.
Local Open Scope list_scope.

(* ASSUMED: re.compile(rb"^HTTP/1\.(?P<version>\d)$").match(v), the group "version" of the match.  Python's `$` matches at the end
   AND before one trailing "\n". *)
Definition gen_re_http_version (v : text) : option text :=
  match v with
  | [72; 84; 84; 80; 47; 49; 46; d] | [72; 84; 84; 80; 47; 49; 46; d; 10] => if is_digit d then Some [d] else None
  | _ => None
  end.
(* ASSUMED: int(bytes) *)
Definition gen_int_bytes (t : text) : res Z := match py_int_ascii t with Some v => Ok v | None => Err (Crash CValue) end.
(* ASSUMED: bytes.split(None, maxsplit=n) *)
Fixpoint gen_split_ws (n : nat) (t : text) : list text :=
  match lstrip_by is_space_bytes t with
  | [] => []
  | t0 => match n with
          | O => [t0]
          | S n' => let '(w, r) := take_word t0 in w :: gen_split_ws n' r
          end
  end.
Definition gen_bytes (t : text) : text := t.                                   (* bytes(bytearray) *)
Definition gen_list_at {A} (l : list A) (i : nat) : res A := match nth_error l i with Some x => Ok x | None => Err (Crash CIndex) end.
Definition gen_last {A} (l : list A) : res A := match rev l with x :: _ => Ok x | [] => Err (Crash CIndex) end.       (* l[-1] *)
Definition gen_set_last {A} (l : list A) (v : A) : res (list A) :=                                                     (* l[-1] = v *)
  match l with [] => Err (Crash CIndex) | _ :: _ => Ok (removelast l ++ [v]) end.
Definition gen_next {A B} (f : A -> bool) (g : A -> B) (l : list A) : option B :=                                     (* next((g x for x in l if f x), None) *)
  match find f l with Some x => Some (g x) | None => None end.
"""


def class_fields(cls, bases):
    """init fields of a dataclass, in constructor order: [(name, annotation)]"""
    out = []
    for b in cls.bases:
        if isinstance(b, ast.Name) and b.id in bases:
            out += bases[b.id]
        elif isinstance(b, ast.Name) and b.id in ("DatabaseSignature", "Layer"):
            pass
        else:
            fail(cls, "base class")
    for n in cls.body:
        if isinstance(n, ast.AnnAssign) and isinstance(n.target, ast.Name):
            if isinstance(n.value, ast.Call) and isinstance(n.value.func, ast.Name) and n.value.func.id == "field":
                if [(k.arg, ast.unparse(k.value)) for k in n.value.keywords] == [("init", "False")] and not n.value.args:
                    continue
                fail(n, "field(...)")
            out.append((n.target.id, ast.unparse(n.annotation)))
        elif isinstance(n, ast.Assign):
            fail(n, "class-level assignment")
    return out


def check_record(name, fields):
    want = [(f[0], f[2]) for f in RECORDS[name][1]]
    got = sorted((n, ANN.get(a, "?" + a)) for n, a in fields)
    if got != sorted(want):
        raise Unsupported("dataclass %s has fields %s, the model record has %s" % (name, got, sorted(want)))


def find_regex(mod, name, pattern):
    for n in mod.body:
        if isinstance(n, ast.Assign) and len(n.targets) == 1 and isinstance(n.targets[0], ast.Name) and n.targets[0].id == name:
            v = n.value
            if isinstance(v, ast.Call) and ast.unparse(v.func) == "re.compile" and len(v.args) == 1 and not v.keywords \
                    and isinstance(v.args[0], ast.Constant) and v.args[0].value == pattern:
                return True
            raise Unsupported("%s is not re.compile(%r)" % (name, pattern))
    raise Unsupported("%s not found" % name)


def main():
    repo, out = sys.argv[1], sys.argv[2]
    tr = HTr(repo)
    tr.checked_records = set()
    tr.copy_buffer_ok = False
    parts = [PRELUDE]

    def load(rel):
        return ast.parse(open(os.path.join(repo, rel), encoding="utf-8").read())

    def functions(mod):
        return {n.name: n for n in mod.body if isinstance(n, ast.FunctionDef)}

    def classes(mod):
        return {n.name: n for n in mod.body if isinstance(n, ast.ClassDef)}

    def method(cls, name):
        ms = [n for n in cls.body if isinstance(n, ast.FunctionDef) and n.name == name]
        if len(ms) != 1:
            raise Unsupported("%s.%s not found" % (cls.name, name))
        return ms[0]

    # --- sig2coq's utilities (translated into Gen/GeneratedSig.v; here only their signatures are needed)
    wc = load("pyp0f/database/parse/wildcard.py")
    for n in wc.body:
        if isinstance(n, ast.Assign) and isinstance(n.targets[0], ast.Name) and n.targets[0].id == "_WILDCARD_FIELD":
            tr.globals["_WILDCARD_FIELD"] = tr.ex(n.value, {})[1:]
    for n in wc.body:
        if isinstance(n, ast.FunctionDef) and n.name == "is_wildcard":
            tr.function(n)
    ufns = functions(load("pyp0f/database/parse/utils.py"))
    for name in ["split_parts", "parse_from_options", "parse_from_numerical_options", "parse_number_in_range",
                 "fixed_options_parser", "fixed_numerical_options_parser", "range_number_parser"]:
        if name not in ufns:
            raise Unsupported("utils.%s not found" % name)
        tr.function(ufns[name])
    tr.n, tr.loops = 0, 0

    # --- header.py
    hdr = load("pyp0f/net/layers/http/header.py")
    hcls = classes(hdr)
    if "Header" not in hcls or "PacketHeader" not in hcls:
        raise Unsupported("Header / PacketHeader not found")
    base_fields = {"Header": class_fields(hcls["Header"], {})}
    if base_fields["Header"] != [("name", "bytes")]:
        raise Unsupported("Header fields")
    check_record("PacketHeader", class_fields(hcls["PacketHeader"], base_fields))
    tr.checked_records.add("PacketHeader")
    parts.append(tr.self_assign(method(hcls["Header"], "__post_init__"), "lower_name", "Header_lower_name", "Header_lower_name", [("name", "BY")], "BY"))

    # --- read.py
    rd = load("pyp0f/net/layers/http/read.py")
    for n in rd.body:
        if isinstance(n, ast.Assign) and len(n.targets) == 1 and isinstance(n.targets[0], ast.Name) and n.targets[0].id == "CRLF":
            if not (isinstance(n.value, ast.Constant) and isinstance(n.value.value, bytes)):
                raise Unsupported("CRLF is not a bytes literal")
            tr.globals["CRLF"] = (by_lit(n.value.value), "BY")
    find_regex(rd, "HTTP_VERSION_PATTERN", VERSION_PATTERN)
    tr.regex["HTTP_VERSION_PATTERN"] = "version"
    rfns = functions(rd)
    for name in ("copy_buffer", "extract_minor_version", "read_first_line", "read_headers", "read_payload"):
        if name not in rfns:
            raise Unsupported("read.%s not found" % name)
    cb = rfns["copy_buffer"]
    if [a.arg for a in cb.args.args] != ["buffer"] or "\n".join(ast.unparse(s) for s in strip_doc(cb.body)) != COPY_BUFFER_BODY:
        raise Unsupported("copy_buffer is not the copy into a fresh h11 ReceiveBuffer")
    if not any(isinstance(n, ast.ImportFrom) and n.module == "h11._receivebuffer" and [a.name for a in n.names] == ["ReceiveBuffer"] for n in rd.body):
        raise Unsupported("ReceiveBuffer is not h11's")
    tr.copy_buffer_ok = True
    for name in ("extract_minor_version", "read_first_line", "read_headers", "read_payload"):
        fn = rfns[name]
        ret = ANN.get(ast.unparse(fn.returns)) if fn.returns is not None else None
        if ret is None:
            raise Unsupported("return annotation of " + name)
        parts.append(tr.define(fn, name, name, tr.params_of(fn), ret))

    # --- http.py
    hp = load("pyp0f/net/layers/http/http.py")
    pcls = classes(hp)
    if "HTTP" not in pcls:
        raise Unsupported("class HTTP not found")
    if class_fields(pcls["HTTP"], {}) != [("version", "int"), ("headers", "Sequence[PacketHeader]")]:
        raise Unsupported("HTTP fields")
    g = method(pcls["HTTP"], "_get_header_value")
    if ast.unparse(g.returns) != "Optional[bytes]":
        raise Unsupported("_get_header_value return annotation")
    parts.append(tr.define(g, "HTTP_get_header_value", "_get_header_value", tr.params_of(g, [("headers", "LIST HDR")]), "OPT BY", self_fields=["headers"], pure=True))
    tr.methods["_get_header_value"] = (tr.fns["_get_header_value"], ["headers"])
    sw = method(pcls["HTTP"], "software")
    if [ast.unparse(d) for d in sw.decorator_list] != ["property"] or ast.unparse(sw.returns) != "Optional[bytes]":
        raise Unsupported("HTTP.software shape")
    parts.append(tr.define(sw, "HTTP_software", "software", [("headers", "LIST HDR")], "OPT BY", self_fields=["headers"], pure=True))
    fb = method(pcls["HTTP"], "from_buffer")
    if [ast.unparse(d) for d in fb.decorator_list] != ["classmethod"]:
        raise Unsupported("HTTP.from_buffer shape")
    parts.append(tr.define(fb, "HTTP_from_buffer", "from_buffer", tr.params_of(fb), "HTTP", cls="HTTP"))

    # --- signatures/http.py
    sg = load("pyp0f/database/signatures/http.py")
    scls = classes(sg)
    if "SignatureHeader" not in scls or "HTTPSignature" not in scls:
        raise Unsupported("SignatureHeader / HTTPSignature not found")
    check_record("SignatureHeader", class_fields(scls["SignatureHeader"], base_fields))
    tr.checked_records.add("SignatureHeader")
    check_record("HTTPSignature", class_fields(scls["HTTPSignature"], {}))
    find_regex(sg, "_HEADER_PATTERN", HEADER_PATTERN)
    tr.regex["_HEADER_PATTERN"] = "header"
    for n in sg.body:
        if isinstance(n, ast.Assign) and len(n.targets) == 1 and isinstance(n.targets[0], ast.Name) and n.targets[0].id == "_parse_version":
            if not (isinstance(n.value, ast.Call) and isinstance(n.value.func, ast.Name) and n.value.func.id in tr.fns
                    and tr.fns[n.value.func.id].ret.startswith("FUN ")):
                raise Unsupported("_parse_version shape")
            r = tr.ex(n.value, {})
            if r[0] or r[2] != "FUN Z":
                raise Unsupported("_parse_version shape")
            parts.append("Definition gen_http_parse_version : text -> res Z := %s." % r[1])
            tr.globals["_parse_version"] = ("gen_http_parse_version", r[2])
    if "_parse_version" not in tr.globals:
        raise Unsupported("_parse_version not found")
    sfns = functions(sg)
    if "_parse_headers" not in sfns or ast.unparse(sfns["_parse_headers"].returns) != "List[SignatureHeader]":
        raise Unsupported("_parse_headers not found")
    parts.append(tr.define(sfns["_parse_headers"], "http_parse_headers", "_parse_headers", tr.params_of(sfns["_parse_headers"]), "LIST SHDR"))
    p = method(scls["HTTPSignature"], "parse")
    if [ast.unparse(d) for d in p.decorator_list] != ["classmethod"]:
        raise Unsupported("HTTPSignature.parse shape")
    parts.append(tr.define(p, "HTTPSignature_parse", "HTTPSignature_parse", tr.params_of(p), "HSIG", cls="HTTPSignature"))
    parts.append(tr.self_assign(method(scls["HTTPSignature"], "__post_init__"), "header_names", "HTTPSignature_header_names",
                                "HTTPSignature_header_names", [("headers", "LIST SHDR")], "LIST BY"))
    open(out, "w").write("\n\n".join(parts) + "\n")


if __name__ == "__main__":
    try:
        main()
    except Unsupported as e:
        print("UNSUPPORTED: %s" % e)
        sys.exit(3)
    except Exception as e:  # fail closed: anything the translator cannot digest is "unsupported", never a guess
        print("UNSUPPORTED: the source has a shape the translator does not handle (%s: %s)" % (type(e).__name__, str(e)[:200]))
        sys.exit(3)
