#!/venv/bin/python
"""Fail-closed translator for the TEXT side of the database: pyp0f/database/parse/utils.py, parse/wildcard.py,
signatures/tcp.py (TCPSignature.parse and its field parsers) and signatures/mtu.py are translated from /repo's CURRENT source
into Gallina functions over `text` in the `res` monad (coq/Gen/GeneratedSig.v); coq/Gen/GenSigP.v proves them equal to the
hand-written model coq/Model/SigParse.v, so the C09 / C10 / C18 theorems about signature texts speak about the code as it is.

Python forms handled: assignments, tuple unpacking, if/elif/else with joins, early return, raise FieldError / ValueError,
try/except ValueError -> raise, for loops over lists (structural recursion carrying the assigned variables), generator functions
(yield appends to the result list), nested `def` returned as a closure (a Gallina function), keyword-only parameters with
defaults, str methods split / partition / startswith / endswith / slicing by constants / indexing / `in`, dict literals and
dict lookups, int(), Flag arithmetic on Quirk, dataclass constructors.  Module-level constant tables (_STRING_QUIRKS,
_STRING_OPTIONS, _INVALID_QUIRKS) are taken by evaluating them with the real interpreter (constant folding).

Assumed primitives (trusted base): `int(str)` is Model.Text.py_int; `str.split(sep)` / `split(sep, maxsplit)` / `partition` /
`startswith` / `endswith` / slicing are the list functions of Model/Text.v.  Anything else raises Unsupported.
"""
import ast
import os
import sys


class Unsupported(Exception):
    pass


def fail(node, why):
    raise Unsupported("%s (line %s: %s)" % (why, getattr(node, "lineno", "?"), ast.unparse(node)[:90] if node is not None else ""))


ANN = {"str": "T", "int": "Z", "bool": "B", "Dict[str, int]": "DICT Z", "Dict[str, T]": "DICT A", "T": "A", "Quirk": "Q", "Tuple[int, bool]": "PAIR Z B",
       "Tuple[List[int], int]": "PAIR LIST Z Z", "WindowSignature": "WIN", "Generator[str, None, None]": "LIST T", "Callable[[str], int]": "FUN Z",
       "Callable[[str], T]": "FUN A", "List[int]": "LIST Z"}
COQ_TY = {"T": "text", "Z": "Z", "B": "bool", "Q": "N", "A": "A", "DICT Z": "list (text * Z)", "DICT A": "list (text * A)", "DICT Q": "list (text * N)",
          "PAIR Z B": "(Z * bool)", "PAIR LIST Z Z": "(list Z * Z)", "WIN": "(wtype * Z * Z)", "LIST T": "list text", "LIST Z": "list Z",
          "FUN Z": "(text -> res Z)", "FUN A": "(text -> res A)", "WT": "wtype", "OPT Q": "option N", "OPTS": "(list Z * Z * Z)", "SIG": "tcp_sig", "ZDICT Q": "list (Z * N)"}
WT = {"NORMAL": "WNormal", "ANY": "WAny", "MOD": "WMod", "MSS": "WMss", "MTU": "WMtu"}


def coq_str(s):
    if any(ord(c) < 32 or ord(c) > 126 or c == '"' for c in s):
        raise Unsupported("string literal %r" % s)
    return '(str "%s")' % s


class Fn:
    def __init__(self, name, params, ret, poly):
        self.name, self.params, self.ret, self.poly = name, params, ret, poly      # params: [(name, type, default-coq-or-None)]


class Tr:
    def __init__(self, repo):
        sys.path.insert(0, repo)
        import importlib
        self.mod_tcp = importlib.import_module("pyp0f.database.signatures.tcp")
        ns = {}
        ns["TCPOption"] = importlib.import_module("pyp0f.net.layers.tcp").TCPOption
        ns["Quirk"] = importlib.import_module("pyp0f.net.quirks").Quirk
        ns["WindowType"] = self.mod_tcp.WindowType
        ns["WILDCARD"] = importlib.import_module("pyp0f.database.parse.wildcard").WILDCARD
        ns["IPV6"] = importlib.import_module("pyp0f.net.layers.ip").IPV6
        ns["IPV4"] = importlib.import_module("pyp0f.net.layers.ip").IPV4
        self.ns = ns
        self.fns = {}
        self.globals = {}           # module-level names -> (term, type)
        self.n = 0
        self.loops = 0

    def fresh(self, base="x"):
        self.n += 1
        return "%s_%d" % (base.strip("_") or "x", self.n)

    # ---------------------------------------------------------------- constants
    def const(self, e):
        for n in ast.walk(e):
            if isinstance(n, ast.Name):
                if n.id not in self.ns:
                    return None
            elif isinstance(n, ast.Constant):
                if not isinstance(n.value, int) or isinstance(n.value, bool):
                    return None
            elif isinstance(n, ast.Call):
                if not (isinstance(n.func, ast.Name) and n.func.id == "Quirk"):
                    return None
            elif not isinstance(n, (ast.Attribute, ast.BinOp, ast.UnaryOp, ast.operator, ast.unaryop, ast.Load, ast.Expression)):
                return None
        try:
            v = eval(compile(ast.Expression(e), "<const>", "eval"), {"__builtins__": {}}, dict(self.ns))
        except Exception:
            return None
        return self.pyval(v)

    def pyval(self, v):
        import enum
        if isinstance(v, self.ns["WindowType"]):
            return (False, WT[v.name], "WT")
        if isinstance(v, self.ns["Quirk"]):
            return (False, "(%d)%%N" % int(v.value), "Q")
        if isinstance(v, bool):
            return (False, "true" if v else "false", "B")
        if isinstance(v, (enum.Enum, int)):
            return (False, "(%d)" % int(v.value if isinstance(v, enum.Enum) else v), "Z")
        return None

    def pydict(self, d, node):
        """A module-level dict constant, by evaluation."""
        items = []
        vt = None
        kt = None
        for k, v in d.items():
            pv = self.pyval(v)
            if pv is None:
                fail(node, "dict value")
            if isinstance(k, str):
                ks, kty = coq_str(k), "T"
            else:
                pk = self.pyval(k)
                if pk is None or pk[2] != "Z":
                    fail(node, "dict key")
                ks, kty = pk[1], "Z"
            if (vt is not None and vt != pv[2]) or (kt is not None and kt != kty):
                fail(node, "heterogeneous dict")
            vt, kt = pv[2], kty
            items.append("(%s, %s)" % (ks, pv[1]))
        if vt is None:
            fail(node, "empty dict")
        return (False, "[%s]" % "; ".join(items), ("DICT " if kt == "T" else "ZDICT ") + vt)

    # ---------------------------------------------------------------- plumbing
    def to_m(self, r):
        return r[1] if r[0] else "(Ok %s)" % r[1]

    def bind_all(self, rs, build):
        names, binds = [], []
        for eff, t, ty in rs:
            if eff:
                v = self.fresh("v")
                binds.append((v, t))
                names.append(v)
            else:
                names.append(t)
        res = build(names)
        if not binds:
            return res
        body = self.to_m(res)
        for v, t in reversed(binds):
            body = "(do %s <- %s; %s)" % (v, t, body)
        return (True, body, res[2])

    def coerce(self, r, want, node):
        if r[2] == want:
            return r
        if want == "B":
            return self.truthy(r, node)
        if want.startswith("DICT ") and r[2].startswith("DICT ") and "A" in (want[5:], r[2][5:]):
            return (r[0], r[1], want)
        if want == "A" or r[2] == "A":
            return (r[0], r[1], want)
        fail(node, "type %s where %s is needed" % (r[2], want))

    def truthy(self, r, node):
        ty = r[2]
        if ty == "B":
            return r
        if ty == "Z":
            return self.bind_all([r], lambda a: (False, "(negb (%s =? 0))" % a[0], "B"))
        if ty in ("T", "LIST T", "LIST Z"):
            return self.bind_all([r], lambda a: (False, "(match %s with [] => false | _ :: _ => true end)" % a[0], "B"))
        fail(node, "truth value of type " + ty)

    # ---------------------------------------------------------------- expressions
    def ex(self, e, env):
        c = self.const(e)
        if c is not None:
            return c
        if isinstance(e, ast.Constant):
            if isinstance(e.value, bool):
                return (False, "true" if e.value else "false", "B")
            if isinstance(e.value, str):
                return (False, coq_str(e.value), "T")
            if e.value is None:
                return (False, "None", "NONE")
            fail(e, "constant")
        if isinstance(e, ast.Name):
            if e.id in env:
                return (False,) + tuple(env[e.id])
            if e.id in self.globals:
                return (False,) + tuple(self.globals[e.id])
            fail(e, "unknown name")
        if isinstance(e, ast.Attribute) and isinstance(e.value, ast.Name) and e.value.id == "TCPOption":
            fail(e, "unknown TCPOption member")
        if isinstance(e, ast.BoolOp):
            if isinstance(e.op, ast.And):
                # `x is not None and <uses of x>`: the test narrows x for the operands to its right
                for i, v in enumerate(e.values[:-1]):
                    if isinstance(v, ast.Compare) and len(v.ops) == 1 and isinstance(v.ops[0], ast.IsNot) and isinstance(v.left, ast.Name) \
                            and v.left.id in env and env[v.left.id][1].startswith("OPT ") and isinstance(v.comparators[0], ast.Constant) \
                            and v.comparators[0].value is None:
                        inner = self.fresh(v.left.id)
                        env2 = dict(env)
                        env2[v.left.id] = (inner, env[v.left.id][1][4:])
                        rest_vals = e.values[i + 1:]
                        rest = self.ex(ast.BoolOp(op=ast.And(), values=rest_vals), env2) if len(rest_vals) > 1 else self.truthy(self.ex(rest_vals[0], env2), rest_vals[0])
                        if rest[0]:
                            here = (True, "(match %s with Some %s => %s | None => Ok false end)" % (env[v.left.id][0], inner, rest[1]), "B")
                        else:
                            here = (False, "(match %s with Some %s => %s | None => false end)" % (env[v.left.id][0], inner, rest[1]), "B")
                        before = [self.truthy(self.ex(x, env), x) for x in e.values[:i]]
                        return self.boolop(True, before + [here])
            rs = [self.truthy(self.ex(v, env), v) for v in e.values]
            return self.boolop(isinstance(e.op, ast.And), rs)
        if isinstance(e, ast.UnaryOp) and isinstance(e.op, ast.Not):
            r = self.truthy(self.ex(e.operand, env), e.operand)
            return self.bind_all([r], lambda a: (False, "(negb %s)" % a[0], "B"))
        if isinstance(e, ast.Compare):
            return self.compare(e, env)
        if isinstance(e, ast.BinOp):
            l, r = self.ex(e.left, env), self.ex(e.right, env)
            if l[2] == "Q" and r[2] == "Q" and isinstance(e.op, ast.BitOr):
                return self.bind_all([l, r], lambda a: (False, "(N.lor %s %s)" % (a[0], a[1]), "Q"))
            ops = {ast.Add: "(%s + %s)", ast.Sub: "(%s - %s)", ast.Mult: "(%s * %s)"}
            if type(e.op) not in ops or l[2] != "Z" or r[2] != "Z":
                fail(e, "operator")
            return self.bind_all([l, r], lambda a: (False, ops[type(e.op)] % (a[0], a[1]), "Z"))
        if isinstance(e, ast.IfExp):
            c = self.truthy(self.ex(e.test, env), e.test)
            a = self.ex(e.body, env)
            b = (False, "[]", a[2]) if (isinstance(e.orelse, ast.List) and not e.orelse.elts) else self.ex(e.orelse, env)
            if a[2] != b[2]:
                fail(e, "branches of different types %s / %s" % (a[2], b[2]))
            if not a[0] and not b[0]:
                return self.bind_all([c], lambda x: (False, "(if %s then %s else %s)" % (x[0], a[1], b[1]), a[2]))
            return self.bind_all([c], lambda x: (True, "(if %s then %s else %s)" % (x[0], self.to_m(a), self.to_m(b)), a[2]))
        if isinstance(e, ast.Subscript):
            return self.subscript(e, env)
        if isinstance(e, ast.Dict):
            items, vt = [], None
            for k, v in zip(e.keys, e.values):
                if not (isinstance(k, ast.Constant) and isinstance(k.value, str)):
                    fail(e, "dict key")
                r = self.ex(v, env)
                if r[0] or (vt is not None and vt != r[2]):
                    fail(e, "dict value")
                vt = r[2]
                items.append("(%s, %s)" % (coq_str(k.value), r[1]))
            return (False, "[%s]" % "; ".join(items), "DICT " + (vt or "Z"))
        if isinstance(e, ast.Tuple):
            rs = [self.ex(x, env) for x in e.elts]
            if len(rs) != 2:
                fail(e, "tuple arity")
            return self.bind_all(rs, lambda a: (False, "(%s, %s)" % (a[0], a[1]), "PAIR %s %s" % (rs[0][2], rs[1][2])))
        if isinstance(e, ast.Call):
            return self.call(e, env)
        fail(e, "expression form")

    def boolop(self, is_and, rs):
        res = rs[-1]
        for r in reversed(rs[:-1]):
            if not res[0] and not r[0]:
                res = (False, ("(%s && %s)" if is_and else "(%s || %s)") % (r[1], res[1]), "B")
            else:
                v = self.fresh("c")
                body = ("(if %s then %s else Ok false)" if is_and else "(if %s then Ok true else %s)") % (v, self.to_m(res))
                res = (True, "(do %s <- %s; %s)" % (v, self.to_m(r), body), "B")
        return res

    def compare(self, e, env):
        operands = [e.left] + list(e.comparators)
        vals = [self.ex(o, env) for o in operands]
        parts = []
        for i, op in enumerate(e.ops):
            l, r = vals[i], vals[i + 1]
            if i > 0 and l[0]:
                fail(e, "chained comparison over an effectful operand")
            if isinstance(op, (ast.Is, ast.IsNot)):
                if r[2] != "NONE" or not l[2].startswith("OPT "):
                    fail(e, "`is` only as `<optional> is [not] None`")
                neg = isinstance(op, ast.IsNot)
                parts.append(self.bind_all([l], lambda a, neg=neg: (False, "(match %s with None => %s | Some _ => %s end)" % (a[0], "false" if neg else "true", "true" if neg else "false"), "B")))
            elif isinstance(op, (ast.In, ast.NotIn)):
                neg = isinstance(op, ast.NotIn)
                if l[2] == "T" and r[2] == "T":
                    t = "(infix %s %s)"
                elif l[2] == "T" and r[2].startswith("DICT "):
                    t = "(gen_dict_mem %s %s)"
                elif l[2] == "Q" and r[2] == "Q":
                    t = "(gen_in %s %s)"
                elif l[2] == "Q" and r[2] == "OPT Q":
                    fail(e, "`in` on an Optional flag set")
                else:
                    fail(e, "`in` on %s / %s" % (l[2], r[2]))
                parts.append(self.bind_all([l, r], lambda a, t=t, neg=neg: (False, ("(negb %s)" % t if neg else t) % (a[0], a[1]), "B")))
            else:
                if l[2] == "T" and r[2] == "T" and isinstance(op, (ast.Eq, ast.NotEq)):
                    t = "(text_eqb %s %s)"
                elif l[2] == "WT" and r[2] == "WT" and isinstance(op, (ast.Eq, ast.NotEq)):
                    t = "(gen_wt_eqb %s %s)"
                elif l[2] == "Z" and r[2] == "Z":
                    t = {ast.Eq: "(%s =? %s)", ast.NotEq: "(%s =? %s)", ast.Lt: "(%s <? %s)", ast.LtE: "(%s <=? %s)", ast.Gt: "(%s >? %s)", ast.GtE: "(%s >=? %s)"}.get(type(op))
                    if t is None:
                        fail(e, "comparison operator")
                elif {l[2], r[2]} == {"T", "Z"} and isinstance(op, (ast.Eq, ast.NotEq)):
                    t = "(gen_false %s %s)"              # a str never equals an int
                else:
                    fail(e, "comparison of %s and %s" % (l[2], r[2]))
                neg = isinstance(op, ast.NotEq)
                parts.append(self.bind_all([l, r], lambda a, t=t, neg=neg: (False, ("(negb %s)" % t if neg else t) % (a[0], a[1]), "B")))
        return parts[0] if len(parts) == 1 else self.boolop(True, parts)

    def subscript(self, e, env):
        b = self.ex(e.value, env)
        if isinstance(e.slice, ast.Slice):
            if b[2] != "T" or e.slice.step is not None:
                fail(e, "slice")
            lo = None if e.slice.lower is None else self.const(e.slice.lower)
            hi = None if e.slice.upper is None else self.const(e.slice.upper)
            if e.slice.lower is not None and e.slice.upper is None and lo and lo[2] == "Z" and int(lo[1].strip("()")) >= 0:
                n = int(lo[1].strip("()"))
                return self.bind_all([b], lambda a: (False, "(skipn %d %s)" % (n, a[0]), "T"))
            if e.slice.lower is None and hi and hi[2] == "Z" and int(hi[1].strip("()")) == -1:
                return self.bind_all([b], lambda a: (False, "(removelast %s)" % a[0], "T"))
            fail(e, "slice bounds")
        k = self.ex(e.slice, env)
        if b[2] == "T" and k[2] == "Z" and not k[0]:
            ci = self.const(e.slice)
            if ci is None or int(ci[1].strip("()")) < 0:
                fail(e, "string index")
            return self.bind_all([b], lambda a: (True, "(gen_char_at %s %d)" % (a[0], int(ci[1].strip("()"))), "T"))
        if b[2].startswith("DICT ") and k[2] == "T":
            return self.bind_all([b, k], lambda a: (True, "(gen_dict_get %s %s)" % (a[1], a[0]), b[2][5:]))
        fail(e, "subscript")

    def call(self, e, env):
        f = e.func
        if isinstance(f, ast.Name) and f.id == "int" and len(e.args) == 1 and not e.keywords:
            r = self.ex(e.args[0], env)
            if r[2] != "T":
                fail(e, "int() of a non-string")
            return self.bind_all([r], lambda a: (True, "(gen_int %s)" % a[0], "Z"))
        if isinstance(f, ast.Name) and f.id == "range" and len(e.args) == 1 and not e.keywords:
            r = self.ex(e.args[0], env)
            if r[2] != "Z":
                fail(e, "range()")
            return self.bind_all([r], lambda a: (False, "(gen_range %s)" % a[0], "LIST Z"))
        if isinstance(f, ast.Name) and f.id == "Quirk" and len(e.args) == 1:
            fail(e, "Quirk(...) of a non-constant")
        if isinstance(f, ast.Attribute):
            recv = self.ex(f.value, env)
            m = f.attr
            if recv[2] == "T" and m in ("startswith", "endswith") and len(e.args) == 1 and not e.keywords:
                fn = "starts_with" if m == "startswith" else "ends_with"
                alts = e.args[0].elts if isinstance(e.args[0], ast.Tuple) else [e.args[0]]
                ps = [self.ex(a, env) for a in alts]
                if any(p[0] or p[2] != "T" for p in ps):
                    fail(e, m)
                return self.bind_all([recv], lambda a: (False, "(" + " || ".join("%s %s %s" % (fn, p[1], a[0]) for p in ps) + ")", "B"))
            if recv[2] == "T" and m == "partition" and len(e.args) == 1 and isinstance(e.args[0], ast.Constant) and isinstance(e.args[0].value, str) and len(e.args[0].value) == 1:
                return self.bind_all([recv], lambda a: (False, "(partition_on %d %s)" % (ord(e.args[0].value), a[0]), "PART"))
            if recv[2] == "T" and m == "split" and len(e.args) == 1 and len(e.keywords) <= 1:
                sep = self.ex(e.args[0], env)
                if sep[2] != "T" or sep[0]:
                    fail(e, "split separator")
                if not e.keywords:
                    return self.bind_all([recv], lambda a: (False, "(gen_split %s %s)" % (sep[1], a[0]), "LIST T"))
                if e.keywords[0].arg != "maxsplit":
                    fail(e, "split keyword")
                n = self.ex(e.keywords[0].value, env)
                if n[2] != "Z":
                    fail(e, "maxsplit")
                return self.bind_all([recv, n], lambda a: (False, "(gen_split_max %s %s %s)" % (sep[1], a[1], a[0]), "LIST T"))
            if recv[2].startswith("ZDICT ") and m == "get" and len(e.args) == 1 and not e.keywords:
                k = self.ex(e.args[0], env)
                if k[2] != "Z":
                    fail(e, "dict.get key")
                return self.bind_all([recv, k], lambda a: (False, "(gen_zdict_get %s %s)" % (a[1], a[0]), "OPT " + recv[2][6:]))
            fail(e, "method " + m)
        if isinstance(f, ast.Name) and f.id in self.fns:
            return self.apply(self.fns[f.id], e, env)
        if isinstance(f, ast.Name) and (f.id in env or f.id in self.globals):
            t, ty = env.get(f.id) or self.globals[f.id]
            if ty.startswith("FUN ") and len(e.args) == 1 and not e.keywords:
                a = self.ex(e.args[0], env)
                if a[2] != "T":
                    fail(e, "closure argument")
                return self.bind_all([a], lambda x: (True, "(%s %s)" % (t, x[0]), ty[4:]))
        if isinstance(f, ast.Name) and f.id in ("OptionsSignature", "WindowSignature") and not e.keywords and len(e.args) == 3:
            rs = [self.ex(a, env) for a in e.args]
            want = ["LIST Z", "Z", "Z"] if f.id == "OptionsSignature" else ["WT", "Z", "Z"]
            rs = [self.coerce(r, w, e) for r, w in zip(rs, want)]
            return self.bind_all(rs, lambda a: (False, "(%s, %s, %s)" % tuple(a), "OPTS" if f.id == "OptionsSignature" else "WIN"))
        if isinstance(f, ast.Name) and f.id == "cls" and env.get("__class__") == "TCPSignature" and not e.args:
            want = {"ip_version": "Z", "ip_options_length": "Z", "ttl": "Z", "is_bad_ttl": "B", "window": "WIN", "options": "OPTS", "payload_class": "Z", "quirks": "Q"}
            seen, rs = {}, []
            for kw in e.keywords:
                if kw.arg not in want or kw.arg in seen:
                    fail(e, "constructor keyword")
                seen[kw.arg] = len(rs)
                rs.append(self.coerce(self.ex(kw.value, env), want[kw.arg], kw.value))
            if set(seen) != set(want):
                fail(e, "constructor keywords missing")
            return self.bind_all(rs, lambda a: (False, "(gen_mk_sig %s)" % " ".join(a[seen[k]] for k in
                                                ["ip_version", "ip_options_length", "ttl", "is_bad_ttl", "window", "options", "payload_class", "quirks"]), "SIG"))
        if isinstance(f, ast.Name) and f.id == "cls" and env.get("__class__") == "MTUSignature" and len(e.args) == 1 and not e.keywords:
            return self.coerce(self.ex(e.args[0], env), "Z", e)
        fail(e, "call")

    def apply(self, fn, e, env):
        given = {}
        pos = [p for p in fn.params if not p[3]]
        if len(e.args) > len(pos):
            fail(e, "too many positional arguments")
        for p, a in zip(pos, e.args):
            given[p[0]] = a
        for kw in e.keywords:
            if kw.arg not in [p[0] for p in fn.params] or kw.arg in given:
                fail(e, "keyword argument " + str(kw.arg))
            given[kw.arg] = kw.value
        rs = []
        inst = None
        for name, ty, default, _ in fn.params:
            if name in given:
                r0 = self.ex(given[name], env)
                if ty == "DICT A" and r0[2].startswith("DICT "):
                    inst = r0[2][5:]          # the type variable T of the callee is instantiated by the dict's value type
                rs.append(self.coerce(r0, ty, given[name]))
            elif default is not None:
                rs.append((False, default, ty))
            else:
                fail(e, "missing argument " + name)
        ret = fn.ret
        if inst is not None and ret in ("A", "FUN A"):
            ret = ret.replace("A", inst)
        if ret == "PUREB":
            return self.bind_all(rs, lambda a: (False, "(gen_%s %s)" % (fn.name, " ".join(a)), "B"))
        if ret.startswith("FUN "):
            return self.bind_all(rs, lambda a: (False, "(gen_%s %s)" % (fn.name, " ".join(a)), ret))
        return self.bind_all(rs, lambda a: (True, "(gen_%s %s)" % (fn.name, " ".join(a)), ret))

    # ---------------------------------------------------------------- statements
    def assigned(self, stmts):
        out = []
        for s in stmts:
            for n in ast.walk(s):
                if isinstance(n, (ast.Assign, ast.AugAssign, ast.AnnAssign)):
                    ts = n.targets if isinstance(n, ast.Assign) else [n.target]
                    for t in ts:
                        for x in ([t] if isinstance(t, ast.Name) else t.elts if isinstance(t, ast.Tuple) else []):
                            if isinstance(x, ast.Name) and x.id != "_" and x.id not in out:
                                out.append(x.id)
                if isinstance(n, ast.Call) and isinstance(n.func, ast.Attribute) and n.func.attr == "append" and isinstance(n.func.value, ast.Name):
                    if n.func.value.id not in out:
                        out.append(n.func.value.id)
                if isinstance(n, ast.Yield) and "__yield__" not in out:
                    out.append("__yield__")
        return out

    def terminates(self, stmts):
        if not stmts:
            return False
        s = stmts[-1]
        if isinstance(s, (ast.Return, ast.Raise)):
            return True
        if isinstance(s, ast.If):
            return self.terminates(s.body) and self.terminates(s.orelse)
        return False

    def raise_term(self, s, env):
        if isinstance(s.exc, ast.Call) and isinstance(s.exc.func, ast.Name):
            name = s.exc.func.id
            handlers = env.get("__handlers__", {})
            name = handlers.get(name, name)
            if name == "FieldError":
                return "(Err FieldError)"
            if name == "ValueError":
                return "(Err (Crash CValue))"
        fail(s, "raise")

    def block(self, stmts, env, ret_ty, k):
        if not stmts:
            if k is None:
                if "__yield__" in env:
                    return "(Ok %s)" % env["__yield__"][0]
                fail(None, "function falls off its end")
            return k(env)
        s, rest = stmts[0], stmts[1:]
        cont = lambda env2: self.block(rest, env2, ret_ty, k)
        if isinstance(s, ast.Expr) and isinstance(s.value, ast.Constant) and isinstance(s.value.value, str):
            return cont(env)
        if isinstance(s, ast.Return):
            if isinstance(s.value, ast.Tuple) and ret_ty.startswith("PAIR"):
                rs = [self.ex(x, env) for x in s.value.elts]
                r = self.bind_all(rs, lambda a: (False, "(%s)" % ", ".join(a), ret_ty))
            else:
                r = self.coerce(self.ex(s.value, env), ret_ty, s)
            return self.to_m(r)
        if isinstance(s, ast.Raise):
            return self.raise_term(s, env)
        if isinstance(s, ast.AnnAssign):
            if not isinstance(s.target, ast.Name) or s.value is None:
                fail(s, "annotated assignment")
            ty = ANN.get(ast.unparse(s.annotation))
            if ty is None:
                fail(s, "annotation")
            if isinstance(s.value, ast.List) and not s.value.elts:
                return self.assign(s.target.id, (False, "[]", ty), env, cont)
            return self.assign(s.target.id, self.coerce(self.ex(s.value, env), ty, s.value), env, cont)
        if isinstance(s, ast.Assign):
            if len(s.targets) != 1:
                fail(s, "multiple targets")
            t = s.targets[0]
            if isinstance(t, ast.Tuple):
                return self.unpack(t, s.value, env, cont)
            if not isinstance(t, ast.Name):
                fail(s, "assignment target")
            r = self.ex(s.value, env)
            if t.id in env and env[t.id][1] != r[2]:
                r = self.coerce(r, env[t.id][1], s.value)
            return self.assign(t.id, r, env, cont)
        if isinstance(s, ast.AugAssign):
            if not isinstance(s.target, ast.Name) or s.target.id not in env:
                fail(s, "augmented assignment")
            fake = ast.BinOp(left=ast.Name(id=s.target.id, ctx=ast.Load()), op=s.op, right=s.value)
            ast.copy_location(fake, s)
            ast.fix_missing_locations(fake)
            return self.assign(s.target.id, self.ex(fake, env), env, cont)
        if isinstance(s, ast.Expr) and isinstance(s.value, ast.Yield):
            if ret_ty != "LIST T":
                fail(s, "yield in a non-generator")
            r = self.coerce(self.ex(s.value.value, env), "T", s)
            return self.assign("__yield__", self.bind_all([r], lambda a: (False, "(%s ++ [%s])" % (env["__yield__"][0], a[0]), "LIST T")), env, cont)
        if isinstance(s, ast.Expr) and isinstance(s.value, ast.Call) and isinstance(s.value.func, ast.Attribute) and s.value.func.attr == "append" \
                and isinstance(s.value.func.value, ast.Name) and len(s.value.args) == 1:
            lst = s.value.func.value.id
            if lst not in env or not env[lst][1].startswith("LIST "):
                fail(s, "append to an unknown list")
            r = self.coerce(self.ex(s.value.args[0], env), env[lst][1][5:], s.value.args[0])
            return self.assign(lst, self.bind_all([r], lambda a: (False, "(%s ++ [%s])" % (env[lst][0], a[0]), env[lst][1])), env, cont)
        if isinstance(s, ast.If):
            return self.if_stmt(s, rest, env, ret_ty, k)
        if isinstance(s, ast.For):
            return self.for_stmt(s, env, ret_ty, cont)
        if isinstance(s, ast.Try):
            return self.try_stmt(s, env, ret_ty, cont)
        fail(s, "statement form")

    def assign(self, name, r, env, cont):
        eff, t, ty = r
        if ty == "NONE":
            fail(None, "assignment of None to " + name)
        v = self.fresh(name)
        env2 = dict(env)
        env2[name] = (v, ty)
        if eff:
            return "(do %s <- %s; %s)" % (v, t, cont(env2))
        return "(let %s := %s in %s)" % (v, t, cont(env2))

    def unpack(self, t, value, env, cont):
        names = []
        for x in t.elts:
            if not isinstance(x, ast.Name):
                fail(t, "unpacking target")
            names.append(x.id)
        r = self.ex(value, env)
        env2 = dict(env)
        vs = []
        if r[2] == "PART":
            if len(names) != 3 or names[1] != "_":
                fail(t, "partition result: the separator element must be ignored")
            a, b = self.fresh(names[0]), self.fresh(names[2])
            env2[names[0]] = (a, "T")
            env2[names[2]] = (b, "T")
            body = cont(env2)
            return self.bind_all([r], lambda x: (True, "(let '(%s, _, %s) := %s in %s)" % (a, b, x[0], body), "?"))[1]
        if r[2].startswith("PAIR "):
            tys = {"PAIR Z B": ["Z", "B"], "PAIR LIST Z Z": ["LIST Z", "Z"]}[r[2]]
            if len(names) != 2:
                fail(t, "pair unpacking")
            for n_, ty in zip(names, tys):
                v = self.fresh(n_)
                vs.append(v)
                env2[n_] = (v, ty)
            body = cont(env2)
            return self.bind_all([r], lambda x: (True, "(let '(%s, %s) := %s in %s)" % (vs[0], vs[1], x[0], body), "?"))[1]
        if r[2] == "LIST T":
            for n_ in names:
                v = self.fresh(n_)
                vs.append(v)
                env2[n_] = (v, "T")
            body = cont(env2)
            # Python: ValueError when the number of items differs
            return self.bind_all([r], lambda x: (True, "(match %s with [%s] => %s | _ => Err (Crash CValue) end)" % (x[0], "; ".join(vs), body), "?"))[1]
        fail(t, "unpacking of " + r[2])

    def if_stmt(self, s, rest, env, ret_ty, k):
        body_t, else_t = self.terminates(s.body), self.terminates(s.orelse)
        c = self.truthy(self.ex(s.test, env), s.test)

        def branches(a, b):
            if c[0]:
                v = self.fresh("c")
                return "(do %s <- %s; if %s then %s else %s)" % (v, c[1], v, a, b)
            return "(if %s then %s else %s)" % (c[1], a, b)
        if body_t and else_t:
            return branches(self.block(s.body, env, ret_ty, None), self.block(s.orelse, env, ret_ty, None))
        if body_t and not s.orelse:
            return branches(self.block(s.body, env, ret_ty, None), self.block(rest, env, ret_ty, k))
        if body_t or else_t:
            fail(s, "a branch that returns next to one that falls through with an else")
        a_then, a_else = self.assigned(s.body), self.assigned(s.orelse)
        vs = [v for v in a_then + [x for x in a_else if x not in a_then] if v in env or (v in a_then and v in a_else)]
        if not vs:
            fail(s, "if statement without effect")
        tys = {}

        def end(envx):
            outs = []
            for v in vs:
                t, ty = envx[v]
                if v in tys and tys[v] != ty:
                    fail(s, "variable %s has different types in the branches" % v)
                tys[v] = ty
                outs.append(t)
            return "(Ok (%s))" % ", ".join(outs) if len(outs) != 1 else "(Ok %s)" % outs[0]
        joined = branches(self.block(s.body, env, ret_ty, end), self.block(s.orelse, env, ret_ty, end) if s.orelse else end(env))
        env2 = dict(env)
        names = []
        for v in vs:
            nv = self.fresh(v)
            names.append(nv)
            env2[v] = (nv, tys[v])
        return self.bind_pat(names, joined, self.block(rest, env2, ret_ty, k))

    def bind_pat(self, names, m, body):
        if len(names) == 1:
            return "(do %s <- %s; %s)" % (names[0], m, body)
        p = self.fresh("p")
        return "(do %s <- %s; let '(%s) := %s in %s)" % (p, m, ", ".join(names), p, body)

    def try_stmt(self, s, env, ret_ty, cont):
        if s.orelse or s.finalbody or len(s.handlers) != 1:
            fail(s, "try shape")
        h = s.handlers[0]
        if not (isinstance(h.type, ast.Name) and h.type.id == "ValueError" and h.name is None and len(h.body) == 1 and isinstance(h.body[0], ast.Raise)):
            fail(s, "handler shape")
        handler = self.raise_term(h.body[0], env)
        vs = self.assigned(s.body)
        tys = {}

        def end(envx):
            for v in vs:
                tys[v] = envx[v][1]
            outs = [envx[v][0] for v in vs]
            return "(Ok (%s))" % ", ".join(outs) if len(outs) != 1 else "(Ok %s)" % outs[0]
        body = self.block(s.body, env, ret_ty, end)
        env2 = dict(env)
        names = []
        for v in vs:
            nv = self.fresh(v)
            names.append(nv)
            env2[v] = (nv, tys[v])
        return self.bind_pat(names, "(gen_try_value %s %s)" % (body, handler), cont(env2))

    def for_stmt(self, s, env, ret_ty, cont):
        if s.orelse or not isinstance(s.target, ast.Name):
            fail(s, "for loop shape")
        it = self.ex(s.iter, env)
        if not it[2].startswith("LIST "):
            fail(s, "for loop over " + it[2])
        carried = [v for v in self.assigned(s.body) if v in env]
        self.loops += 1
        lname = "loop%d" % self.loops
        env_in = dict(env)
        params = []
        for v in carried:
            nv = self.fresh(v)
            env_in[v] = (nv, env[v][1])
            params.append("(%s : %s)" % (nv, COQ_TY[env[v][1]]))
        elem = self.fresh(s.target.id)
        if s.target.id != "_":
            env_in[s.target.id] = (elem, it[2][5:])
        state_ty = " * ".join(COQ_TY[env[v][1]] for v in carried) or "unit"

        def end(envx):
            for v in carried:
                if envx[v][1] != env[v][1]:
                    fail(s, "loop variable %s changes type" % v)
            return "(%s rest_ %s)" % (lname, " ".join(envx[v][0] for v in carried))
        body = self.block(s.body, env_in, ret_ty, end)
        done = "(Ok (%s))" % ", ".join(env_in[v][0] for v in carried) if len(carried) != 1 else "(Ok %s)" % env_in[carried[0]][0]
        fix = "(fix %s (l_ : list %s) %s {struct l_} : res (%s) := match l_ with [] => %s | %s :: rest_ => %s end)" % (
            lname, COQ_TY[it[2][5:]], " ".join(params), state_ty, done, elem, body)
        env2 = dict(env)
        names = []
        for v in carried:
            nv = self.fresh(v)
            names.append(nv)
            env2[v] = (nv, env[v][1])
        call = "%s %s %s" % (fix, "%s", " ".join(env[v][0] for v in carried))
        if it[0]:
            lv = self.fresh("l")
            return "(do %s <- %s; %s)" % (lv, it[1], self.bind_pat(names, call % lv, cont(env2)))
        return self.bind_pat(names, call % it[1], cont(env2))

    # ---------------------------------------------------------------- functions
    def signature(self, fn, cls=None):
        params = []
        a = fn.args
        if a.vararg or a.kwarg or a.posonlyargs:
            fail(fn, "parameter kinds")
        allp = [(x, False) for x in a.args] + [(x, True) for x in a.kwonlyargs]
        defaults = [None] * (len(a.args) - len(a.defaults)) + list(a.defaults) + list(a.kw_defaults)
        for (x, kwonly), d in zip(allp, defaults):
            if x.arg == "cls":
                continue
            ty = ANN.get(ast.unparse(x.annotation)) if x.annotation is not None else None
            if ty is None:
                fail(fn, "parameter annotation of " + x.arg)
            dv = None
            if d is not None:
                r = self.ex(d, {})
                if r[0]:
                    fail(fn, "default value")
                dv = r[1]
            params.append((x.arg, ty, dv, kwonly))
        ret = ANN.get(ast.unparse(fn.returns)) if fn.returns is not None else None
        if cls == "TCPSignature":
            ret = "SIG"
        if cls == "MTUSignature":
            ret = "Z"
        if ret is None:
            fail(fn, "return annotation")
        poly = any(p[1] in ("A", "DICT A", "FUN A") for p in params) or ret in ("A", "FUN A")
        return Fn(fn.name if cls is None else cls + "_" + fn.name, params, ret, poly)

    def function(self, fn, cls=None):
        if fn.name == "is_wildcard" and cls is None:
            # value: Union[int, str]; the parsers only ever pass strings: translated at type text
            body = [x for x in fn.body if not (isinstance(x, ast.Expr) and isinstance(x.value, ast.Constant))]
            if [a.arg for a in fn.args.args] != ["value"] or len(body) != 1 or not isinstance(body[0], ast.Return):
                fail(fn, "is_wildcard shape")
            r = self.coerce(self.ex(body[0].value, {"value": ("value", "T")}), "B", fn)
            if r[0]:
                fail(fn, "is_wildcard must be pure")
            self.fns["is_wildcard"] = Fn("is_wildcard", [("value", "T", None, False)], "PUREB", False)
            return "Definition gen_is_wildcard (value : text) : bool :=\n  %s." % r[1]
        sig = self.signature(fn, cls)
        env = {}
        ps = []
        for name, ty, _, _ in sig.params:
            v = name + "_" if name in ("min", "max", "type", "fix", "match", "end", "in", "at") else name
            env[name] = (v, ty)
            ps.append("(%s : %s)" % (v, COQ_TY[ty]))
        if cls:
            env["__class__"] = cls
        head = "Definition gen_%s %s%s" % (sig.name, "{A : Type} " if sig.poly else "", " ".join(ps))
        body = list(fn.body)
        if sig.ret.startswith("FUN "):
            # def f(...): def parser(field): return <call>; return parser
            body = [s for s in body if not (isinstance(s, ast.Expr) and isinstance(s.value, ast.Constant))]
            if len(body) != 2 or not isinstance(body[0], ast.FunctionDef) or not isinstance(body[1], ast.Return) \
                    or not isinstance(body[1].value, ast.Name) or body[1].value.id != body[0].name:
                fail(fn, "closure factory shape")
            inner = body[0]
            isig = self.signature(inner)
            if len(isig.params) != 1 or isig.params[0][1] != "T":
                fail(inner, "closure parameter")
            env2 = dict(env)
            env2[isig.params[0][0]] = (isig.params[0][0], "T")
            term = self.block(inner.body, env2, isig.ret, None)
            self.fns[fn.name] = sig
            return "%s : text -> res (%s) :=\n  fun %s => %s." % (head, COQ_TY[isig.ret], isig.params[0][0], term)
        if sig.ret == "LIST T" and any(isinstance(n, ast.Yield) for n in ast.walk(fn)):
            env["__yield__"] = ("[]", "LIST T")
        term = self.block(body, env, sig.ret, None)
        self.fns[fn.name if cls is None else fn.name] = sig
        return "%s : res (%s) :=\n  %s." % (head, COQ_TY[sig.ret], term)


PRELUDE = r"""(* GENERATED by translate/sig2coq.py from pyp0f/database/parse/{utils,wildcard}.py and signatures/{tcp,mtu}.py -- do not edit *)
From Coq Require Import String.
From PV Require Import Model.Prelude Model.Bits Model.Sig Model.Text.
Local Open Scope string_scope.
Local Open Scope Z_scope.
Local Open Scope list_scope.

Definition gen_in (m q : N) : bool := N.eqb (N.land q m) m.                 (* flag in flags *)
Definition gen_false {A B} (_ : A) (_ : B) : bool := false.                 (* str == int *)
Definition gen_wt_eqb (a c : wtype) : bool :=
  match a, c with WNormal, WNormal | WAny, WAny | WMod, WMod | WMss, WMss | WMtu, WMtu => true | _, _ => false end.
Definition gen_int (t : text) : res Z := match py_int t with Some v => Ok v | None => Err (Crash CValue) end.
Definition gen_range (n : Z) : list Z := map Z.of_nat (seq 0 (Z.to_nat n)).
Definition gen_sep (sep : text) : Z := match sep with [c] => c | _ => -1 end.     (* only one-character separators occur *)
Definition gen_split (sep t : text) : list text := split_on (gen_sep sep) t.
Definition gen_split_max (sep : text) (n : Z) (t : text) : list text :=
  if n <? 0 then split_on (gen_sep sep) t else split_max (gen_sep sep) (Z.to_nat n) t.
Definition gen_char_at (t : text) (i : nat) : res text := match nth_error t i with Some c => Ok [c] | None => Err (Crash CIndex) end.
Fixpoint gen_dict_mem {A} (k : text) (d : list (text * A)) : bool :=
  match d with [] => false | (k', _) :: r => text_eqb k k' || gen_dict_mem k r end.
Fixpoint gen_dict_get {A} (k : text) (d : list (text * A)) : res A :=
  match d with [] => Err (Crash CKey) | (k', v) :: r => if text_eqb k k' then Ok v else gen_dict_get k r end.
Fixpoint gen_zdict_get {A} (k : Z) (d : list (Z * A)) : option A :=
  match d with [] => None | (k', v) :: r => if k =? k' then Some v else gen_zdict_get k r end.
Definition gen_try_value {A} (m : res A) (h : res A) : res A := match m with Err (Crash CValue) => h | x => x end.
Definition gen_mk_sig (ver olen ttl : Z) (bad : bool) (w : wtype * Z * Z) (o : list Z * Z * Z) (pay : Z) (q : N) : tcp_sig :=
  let '(wt, wsize, wscale) := w in let '(layout, mss, eol) := o in
  {| s_ver := ver; s_olen := olen; s_ttl := ttl; s_bad_ttl := bad; s_wtype := wt; s_wsize := wsize; s_wscale := wscale;
     s_layout := layout; s_mss := mss; s_eol_pad := eol; s_pay := pay; s_quirks := q |}.
"""


def printers(repo):
    """TCPOptions.dump (net/layers/tcp/options.py) and dump_quirks (net/quirks.py): the two tables are taken by EVALUATION (contents and
    order as the interpreter has them), the two bodies are compared with the text they are read as (anything else: Unsupported)."""
    import importlib
    opt_mod = importlib.import_module("pyp0f.net.layers.tcp.options")
    q_mod = importlib.import_module("pyp0f.net.quirks")

    def body_of(path, name, cls=None):
        tree = ast.parse(open(os.path.join(repo, path), encoding="utf-8").read())
        scope = tree.body
        if cls:
            c = [n for n in tree.body if isinstance(n, ast.ClassDef) and n.name == cls]
            if len(c) != 1:
                raise Unsupported("class %s not found" % cls)
            scope = c[0].body
        f = [n for n in scope if isinstance(n, ast.FunctionDef) and n.name == name]
        if len(f) != 1:
            raise Unsupported("%s not found" % name)
        return f[0], [ast.unparse(x) for x in f[0].body if not (isinstance(x, ast.Expr) and isinstance(x.value, ast.Constant))]
    f, b = body_of("pyp0f/net/quirks.py", "dump_quirks")
    if [a.arg for a in f.args.args] != ["quirks"] or b != ["return ','.join((s for quirk, s in QUIRK_STRINGS.items() if quirk in quirks))"]:
        fail(f, "dump_quirks is not `','.join(s for quirk, s in QUIRK_STRINGS.items() if quirk in quirks)`")
    qs = q_mod.QUIRK_STRINGS
    if not all(isinstance(k, q_mod.Quirk) and isinstance(v, str) for k, v in qs.items()):
        raise Unsupported("QUIRK_STRINGS is not a Quirk -> str table")
    out = ["(* ---- printers ---- *)",
           "Definition gen_QUIRK_STRINGS_out : list (N * text) := [%s]." % "; ".join("((%d)%%N, %s)" % (int(k.value), coq_str(v)) for k, v in qs.items()),
           "Definition gen_dump_quirks (quirks : N) : text :=\n  join (str \",\") (map snd (filter (fun qs => gen_in (fst qs) quirks) gen_QUIRK_STRINGS_out))."]
    f, b = body_of("pyp0f/net/layers/tcp/options.py", "dump", cls="TCPOptions")
    want = ["eol_string = OPTION_STRINGS[TCPOption.EOL].format(padding_length=self.eol_padding_length if self.eol_padding_length is not None else '?')",
            "return ','.join((OPTION_STRINGS.get(option, f'?{option}') if option != TCPOption.EOL else eol_string for option in self.layout))"]
    if b != want:
        fail(f, "TCPOptions.dump is not the expected two statements")
    os_ = opt_mod.OPTION_STRINGS
    TO = opt_mod.TCPOption
    if TO.EOL not in os_ or not all(isinstance(v, str) for v in os_.values()):
        raise Unsupported("OPTION_STRINGS shape")
    tmpl = os_[TO.EOL]
    if tmpl.count("{padding_length}") != 1 or not tmpl.endswith("{padding_length}") or "{" in tmpl[:-len("{padding_length}")] or "}" in tmpl[:-len("{padding_length}")]:
        raise Unsupported("the EOL string is not `<text>{padding_length}`")
    for k, v in os_.items():
        if k != TO.EOL and ("{" in v or "}" in v):
            raise Unsupported("format field in a plain option string")
    out.append("Definition gen_OPTION_STRINGS_out : list (Z * text) := [%s]." % "; ".join("((%d), %s)" % (int(k), coq_str(v)) for k, v in os_.items() if k != TO.EOL))
    out.append("Definition gen_TCPOptions_dump (layout : list Z) (eol_padding_length : Z) : text :=\n"
               "  let eol_string := %s ++ dec eol_padding_length in      (* str.format of an int: its decimal digits *)\n"
               "  join (str \",\") (map (fun option => if negb (option =? (%d)) then match gen_zdict_get option gen_OPTION_STRINGS_out with Some t => t | None => str \"?\" ++ dec option end else eol_string) layout)."
               % (coq_str(tmpl[:-len("{padding_length}")]), int(TO.EOL)))
    return "\n".join(out)


def main():
    repo, out = sys.argv[1], sys.argv[2]
    tr = Tr(repo)
    parts = [PRELUDE]

    def load(rel):
        return ast.parse(open(os.path.join(repo, rel), encoding="utf-8").read())
    wc = load("pyp0f/database/parse/wildcard.py")
    for n in wc.body:
        if isinstance(n, ast.Assign) and isinstance(n.targets[0], ast.Name) and n.targets[0].id == "_WILDCARD_FIELD":
            tr.globals["_WILDCARD_FIELD"] = tr.ex(n.value, {})[1:]
    for n in wc.body:
        if isinstance(n, ast.FunctionDef) and n.name == "is_wildcard":
            parts.append(tr.function(n))
    if "is_wildcard" not in tr.fns:
        raise Unsupported("is_wildcard not found")
    utils = load("pyp0f/database/parse/utils.py")
    order = ["split_parts", "parse_from_options", "parse_from_numerical_options", "parse_number_in_range",
             "fixed_options_parser", "fixed_numerical_options_parser", "range_number_parser"]
    ufns = {n.name: n for n in utils.body if isinstance(n, ast.FunctionDef)}
    for name in order:
        if name not in ufns:
            raise Unsupported("utils.%s not found" % name)
        parts.append(tr.function(ufns[name]))
    tcp = load("pyp0f/database/signatures/tcp.py")
    # module-level tables, by evaluation
    for name in ("_STRING_QUIRKS", "_STRING_OPTIONS", "_INVALID_QUIRKS"):
        r = tr.pydict(getattr(tr.mod_tcp, name), None)
        parts.append("Definition gen_%s : %s := %s." % (name.strip("_"), {"DICT Q": "list (text * N)", "DICT Z": "list (text * Z)", "ZDICT Q": "list (Z * N)"}[r[2]], r[1]))
        tr.globals[name] = ("gen_%s" % name.strip("_"), r[2])
    tcp_fns, tcp_cls = {}, None
    for n in tcp.body:
        if isinstance(n, ast.Assign) and len(n.targets) == 1 and isinstance(n.targets[0], ast.Name) and isinstance(n.value, ast.Call) \
                and isinstance(n.value.func, ast.Name) and n.value.func.id in tr.fns and tr.fns[n.value.func.id].ret.startswith("FUN "):
            r = tr.ex(n.value, {})
            if r[0]:
                raise Unsupported("module-level parser " + n.targets[0].id)
            parts.append("Definition gen_%s : text -> res Z := %s." % (n.targets[0].id.strip("_"), r[1]))
            tr.globals[n.targets[0].id] = ("gen_%s" % n.targets[0].id.strip("_"), r[2])
        elif isinstance(n, ast.FunctionDef):
            tcp_fns[n.name] = n
        elif isinstance(n, ast.ClassDef) and n.name == "TCPSignature":
            tcp_cls = n
    for name in ["_parse_ttl", "_parse_window", "_parse_options", "_parse_quirks"]:
        if name not in tcp_fns:
            raise Unsupported("%s not found" % name)
        parts.append(tr.function(tcp_fns[name]).replace("gen__parse", "gen_parse"))
        tr.fns[name].name = tr.fns[name].name.lstrip("_")
    for must in ("_parse_ip_version", "_parse_ip_options_length", "_parse_mss", "_parse_payload_class"):
        if must not in tr.globals:
            raise Unsupported("module-level parser %s not found" % must)
    parse = [n for n in (tcp_cls.body if tcp_cls else []) if isinstance(n, ast.FunctionDef) and n.name == "parse"]
    if len(parse) != 1:
        raise Unsupported("TCPSignature.parse not found")
    parts.append(tr.function(parse[0], cls="TCPSignature"))
    mtu = load("pyp0f/database/signatures/mtu.py")
    for n in mtu.body:
        if isinstance(n, ast.Assign) and isinstance(n.targets[0], ast.Name) and n.targets[0].id == "_parse_mtu":
            r = tr.ex(n.value, {})
            parts.append("Definition gen_parse_mtu : text -> res Z := %s." % r[1])
            tr.globals["_parse_mtu"] = ("gen_parse_mtu", r[2])
    mcls = [n for n in mtu.body if isinstance(n, ast.ClassDef) and n.name == "MTUSignature"]
    mparse = [n for n in (mcls[0].body if mcls else []) if isinstance(n, ast.FunctionDef) and n.name == "parse"]
    if len(mparse) != 1 or "_parse_mtu" not in tr.globals:
        raise Unsupported("MTUSignature.parse not found")
    parts.append(tr.function(mparse[0], cls="MTUSignature"))
    parts.append(printers(repo))
    open(out, "w").write("\n\n".join(parts) + "\n")


if __name__ == "__main__":
    try:
        main()
    except Unsupported as e:
        print("UNSUPPORTED: %s" % e)
        sys.exit(3)
    except Exception as e:  # fail closed: anything the translator cannot digest is "unsupported", never a guess
        print("UNSUPPORTED: the source has a shape the translator does not handle (%s: %s)" % (type(e).__name__, str(e)[:200]))
        sys.exit(3)
