#!/venv/bin/python
"""Fail-closed translator for h11's ReceiveBuffer line extractor, as INSTALLED, and pyp0f's copy_buffer.

    h112coq.py <ignored-repo-arg> <out.v> [<h11 _receivebuffer.py to read instead of the installed one>]
    (the third argument may also be given as the environment variable H11_SOURCE)

Translated from the CURRENT text of h11/_receivebuffer.py (located with importlib.util.find_spec, parsed with ast, never imported)
and of /repo/pyp0f/net/layers/http/read.py into Gallina (coq/Gen/GeneratedH11.v); coq/Gen/GenH11P.v proves the result equal to the
hand-written model Model.HttpRead.extract_lines:

  _receivebuffer.py   blank_line_regex, ReceiveBuffer.__init__, __iadd__, _extract, maybe_extract_lines
  read.py             copy_buffer, and the place where read_payload calls copy_buffer(buffer).maybe_extract_lines()

A ReceiveBuffer is the record `rbuf` of its three attributes (Gen/GenH11Lib.v); a method is a function from the state (and its
arguments) to the new state and the result.  A method that contains an `assert` or an index `l[i]` returns an `h11_outcome`
(H11Return / AssertionFailed / IndexFailed).  Python values: int = Z, bytes / bytearray = text (list of byte values), a list of
bytearrays = list text.  A slice of a bytearray is a COPY (so `out = self._data[:n]` is not changed by a later `del self._data[:n]`);
the elements of a list of bytearrays are edited in place by the `for line in lines:` loop, which is therefore rendered as a `map`.

ASSUMED (Gen/GenH11Lib.v):
  * re.compile(b"\\n\\r?\\n", re.MULTILINE).search(data, start), .span(0)[-1] of the match: `find_blank_end` (pattern and flag are
    read LITERALLY and must be exactly these);
  * Python slices / negative indices: py_take, py_drop, py_index; bytearray.split(<one byte>): Model.Text.split_on;
    endswith / startswith: Model.Text.ends_with / starts_with; ==: Model.Text.text_eqb; len, max, +, -.
Anything else: UNSUPPORTED (exit 2).
"""
import ast
import importlib.util
import os
import sys

PATTERN = b"\n\r?\n"
REGEX_NAME = "blank_line_regex"
CLASS = "ReceiveBuffer"
FIELDS = {"_data": ("rb_data", "BY"), "_next_line_search": ("rb_next_line_search", "Z"), "_multiple_lines_search": ("rb_multiple_lines_search", "Z")}
METHODS = ["__init__", "__iadd__", "_extract", "maybe_extract_lines"]
COQ_NAME = {"__init__": "gen_rb_init", "__iadd__": "gen_rb_iadd", "_extract": "gen_rb_extract", "maybe_extract_lines": "gen_rb_maybe_extract_lines"}
FORBIDDEN_METHODS = ("__setattr__", "__getattr__", "__getattribute__", "__delattr__", "__slots__", "__new__", "__init_subclass__")
BUILTINS_USED = ("max", "len", "bytes", "bytearray", "re", "min", "int")
COQ_TY = {"Z": "Z", "BY": "text", "LBY": "list text", "RB": "rbuf"}
RET_ANN = {"None": "NONE", "'ReceiveBuffer'": "SELF", "bytearray": "BY", "Optional[List[bytearray]]": "OPT LBY", "ReceiveBuffer": "RB"}
ARG_ANN = {"int": "Z", "Union[bytes, bytearray]": "BY", "BufferLike": "BY"}


class Unsupported(Exception):
    pass


def fail(node, why):
    try:
        src = ast.unparse(node)
    except Exception:                                            # pragma: no cover
        src = "?"
    raise Unsupported("line %s: %s: %s" % (getattr(node, "lineno", "?"), why, src))


def strip_doc(body):
    return [s for s in body if not (isinstance(s, ast.Expr) and isinstance(s.value, ast.Constant) and isinstance(s.value.value, str))]


def zlit(n):
    return "(%d)" % n if n < 0 else "%d" % n


def bylit(b):
    return "[%s]" % "; ".join(str(c) for c in b)


def int_const(e):
    if isinstance(e, ast.Constant) and type(e.value) is int:
        return e.value
    if isinstance(e, ast.UnaryOp) and isinstance(e.op, ast.USub) and isinstance(e.operand, ast.Constant) and type(e.operand.value) is int:
        return -e.operand.value
    return None


def is_self_attr(e, name=None):
    return isinstance(e, ast.Attribute) and isinstance(e.value, ast.Name) and e.value.id == "self" and (name is None or e.attr == name)


class Env:
    """name -> (coq name, type); 'st' = the coq variable holding the current state of `self` (None outside a method);
    `nonempty` = coq names of bytearrays known to be non-empty here; `pending` = index expressions that must be bound first."""

    def __init__(self, vars_, st, nonempty=()):
        self.vars = dict(vars_)
        self.st = st
        self.nonempty = frozenset(nonempty)

    def bind(self, name, coq, ty):
        e = Env(self.vars, self.st, self.nonempty)
        e.vars[name] = (coq, ty)
        return e

    def with_st(self, st):
        return Env(self.vars, st, self.nonempty)

    def with_nonempty(self, coq):
        return Env(self.vars, self.st, self.nonempty | {coq})


class H11Tr:
    def __init__(self):
        self.n = 0
        self.sigs = {}            # python method name -> dict(args=[(name, ty)], ret=kind, raises=bool)
        self.regex_ok = False
        self.cur = None           # the method being translated

    def fresh(self, base):
        self.n += 1
        base = "".join(c if c.isalnum() or c == "_" else "_" for c in base).strip("_") or "v"
        return "%s_%d" % (base, self.n)

    # ------------------------------------------------------------------ expressions
    # ex returns (coq, type); index expressions `l[i]` (IndexError) are put into `pend` as (var, coq of an option) and must be
    # bound by the statement that contains the expression.
    def ex(self, e, env, pend):
        c = int_const(e)
        if c is not None:
            return zlit(c), "Z"
        if isinstance(e, ast.Constant):
            if type(e.value) is bytes:
                return bylit(e.value), "BY"
            fail(e, "constant")
        if isinstance(e, ast.List):
            if e.elts:
                fail(e, "list display")
            return "[]", "LBY"
        if isinstance(e, ast.Name):
            if e.id not in env.vars:
                fail(e, "unknown name")
            coq, ty = env.vars[e.id]
            if ty in ("MATCH", "MEND"):
                fail(e, "a match object used as a value")
            return coq, ty
        if is_self_attr(e):
            if env.st is None or e.attr not in FIELDS:
                fail(e, "attribute")
            f, ty = FIELDS[e.attr]
            return "(%s %s)" % (f, env.st), ty
        if isinstance(e, ast.BinOp):
            if not isinstance(e.op, (ast.Add, ast.Sub)):
                fail(e, "operator")
            a, ta = self.ex(e.left, env, pend)
            b, tb = self.ex(e.right, env, pend)
            if (ta, tb) != ("Z", "Z"):
                fail(e, "arithmetic on %s, %s" % (ta, tb))
            return "(%s %s %s)" % (a, "+" if isinstance(e.op, ast.Add) else "-", b), "Z"
        if isinstance(e, ast.Compare):
            return self.compare(e, env, pend)
        if isinstance(e, ast.Subscript):
            return self.subscript(e, env, pend)
        if isinstance(e, ast.Call):
            return self.call(e, env, pend)
        fail(e, "expression")

    def compare(self, e, env, pend):
        operands = [e.left] + list(e.comparators)
        if not all(isinstance(o, ast.Eq) for o in e.ops):
            fail(e, "comparison operator")
        rs = [self.ex(o, env, pend) for o in operands]
        # a chained comparison evaluates each operand once (the operands here are pure or bound beforehand) and is the conjunction
        parts = []
        for (a, ta), (b, tb) in zip(rs, rs[1:]):
            if (ta, tb) == ("BY", "BY"):
                parts.append("text_eqb %s %s" % (a, b))                     # bytearray == bytes compares the contents
            elif (ta, tb) == ("Z", "Z"):
                parts.append("(%s =? %s)" % (a, b))
            else:
                fail(e, "== on %s, %s" % (ta, tb))
        return "(%s)" % " && ".join(parts), "B"

    def subscript(self, e, env, pend):
        # match.span(0)[-1]: the end of the match
        v = e.value
        if (isinstance(v, ast.Call) and isinstance(v.func, ast.Attribute) and v.func.attr == "span" and isinstance(v.func.value, ast.Name)
                and v.func.value.id in env.vars and env.vars[v.func.value.id][1] in ("MATCH", "MEND")):
            coq, ty = env.vars[v.func.value.id]
            if ty != "MEND":
                fail(e, "span() of a match that may be None")
            if len(v.args) != 1 or v.keywords or int_const(v.args[0]) != 0:
                fail(e, "span() of something else than group 0")
            if int_const(e.slice) not in (-1, 1):
                fail(e, "only the END of the match (span(0)[-1]) is available from find_blank_end")
            return coq, "Z"
        r, ty = self.ex(v, env, pend)
        if isinstance(e.slice, ast.Slice):
            s = e.slice
            if s.step is not None or (s.lower is None) == (s.upper is None) or ty not in ("BY", "LBY"):
                fail(e, "slice shape")
            b, tb = self.ex(s.upper if s.lower is None else s.lower, env, pend)
            if tb != "Z":
                fail(e, "slice bound")
            return "(%s %s %s)" % ("py_take" if s.lower is None else "py_drop", r, b), ty
        if ty != "LBY":
            fail(e, "index into " + ty)
        i, ti = self.ex(e.slice, env, pend)
        if ti != "Z":
            fail(e, "index")
        if not (self.cur and self.sigs[self.cur]["raises"]):
            fail(e, "index in a method not marked as raising")               # pragma: no cover
        var = self.fresh("item")
        pend.append((var, "(py_index %s %s)" % (r, i)))
        return var, "BY"

    def call(self, e, env, pend):
        f = e.func
        if e.keywords:
            fail(e, "keyword arguments")
        if isinstance(f, ast.Name):
            if f.id in env.vars:
                fail(e, "call of a local")
            if f.id == "len" and len(e.args) == 1:
                a, ta = self.ex(e.args[0], env, pend)
                if ta not in ("BY", "LBY"):
                    fail(e, "len of " + ta)
                return "(Z.of_nat (length %s))" % a, "Z"
            if f.id == "max" and len(e.args) == 2:
                rs = [self.ex(a, env, pend) for a in e.args]
                if [t for _, t in rs] != ["Z", "Z"]:
                    fail(e, "max of non-integers")
                return "(Z.max %s %s)" % (rs[0][0], rs[1][0]), "Z"
            if f.id == "bytes" and len(e.args) == 1:
                a, ta = self.ex(e.args[0], env, pend)
                if ta != "BY":
                    fail(e, "bytes() of " + ta)
                return a, "BY"                                               # bytes(b): an immutable copy with the same contents
            if f.id == "bytearray" and not e.args:
                return "[]", "BY"
            if f.id == CLASS and not e.args:
                if "__init__" not in self.sigs:
                    fail(e, "constructor before __init__ is translated")
                return COQ_NAME["__init__"], "RB"
            fail(e, "call")
        if isinstance(f, ast.Attribute):
            # the regular expression
            if isinstance(f.value, ast.Name) and f.value.id == REGEX_NAME and f.value.id not in env.vars:
                if not self.regex_ok or f.attr != "search" or len(e.args) != 2:
                    fail(e, "regular expression call")
                d, td = self.ex(e.args[0], env, pend)
                s, ts = self.ex(e.args[1], env, pend)
                if (td, ts) != ("BY", "Z"):
                    fail(e, "search(%s, %s)" % (td, ts))
                return "(find_blank_end %s %s)" % (d, s), "MATCH"
            if is_self_attr(f):
                fail(e, "a method call is a statement of its own here")
            r, ty = self.ex(f.value, env, pend)
            if ty == "BY" and f.attr == "split" and len(e.args) == 1:
                a = e.args[0]
                if not (isinstance(a, ast.Constant) and type(a.value) is bytes and len(a.value) == 1):
                    fail(e, "split on something else than a one-byte literal")
                return "(split_on %d %s)" % (a.value[0], r), "LBY"
            if ty == "BY" and f.attr in ("endswith", "startswith") and len(e.args) == 1:
                a = e.args[0]
                if not (isinstance(a, ast.Constant) and type(a.value) is bytes and len(a.value) >= 1):
                    fail(e, f.attr + " of something else than a non-empty literal")
                return "(%s %s %s)" % ("ends_with" if f.attr == "endswith" else "starts_with", bylit(a.value), r), "B"
            fail(e, "method call")
        fail(e, "call")

    def pure(self, e, env, want=None):
        pend = []
        r, ty = self.ex(e, env, pend)
        if pend:
            fail(e, "an index expression (IndexError) in this position")
        if want is not None and ty != want:
            fail(e, "expected %s, got %s" % (want, ty))
        return r, ty

    @staticmethod
    def bind_pending(pend, body):
        for var, opt in reversed(pend):
            body = "(match %s with None => IndexFailed | Some %s => %s end)" % (opt, var, body)
        return body

    # ------------------------------------------------------------------ method calls (statements)
    def method_call(self, e, env):
        """self.m(args) -> (coq of the call, signature)"""
        if not (isinstance(e, ast.Call) and is_self_attr(e.func) and not e.keywords):
            return None
        m = e.func.attr
        if m not in self.sigs or m == "__init__" or env.st is None:
            fail(e, "method call")
        sig = self.sigs[m]
        if sig["raises"]:
            fail(e, "call of a raising method")
        if len(e.args) != len(sig["args"]):
            fail(e, "argument count")
        args = []
        for a, (_, ty) in zip(e.args, sig["args"]):
            args.append(self.pure(a, env, ty)[0])
        return "(%s)" % " ".join([COQ_NAME[m], env.st] + args), sig

    # ------------------------------------------------------------------ statements
    def ret(self, value_coq, env):
        sig = self.sigs[self.cur]
        kind = sig["ret"]
        if kind == "SELF" or kind == "NONE":
            r = env.st
        elif kind == "RB":
            r = value_coq
        else:
            r = "(%s, %s)" % (env.st, value_coq)
        return "(H11Return %s)" % r if sig["raises"] else r

    def terminates(self, stmts):
        if not stmts:
            return False
        s = stmts[-1]
        if isinstance(s, ast.Return):
            return True
        if isinstance(s, ast.If):
            return self.terminates(s.body) and self.terminates(s.orelse)
        return False

    def block(self, stmts, env):
        sig = self.sigs[self.cur]
        if not stmts:
            if sig["ret"] == "NONE":
                return self.ret(None, env)
            fail(self.cur_node, "control reaches the end of a function that returns a value")
        s, rest = stmts[0], stmts[1:]
        if isinstance(s, ast.Return):
            if rest:
                fail(rest[0], "statement after return")
            return self.stmt_return(s, env)
        if isinstance(s, ast.Assign):
            return self.stmt_assign(s, rest, env)
        if isinstance(s, ast.AugAssign):
            return self.stmt_augassign(s, rest, env)
        if isinstance(s, ast.Delete):
            return self.stmt_delete(s, rest, env)
        if isinstance(s, ast.Expr):
            mc = self.method_call(s.value, env)
            if mc is None:
                fail(s, "expression statement")
            call, csig = mc
            st2 = self.fresh("st")
            pat = st2 if csig["ret"] in ("SELF", "NONE") else "'(%s, _)" % st2
            return "(let %s := %s in %s)" % (pat, call, self.block(rest, env.with_st(st2)))
        if isinstance(s, ast.If):
            return self.stmt_if(s, rest, env)
        if isinstance(s, ast.For):
            return self.stmt_for(s, rest, env)
        if isinstance(s, ast.Assert):
            if s.msg is not None or not sig["raises"]:
                fail(s, "assert shape")
            pend = []
            c, ty = self.ex(s.test, env, pend)
            if ty != "B":
                fail(s, "assert of " + ty)
            return self.bind_pending(pend, "(if %s then %s else AssertionFailed)" % (c, self.block(rest, env)))
        fail(s, "statement")

    def stmt_return(self, s, env):
        kind = self.sigs[self.cur]["ret"]
        v = s.value
        if kind == "SELF":
            if not (isinstance(v, ast.Name) and v.id == "self"):
                fail(s, "return of something else than self")
            return self.ret(None, env)
        if kind == "NONE":
            fail(s, "return in __init__")
        if kind == "OPT LBY":
            if isinstance(v, ast.Constant) and v.value is None:
                return self.ret("None", env)
            r, ty = self.pure(v, env, "LBY")
            return self.ret("(Some %s)" % r, env)
        r, ty = self.pure(v, env, kind)
        return self.ret(r, env)

    def stmt_assign(self, s, rest, env):
        if len(s.targets) != 1:
            fail(s, "assignment shape")
        t = s.targets[0]
        if is_self_attr(t):
            if t.attr not in FIELDS or env.st is None:
                fail(s, "attribute assignment")
            f, fty = FIELDS[t.attr]
            r, _ = self.pure(s.value, env, fty)
            st2 = self.fresh("st")
            return "(let %s := set_%s %s %s in %s)" % (st2, f, env.st, r, self.block(rest, env.with_st(st2)))
        if not isinstance(t, ast.Name) or t.id == "self":
            fail(s, "assignment target")
        mc = self.method_call(s.value, env)
        if mc is not None:
            call, csig = mc
            if csig["ret"] not in ("BY",):
                fail(s, "result of the method")
            st2, v = self.fresh("st"), self.fresh(t.id)
            return "(let '(%s, %s) := %s in %s)" % (st2, v, call, self.block(rest, env.with_st(st2).bind(t.id, v, csig["ret"])))
        r, ty = self.pure_or_match(s.value, env)
        v = self.fresh(t.id)
        if ty == "MATCH":
            return "(let %s := %s in %s)" % (v, r, self.block(rest, env.bind(t.id, v, "MATCH")))
        if ty not in COQ_TY:
            fail(s, "assignment of " + ty)
        return "(let %s : %s := %s in %s)" % (v, COQ_TY[ty], r, self.block(rest, env.bind(t.id, v, ty)))

    def pure_or_match(self, e, env):
        pend = []
        r, ty = self.ex(e, env, pend)
        if pend:
            fail(e, "an index expression (IndexError) in this position")
        return r, ty

    def stmt_augassign(self, s, rest, env):
        if not isinstance(s.op, ast.Add):
            fail(s, "augmented assignment")
        t = s.target
        if is_self_attr(t, "_data") and env.st is not None:
            r, _ = self.pure(s.value, env, "BY")
            st2 = self.fresh("st")                                           # bytearray += bytes: extends in place
            return "(let %s := set_rb_data %s (rb_data %s ++ %s) in %s)" % (st2, env.st, env.st, r, self.block(rest, env.with_st(st2)))
        if isinstance(t, ast.Name) and t.id in env.vars and env.vars[t.id][1] == "RB":
            # x += b on a ReceiveBuffer: x = x.__iadd__(b); __iadd__ returns self
            sig = self.sigs.get("__iadd__")
            if not sig or sig["ret"] != "SELF" or sig["raises"] or [ty for _, ty in sig["args"]] != ["BY"]:
                fail(s, "__iadd__ is not available")
            r, _ = self.pure(s.value, env, "BY")
            v = self.fresh(t.id)
            return "(let %s := %s %s %s in %s)" % (v, COQ_NAME["__iadd__"], env.vars[t.id][0], r, self.block(rest, env.bind(t.id, v, "RB")))
        fail(s, "augmented assignment")

    def stmt_delete(self, s, rest, env):
        if len(s.targets) != 1 or not isinstance(s.targets[0], ast.Subscript) or not isinstance(s.targets[0].slice, ast.Slice):
            fail(s, "del shape")
        t = s.targets[0]
        sl = t.slice
        if sl.step is not None or (sl.lower is None) == (sl.upper is None):
            fail(s, "del slice shape")
        b, _ = self.pure(sl.upper if sl.lower is None else sl.lower, env, "Z")
        keep = "py_drop" if sl.lower is None else "py_take"                  # del l[:n] leaves l[n:]; del l[n:] leaves l[:n]
        if is_self_attr(t.value, "_data") and env.st is not None:
            st2 = self.fresh("st")
            return "(let %s := set_rb_data %s (%s (rb_data %s) %s) in %s)" % (st2, env.st, keep, env.st, b, self.block(rest, env.with_st(st2)))
        if isinstance(t.value, ast.Name) and t.value.id in env.vars and env.vars[t.value.id][1] == "LBY":
            old = env.vars[t.value.id][0]
            v = self.fresh(t.value.id)
            return "(let %s : list text := %s %s %s in %s)" % (v, keep, old, b, self.block(rest, env.bind(t.value.id, v, "LBY")))
        fail(s, "del target")

    def stmt_if(self, s, rest, env):
        if not self.terminates(s.body):
            fail(s, "an if whose body does not return")
        if s.orelse:
            if not self.terminates(s.orelse) or rest:
                fail(s, "if / else shape")
            other = s.orelse
        else:
            other = rest
        t = s.test
        if (isinstance(t, ast.Compare) and len(t.ops) == 1 and isinstance(t.ops[0], ast.Is) and isinstance(t.left, ast.Name)
                and isinstance(t.comparators[0], ast.Constant) and t.comparators[0].value is None):
            if t.left.id not in env.vars or env.vars[t.left.id][1] != "MATCH":
                fail(s, "`is None` on something else than a search result")
            m = env.vars[t.left.id][0]
            end = self.fresh("match_end")
            return "(match %s with None => %s | Some %s => %s end)" % (m, self.block(s.body, env), end,
                                                                       self.block(other, env.bind(t.left.id, end, "MEND")))
        c, _ = self.pure(t, env, "B")
        return "(if %s then %s else %s)" % (c, self.block(s.body, env), self.block(other, env))

    # for line in lines: <in-place edits of line>   ==>   lines := map (fun line => edited line) lines
    def stmt_for(self, s, rest, env):
        if s.orelse or not isinstance(s.target, ast.Name) or not isinstance(s.iter, ast.Name):
            fail(s, "for shape")
        if s.iter.id not in env.vars or env.vars[s.iter.id][1] != "LBY":
            fail(s, "for over something else than a list of bytearrays")
        x = self.fresh(s.target.id)
        # inside the function the state of self and the other locals are visible but must not change
        body_env = Env(env.vars, env.st, env.nonempty).bind(s.target.id, x, "BY")
        edited = self.edit(s.body, body_env, s.target.id)
        v = self.fresh(s.iter.id)
        old = env.vars[s.iter.id][0]
        after = env.bind(s.iter.id, v, "LBY")
        after.vars.pop(s.target.id, None)                                    # the loop variable is not used afterwards (refused if it is)
        return "(let %s : list text := map (fun %s => %s) %s in %s)" % (v, x, edited, old, self.block(rest, after))

    def edit(self, stmts, env, var):
        """the value of the bytearray `var` after the statements (which may only edit it in place)"""
        cur = env.vars[var][0]
        if not stmts:
            return cur
        s, rest = stmts[0], stmts[1:]
        if isinstance(s, ast.If):
            if s.orelse:
                fail(s, "else in the loop body")
            c, _ = self.pure(s.test, env, "B")
            inner = env
            t = s.test
            if (isinstance(t, ast.Call) and isinstance(t.func, ast.Attribute) and t.func.attr in ("endswith", "startswith")
                    and isinstance(t.func.value, ast.Name) and t.func.value.id == var):
                inner = env.with_nonempty(cur)                               # the literal is non-empty (checked in call())
            v = self.fresh(var)
            body = self.edit(s.body, inner, var)
            return "(let %s := (if %s then %s else %s) in %s)" % (v, c, body, cur, self.edit(rest, Env(env.vars, env.st, ()).bind(var, v, "BY"), var))
        if isinstance(s, ast.Delete):
            if len(s.targets) != 1:
                fail(s, "del shape")
            t = s.targets[0]
            if not (isinstance(t, ast.Subscript) and isinstance(t.value, ast.Name) and t.value.id == var and int_const(t.slice) == -1):
                fail(s, "in-place edit")
            if cur not in env.nonempty:
                fail(s, "del x[-1] of a bytearray not known to be non-empty (IndexError)")
            v = self.fresh(var)
            return "(let %s := removelast %s in %s)" % (v, cur, self.edit(rest, Env(env.vars, env.st, ()).bind(var, v, "BY"), var))
        fail(s, "statement in the loop body")

    # ------------------------------------------------------------------ functions
    def function(self, fn, is_method, coq_name, comment):
        if fn.decorator_list or fn.args.vararg or fn.args.kwarg or fn.args.kwonlyargs or fn.args.defaults or fn.args.posonlyargs:
            fail(fn, "function shape")
        args = list(fn.args.args)
        if is_method:
            if not args or args[0].arg != "self":
                fail(fn, "method without self")
            args = args[1:]
        typed = []
        for a in args:
            ann = ast.unparse(a.annotation) if a.annotation is not None else None
            if ann not in ARG_ANN:
                fail(fn, "argument annotation %r" % ann)
            typed.append((a.arg, ARG_ANN[ann]))
        rann = ast.unparse(fn.returns) if fn.returns is not None else None
        if rann not in RET_ANN:
            fail(fn, "return annotation %r" % rann)
        kind = RET_ANN[rann]
        for n in ast.walk(fn):
            if isinstance(n, (ast.Global, ast.Nonlocal, ast.Lambda, ast.FunctionDef, ast.AsyncFunctionDef, ast.ClassDef, ast.Try, ast.While, ast.With,
                              ast.Yield, ast.YieldFrom, ast.Await, ast.Raise, ast.Break, ast.Continue, ast.NamedExpr, ast.Starred)) and n is not fn:
                fail(n, "construct")
        raises = any(isinstance(n, ast.Assert) or (isinstance(n, ast.Subscript) and not isinstance(n.slice, ast.Slice) and isinstance(n.ctx, ast.Load)
                                                   and not (isinstance(n.value, ast.Call) and isinstance(n.value.func, ast.Attribute)
                                                            and n.value.func.attr == "span"))
                     for st_ in fn.body for n in ast.walk(st_))
        name = fn.name
        self.sigs[name] = {"args": typed, "ret": kind, "raises": raises}
        self.cur, self.cur_node = name, fn
        body = strip_doc(fn.body)
        coq_ret = {"SELF": "rbuf", "NONE": "rbuf", "RB": "rbuf", "BY": "(rbuf * text)", "OPT LBY": "(rbuf * option (list text))"}[kind]
        if raises:
            coq_ret = "h11_outcome %s" % coq_ret
        if name == "__init__":
            # the constructor: every attribute is assigned exactly once, from a constant
            if typed or kind != "NONE" or raises:
                fail(fn, "__init__ shape")
            vals = {}
            for s in body:
                if not (isinstance(s, ast.Assign) and len(s.targets) == 1 and is_self_attr(s.targets[0]) and s.targets[0].attr in FIELDS
                        and s.targets[0].attr not in vals):
                    fail(s, "__init__ statement")
                f, fty = FIELDS[s.targets[0].attr]
                vals[s.targets[0].attr] = self.pure(s.value, Env({}, None), fty)[0]
            if set(vals) != set(FIELDS):
                fail(fn, "__init__ does not set exactly the three attributes")
            rec = "; ".join("%s := %s" % (FIELDS[k][0], vals[k]) for k in FIELDS)
            self.cur = None
            return "(* %s *)\nDefinition %s : rbuf := {| %s |}.\n" % (comment, coq_name, rec)
        vars_ = {}
        params = []
        if is_method:
            st = self.fresh("st")
            params.append("(%s : rbuf)" % st)
        else:
            st = None
        for a, ty in typed:
            v = self.fresh(a)
            vars_[a] = (v, ty)
            params.append("(%s : %s)" % (v, COQ_TY[ty]))
        text = self.block(body, Env(vars_, st))
        self.cur = None
        return "(* %s *)\nDefinition %s %s : %s :=\n  %s.\n" % (comment, coq_name, " ".join(params), coq_ret, text)


def find_h11_source(argv):
    if len(argv) > 3:
        return argv[3]
    if os.environ.get("H11_SOURCE"):
        return os.environ["H11_SOURCE"]
    spec = importlib.util.find_spec("h11")                                   # locates the package; its modules are not executed by us
    if spec is None or not spec.submodule_search_locations:
        raise Unsupported("h11 is not installed")
    return os.path.join(list(spec.submodule_search_locations)[0], "_receivebuffer.py")


def check_module(tree):
    """module-level facts: `import re`, nothing shadows the builtins used, blank_line_regex is bound once, to exactly the expected call"""
    bound = {}
    for s in tree.body:
        names = []
        if isinstance(s, ast.Import):
            names = [(a.asname or a.name.split(".")[0], ("import", a.name, a.asname)) for a in s.names]
        elif isinstance(s, ast.ImportFrom):
            names = [(a.asname or a.name, ("from", s.module, a.name)) for a in s.names]
            if any(a.name == "*" for a in s.names):
                fail(s, "star import")
        elif isinstance(s, (ast.FunctionDef, ast.ClassDef, ast.AsyncFunctionDef)):
            names = [(s.name, ("def",))]
        elif isinstance(s, ast.Assign):
            for t in s.targets:
                if not isinstance(t, ast.Name):
                    fail(s, "module-level assignment target")
                names.append((t.id, ("assign", s)))
        elif isinstance(s, ast.Expr) and isinstance(s.value, ast.Constant):
            continue
        else:
            fail(s, "module-level statement")
        for n, what in names:
            bound.setdefault(n, []).append(what)
    for n in ast.walk(tree):
        if isinstance(n, (ast.Global, ast.Nonlocal)):
            fail(n, "global / nonlocal")
        if isinstance(n, ast.Name) and isinstance(n.ctx, (ast.Store, ast.Del)) and n.id in (REGEX_NAME,) + BUILTINS_USED + (CLASS,):
            if not (n.id == REGEX_NAME and len(bound.get(REGEX_NAME, [])) == 1):
                fail(n, "rebinding of a name the translation relies on")
    for b in BUILTINS_USED:
        if b in bound and not (b == "re" and bound[b] == [("import", "re", None)]):
            fail(tree.body[0], "module-level binding of %r" % b)
    if bound.get("re") != [("import", "re", None)]:
        raise Unsupported("`import re` not found (or re bound more than once)")
    return bound


def check_regex(bound):
    b = bound.get(REGEX_NAME)
    if not b or len(b) != 1 or b[0][0] != "assign":
        raise Unsupported("%s is not bound exactly once at module level" % REGEX_NAME)
    s = b[0][1]
    v = s.value
    if len(s.targets) != 1:
        fail(s, "regex assignment shape")
    ok = (isinstance(v, ast.Call) and isinstance(v.func, ast.Attribute) and v.func.attr == "compile" and isinstance(v.func.value, ast.Name)
          and v.func.value.id == "re" and not v.keywords and len(v.args) == 2)
    if not ok:
        fail(s, "the regular expression is not re.compile(<bytes>, re.MULTILINE)")
    pat, flag = v.args
    if not (isinstance(pat, ast.Constant) and type(pat.value) is bytes and pat.value == PATTERN):
        fail(s, "the pattern is not exactly %r" % PATTERN)
    if not (isinstance(flag, ast.Attribute) and isinstance(flag.value, ast.Name) and flag.value.id == "re" and flag.attr == "MULTILINE"):
        fail(s, "the flag is not exactly re.MULTILINE")


def translate(h11_path, repo):
    with open(h11_path, "rb") as fh:
        src = fh.read()
    tree = ast.parse(src, h11_path)
    bound = check_module(tree)
    check_regex(bound)
    classes = [s for s in tree.body if isinstance(s, ast.ClassDef) and s.name == CLASS]
    if len(classes) != 1:
        raise Unsupported("class %s not found exactly once" % CLASS)
    cls = classes[0]
    if cls.bases or cls.keywords or cls.decorator_list:
        fail(cls, "class shape")
    methods = {}
    for s in cls.body:
        if isinstance(s, ast.FunctionDef):
            if s.name in methods or s.name in FORBIDDEN_METHODS:
                fail(s, "method defined twice / attribute hook")
            methods[s.name] = s
        elif isinstance(s, ast.Expr) and isinstance(s.value, ast.Constant):
            continue
        else:
            fail(s, "class-level statement")
    tr = H11Tr()
    tr.regex_ok = True
    out = []
    for m in METHODS:
        if m not in methods:
            raise Unsupported("method %s.%s not found" % (CLASS, m))
        out.append(tr.function(methods[m], True, COQ_NAME[m], "%s.%s (h11/_receivebuffer.py line %d)" % (CLASS, m, methods[m].lineno)))

    # pyp0f: copy_buffer and its use in read_payload
    read_py = os.path.join(repo, "pyp0f", "net", "layers", "http", "read.py")
    with open(read_py, "rb") as fh:
        rtree = ast.parse(fh.read(), read_py)
    rfns = {}
    imported_ok = False
    for s in rtree.body:
        if isinstance(s, ast.FunctionDef):
            if s.name in rfns:
                fail(s, "function defined twice")
            rfns[s.name] = s
        if isinstance(s, ast.ImportFrom) and s.module == "h11._receivebuffer" and s.level == 0:
            if [(a.name, a.asname) for a in s.names] != [(CLASS, None)]:
                fail(s, "import of the receive buffer")
            imported_ok = True
    if not imported_ok:
        raise Unsupported("read.py does not import ReceiveBuffer from h11._receivebuffer")
    for n in ast.walk(rtree):
        if isinstance(n, ast.Name) and isinstance(n.ctx, (ast.Store, ast.Del)) and n.id in (CLASS, "copy_buffer", "bytes"):
            fail(n, "rebinding in read.py")
    if "copy_buffer" not in rfns or "read_payload" not in rfns:
        raise Unsupported("copy_buffer / read_payload not found in read.py")
    out.append(tr.function(rfns["copy_buffer"], False, "gen_copy_buffer", "copy_buffer (pyp0f/net/layers/http/read.py line %d)" % rfns["copy_buffer"].lineno))
    # read_payload: lines = copy_buffer(buffer).maybe_extract_lines()
    uses = [n for n in ast.walk(rfns["read_payload"]) if isinstance(n, ast.Call) and isinstance(n.func, ast.Attribute) and n.func.attr == "maybe_extract_lines"]
    if len(uses) != 1:
        raise Unsupported("read_payload does not call maybe_extract_lines exactly once")
    u = uses[0]
    inner = u.func.value
    if u.args or u.keywords or not (isinstance(inner, ast.Call) and isinstance(inner.func, ast.Name) and inner.func.id == "copy_buffer"
                                    and len(inner.args) == 1 and not inner.keywords):
        fail(u, "maybe_extract_lines() of something else than copy_buffer(<one argument>)")
    if tr.sigs["maybe_extract_lines"]["args"] or tr.sigs["maybe_extract_lines"]["ret"] != "OPT LBY":
        raise Unsupported("maybe_extract_lines signature")
    res_ty = "h11_outcome (rbuf * option (list text))" if tr.sigs["maybe_extract_lines"]["raises"] else "(rbuf * option (list text))"
    out.append("(* `%s` (read_payload, read.py line %d): the method applied to the fresh copy *)\n"
               "Definition gen_copy_buffer_maybe_extract_lines (buffer : text) : %s :=\n  %s (gen_copy_buffer buffer).\n"
               % (ast.unparse(u), u.lineno, res_ty, COQ_NAME["maybe_extract_lines"]))
    return out


HEADER = """(* GENERATED by translate/h112coq.py from h11/_receivebuffer.py (as installed) and pyp0f/net/layers/http/read.py -- do not edit *)
From Coq Require Import ZArith List Bool.
From PV Require Import Model.Prelude Model.Text Gen.GenH11Lib.
Import ListNotations.
Local Open Scope Z_scope.
Local Open Scope list_scope.

(* blank_line_regex = re.compile(b"\\n\\r?\\n", re.MULTILINE): pattern and flag checked literally; .search(data, start) / .span(0)[-1] is
   Gen.GenH11Lib.find_blank_end (ASSUMED) *)

"""


def main(argv):
    if len(argv) < 3:
        sys.stderr.write("usage: h112coq.py <repo> <out.v> [<_receivebuffer.py>]\n")
        return 2
    try:
        path = find_h11_source(argv)
        defs = translate(path, argv[1] if os.path.isdir(os.path.join(argv[1], "pyp0f")) else "/repo")
    except Unsupported as e:
        sys.stderr.write("UNSUPPORTED: %s\n" % e)
        return 2
    except (OSError, SyntaxError) as e:
        sys.stderr.write("UNSUPPORTED: cannot read the source: %s\n" % e)
        return 2
    with open(argv[2], "w") as fh:
        fh.write(HEADER + "\n".join(defs))
    sys.stderr.write("h112coq: translated %s\n" % path)
    return 0


if __name__ == "__main__":
    sys.exit(main(sys.argv))
