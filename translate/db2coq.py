"""Symbolic translation of RecordsDatabase.create / _get / add (records_database.py) into Gallina over a dictionary model
(used by file2coq.py; fail closed).  `self._map` is an association list kind -> gval, a gval is a list of records or an
association list dir -> list of records.  Python's reference semantics is rendered by tracking, for every value read out of the
map, the path it was read from: `.append` / `.setdefault` on such a value writes the new value back along that path.
dict primitives: gen_afind (lookup), gen_astore (d[k] = v: replace, or append a new key), gen_setdefault.

READ side (second half of this file): `_get` once more as the VALUE it returns (gen_db_get), iter_values (try/except: the handler's class
and its subclasses, from exceptions.py, are the caught errors), get_random (list comprehension over self.iter_values(..) = filter;
`if not records: raise`; random.choice(l) = gen_random_choice l pick -- ASSUMED: an element of l at some index < len(l), IndexError on
an empty list; the index is an extra argument), __len__ (sum / generator expressions over .values(), isinstance narrowing), _replace
(`self._map = other._map`), Database.load (a statement list over the state `self._map`: arguments are evaluated before the call, so
an exception in parse_file leaves the map as it is at that point)."""
import ast
from sig2coq import Unsupported, fail


def is_name(e, name=None):
    return isinstance(e, ast.Name) and (name is None or e.id == name)


def is_selfmap(e):
    return isinstance(e, ast.Attribute) and e.attr == "_map" and is_name(e.value, "self")


class DbTr:
    def __init__(self, methods):
        self.methods = methods
        self.n = 0

    def fresh(self, b):
        self.n += 1
        return "%s_%d" % (b, self.n)

    # values: ("KIND", t) ("ODIR", t) ("DIR", t) ("REC", t) ("NONE",)
    #         ("MAPVAL", t, key)            a gval that IS map[key]
    #         ("INNER", t, key, "GList"|"GDict")   the payload of map[key]
    #         ("LEAF", t, key, dterm, dkey) a record list that IS map[key][dkey]; dterm is the payload of map[key]
    def value(self, e, env):
        if is_name(e) and e.id in env:
            return env[e.id]
        if isinstance(e, ast.Constant) and e.value is None:
            return ("NONE",)
        if isinstance(e, ast.Call) and is_name(e.func, "type") and "type" not in env and len(e.args) == 1 and not e.keywords:
            v = self.value(e.args[0], env)
            if v[0] != "REC":
                fail(e, "type() of a non-record")
            return ("KIND", "(fst %s)" % v[1])
        fail(e, "database expression")

    def store(self, m, v, new):
        """map term after the object v (an alias into the map) has been replaced by `new`"""
        if v[0] == "INNER":
            return "(gen_astore gen_kind_eqb %s %s (%s %s))" % (m, v[2], v[3], new)
        if v[0] == "LEAF":
            return "(gen_astore gen_kind_eqb %s %s (GDict (gen_astore gen_dir_eqb %s %s %s)))" % (m, v[2], v[3], v[4], new)
        fail(None, "write through a value of kind " + v[0])

    def cond(self, test, env, m, then_k, else_k):
        if isinstance(test, ast.UnaryOp) and isinstance(test.op, ast.Not):
            return self.cond(test.operand, env, m, else_k, then_k)
        if isinstance(test, ast.Compare) and len(test.ops) == 1:
            op, l, r = test.ops[0], test.left, test.comparators[0]
            if isinstance(op, (ast.Is, ast.IsNot)) and is_name(l) and l.id in env and isinstance(r, ast.Constant) and r.value is None:
                v = env[l.id]
                a_none, a_some = (then_k, else_k) if isinstance(op, ast.Is) else (else_k, then_k)
                if v[0] == "ODIR":
                    inner = self.fresh(l.id)
                    env2 = dict(env)
                    env2[l.id] = ("DIR", inner)
                    return "(match %s with None => %s | Some %s => %s end)" % (v[1], a_none(env), inner, a_some(env2))
                if v[0] in ("DIR", "KIND", "REC"):
                    return a_some(env)
                fail(test, "`is None` on " + v[0])
            if isinstance(op, (ast.In, ast.NotIn)):
                k = self.value(l, env)
                a_in, a_out = (then_k, else_k) if isinstance(op, ast.In) else (else_k, then_k)
                if is_selfmap(r) and k[0] == "KIND":
                    return "(match gen_afind gen_kind_eqb %s %s with Some _ => %s | None => %s end)" % (m, k[1], a_in(env), a_out(env))
                if is_name(r) and r.id in env and env[r.id][0] == "INNER" and env[r.id][3] == "GDict" and k[0] == "DIR":
                    return "(match gen_afind gen_dir_eqb %s %s with Some _ => %s | None => %s end)" % (env[r.id][1], k[1], a_in(env), a_out(env))
                fail(test, "membership test")
        if isinstance(test, ast.Call) and is_name(test.func, "isinstance") and "isinstance" not in env and len(test.args) == 2 and not test.keywords \
                and is_name(test.args[0]) and test.args[0].id in env and is_name(test.args[1]) and test.args[1].id in ("list", "dict") and test.args[1].id not in env:
            x = test.args[0].id
            v = env[x]
            if v[0] != "MAPVAL":
                fail(test, "isinstance on " + v[0])
            l, d = self.fresh(x + "_list"), self.fresh(x + "_dict")
            e_l, e_d = dict(env), dict(env)
            e_l[x] = ("INNER", l, v[2], "GList")
            e_d[x] = ("INNER", d, v[2], "GDict")
            k_l, k_d = (then_k, else_k) if test.args[1].id == "list" else (else_k, then_k)
            return "(match %s with GList %s => %s | GDict %s => %s end)" % (v[1], l, k_l(e_l), d, k_d(e_d))
        fail(test, "database test")

    def setdefault_chain(self, e, env, m, k):
        """e = <obj>.setdefault(key, default); k(value, m') continues with the returned object"""
        if not (isinstance(e, ast.Call) and isinstance(e.func, ast.Attribute) and e.func.attr == "setdefault" and len(e.args) == 2 and not e.keywords):
            fail(e, "setdefault call")
        key = self.value(e.args[0], env)
        dflt = e.args[1]
        empty_dict = isinstance(dflt, ast.Dict) and not dflt.keys
        empty_list = isinstance(dflt, ast.List) and not dflt.elts
        if not (empty_dict or empty_list):
            fail(e, "setdefault default")
        obj = e.func.value
        if is_selfmap(obj):
            if key[0] != "KIND":
                fail(e, "map key")
            m2, r = self.fresh("map"), self.fresh("got")
            return "(let '(%s, %s) := gen_setdefault gen_kind_eqb %s %s %s in %s)" % (
                m2, r, m, key[1], "(GDict [])" if empty_dict else "(GList [])", k(("MAPVAL", r, key[1]), m2))

        def on_obj(v, m1):
            # the object must be a dict: a list has no setdefault (AttributeError)
            if v[0] != "MAPVAL" or key[0] != "DIR" or not empty_list:
                fail(e, "setdefault on " + v[0])
            d, d2, r = self.fresh("dict"), self.fresh("dict"), self.fresh("got")
            inner = ("INNER", d, v[2], "GDict")
            return "(match %s with GDict %s => (let '(%s, %s) := gen_setdefault gen_dir_eqb %s %s [] in %s) | GList _ => Err (Crash COther) end)" % (
                v[1], d, d2, r, d, key[1], k(("LEAF", r, v[2], d2, key[1]), self.store(m1, inner, d2)))
        return self.setdefault_chain(obj, env, m, on_obj)

    def block(self, stmts, env, m, k_ret, k_end):
        if not stmts:
            return k_end(env, m)
        s, rest = stmts[0], stmts[1:]
        cont = lambda env2, m2: self.block(rest, env2, m2, k_ret, k_end)
        if isinstance(s, ast.Expr) and isinstance(s.value, ast.Constant) and isinstance(s.value.value, str):
            return cont(env, m)
        if isinstance(s, ast.If):
            return self.cond(s.test, env, m, lambda e2: self.block(list(s.body) + rest, e2, m, k_ret, k_end),
                             lambda e2: self.block(list(s.orelse) + rest, e2, m, k_ret, k_end))
        if isinstance(s, ast.Raise):
            if isinstance(s.exc, ast.Call) and is_name(s.exc.func, "DatabaseError") and s.cause is None:
                return "(Err DatabaseError)"
            fail(s, "raise")
        if isinstance(s, ast.Return):
            if k_ret is None or s.value is None:
                fail(s, "return")
            e = s.value
            if is_name(e) and e.id in env:
                return k_ret(env[e.id], m)
            if isinstance(e, ast.Subscript) and is_name(e.value) and e.value.id in env:
                c, key = env[e.value.id], self.value(e.slice, env)
                if c[0] == "INNER" and c[3] == "GDict" and key[0] == "DIR":
                    l = self.fresh("got")
                    return "(match gen_afind gen_dir_eqb %s %s with Some %s => %s | None => Err (Crash CKey) end)" % (
                        c[1], key[1], l, k_ret(("LEAF", l, c[2], c[1], key[1]), m))
            fail(s, "return value")
        if isinstance(s, ast.Assign) and len(s.targets) == 1 and is_name(s.targets[0]):
            t, e = s.targets[0].id, s.value
            if t in env and env[t][0] in ("KIND", "ODIR", "DIR", "REC"):
                fail(s, "parameter reassigned")
            if isinstance(e, ast.Subscript) and is_selfmap(e.value):
                key = self.value(e.slice, env)
                if key[0] != "KIND":
                    fail(s, "map key")
                v = self.fresh(t)
                env2 = dict(env)
                env2[t] = ("MAPVAL", v, key[1])
                return "(match gen_afind gen_kind_eqb %s %s with Some %s => %s | None => Err (Crash CKey) end)" % (m, key[1], v, cont(env2, m))
            if isinstance(e, ast.Call) and isinstance(e.func, ast.Attribute) and is_name(e.func.value, "self") and e.func.attr in self.methods and e.func.attr != "add":
                def after(v, m2):
                    env2 = dict(env)
                    env2[t] = v
                    return cont(env2, m2)
                return self.call(e.func.attr, e, env, m, after)
            fail(s, "assignment")
        if isinstance(s, ast.Expr) and isinstance(s.value, ast.Call) and isinstance(s.value.func, ast.Attribute):
            c = s.value
            if c.func.attr == "setdefault":
                return self.setdefault_chain(c, env, m, lambda v, m2: cont(env, m2))
            if c.func.attr == "append" and is_name(c.func.value) and c.func.value.id in env and len(c.args) == 1 and not c.keywords:
                lst, x = env[c.func.value.id], self.value(c.args[0], env)
                if x[0] != "REC" or not (lst[0] == "LEAF" or (lst[0] == "INNER" and lst[3] == "GList")):
                    fail(s, "append")
                new = "(%s ++ [snd %s])" % (lst[1], x[1])
                env2 = dict(env)
                env2[c.func.value.id] = lst[:1] + (new,) + lst[2:]
                return cont(env2, self.store(m, lst, new))
        fail(s, "database statement")

    def call(self, name, e, env, m, k_ret):
        fn = self.methods[name]
        ps = self.params(fn)
        if e.keywords or len(e.args) > len(ps):
            fail(e, "method call arguments")
        env2 = {}
        for (p, kind, has_default), a in zip(ps, list(e.args) + [None] * (len(ps) - len(e.args))):
            if a is None:
                if not has_default:
                    fail(e, "missing argument")
                v = ("ODIR", "None")
            else:
                v = self.value(a, env)
                if v[0] == "NONE" and kind == "ODIR":
                    v = ("ODIR", "None")
                if v[0] == "DIR" and kind == "ODIR":
                    v = ("ODIR", "(Some %s)" % v[1])
            if v[0] != kind:
                fail(e, "argument %s: %s where %s is expected" % (p, v[0], kind))
            env2[p] = v
        return self.block(list(fn.body), env2, m, k_ret, lambda e3, m3: fail(fn, "method falls off its end"))

    def params(self, fn):
        a = fn.args
        if a.vararg or a.kwarg or a.kwonlyargs or a.posonlyargs or fn.decorator_list or not a.args or a.args[0].arg != "self":
            fail(fn, "method signature")
        out = []
        defaults = [None] * (len(a.args) - len(a.defaults)) + list(a.defaults)
        for x, d in list(zip(a.args, defaults))[1:]:
            ann = ast.unparse(x.annotation) if x.annotation is not None else "?"
            kind = {"Type[Record]": "KIND", "Type[T]": "KIND", "Optional[Direction]": "ODIR", "Record": "REC"}.get(ann)
            if kind is None or (d is not None and not (kind == "ODIR" and isinstance(d, ast.Constant) and d.value is None)):
                fail(fn, "parameter " + x.arg)
            out.append((x.arg, kind, d is not None))
        return out

    def method(self, name):
        fn = self.methods[name]
        ps = self.params(fn)
        ty = {"KIND": "kind", "ODIR": "option dir", "REC": "(kind * rec)"}
        env = {p: (kind, p + "_") for p, kind, _ in ps}
        body = self.block(list(fn.body), env, "m", None, lambda e, m: "(Ok %s)" % m)
        return "Definition gen_db_%s (m : gmap) %s : res gmap :=\n  %s." % (name, " ".join("(%s_ : %s)" % (p, ty[kind]) for p, kind, _ in ps), body)


PRELUDE_DB = r"""(* dictionaries as association lists in insertion order *)
Inductive gval := GList (l : list rec) | GDict (d : list (dir * list rec)).
Definition gmap := list (kind * gval).
Definition gen_dir_eqb (a b : dir) : bool := match a, b with Req, Req | Resp, Resp => true | _, _ => false end.
Fixpoint gen_afind {K V} (eqb : K -> K -> bool) (m : list (K * V)) (k : K) : option V :=
  match m with [] => None | (k', v) :: r => if eqb k k' then Some v else gen_afind eqb r k end.
Fixpoint gen_astore {K V} (eqb : K -> K -> bool) (m : list (K * V)) (k : K) (v : V) : list (K * V) :=
  match m with [] => [(k, v)] | (k', v') :: r => if eqb k k' then (k', v) :: r else (k', v') :: gen_astore eqb r k v end.
Definition gen_setdefault {K V} (eqb : K -> K -> bool) (m : list (K * V)) (k : K) (v0 : V) : list (K * V) * V :=
  match gen_afind eqb m k with Some v => (m, v) | None => (gen_astore eqb m k v0, v0) end."""


def translate_db(dcls_methods):
    for must in ("create", "_get", "add"):
        if must not in dcls_methods:
            raise Unsupported("RecordsDatabase.%s not found" % must)
    tr = DbTr(dcls_methods)
    return [PRELUDE_DB, tr.method("create"), tr.method("add")]


# ====================================================================================================================
# READ side: _get as a value, iter_values, get_random, __len__, _replace, Database.load
# ====================================================================================================================
PRELUDE_RD = r"""(* read side: fixed glue *)
Definition gen_sum (l : list Z) : Z := fold_left Z.add l 0.                    (* sum(iterable): left to right from 0 *)
(* ASSUMED: random.choice(seq) returns seq[i] for some index i < len(seq) (IndexError on an empty seq); the index is the extra argument *)
Definition gen_random_choice {A} (l : list A) (pick : nat) : res A :=
  match nth_error l pick with Some r => Ok r | None => Err (Crash CIndex) end."""


def strip_doc(body):
    return [s for s in body if not (isinstance(s, ast.Expr) and isinstance(s.value, ast.Constant) and isinstance(s.value.value, str))]


class RdTr:
    """Read-only methods of RecordsDatabase: values are (term, type) with types KIND ODIR T LISTREC REC GVAL GDICT Z B."""

    def __init__(self, methods, caught_by):
        self.methods = methods
        self.caught_by = caught_by           # exception class name -> list of Coq `err` patterns it catches (itself and subclasses)
        self.n = 0
        self.done = {}                       # translated methods: name -> (param kinds, result type)

    def fresh(self, b):
        self.n += 1
        return "%s_%d" % (b, self.n)

    def params(self, fn, allowed):
        a = fn.args
        if a.vararg or a.kwarg or a.kwonlyargs or a.posonlyargs or fn.decorator_list or not a.args or a.args[0].arg != "self":
            fail(fn, "method signature")
        out = []
        defaults = [None] * (len(a.args) - len(a.defaults)) + list(a.defaults)
        for x, d in list(zip(a.args, defaults))[1:]:
            ann = ast.unparse(x.annotation) if x.annotation is not None else "?"
            kind = allowed.get(ann)
            if kind is None or (d is not None and not (kind == "ODIR" and isinstance(d, ast.Constant) and d.value is None)):
                fail(fn, "parameter " + x.arg)
            out.append((x.arg, kind, d is not None))
        return out

    COQ = {"KIND": "kind", "ODIR": "option dir", "T": "text", "LISTREC": "list rec", "REC": "rec", "Z": "Z"}

    def self_call(self, e, env, name):
        """self.<name>(args): positional arguments only, passed to an already translated method"""
        if not (isinstance(e, ast.Call) and isinstance(e.func, ast.Attribute) and is_name(e.func.value, "self") and e.func.attr == name) or e.keywords:
            return None
        if name not in self.done:
            fail(e, "call of a method that is not translated yet")
        kinds, ret = self.done[name]
        if len(e.args) != len(kinds):
            fail(e, "argument count")               # defaults are not used by the callers we translate
        args = []
        for a, k in zip(e.args, kinds):
            if not is_name(a) or a.id not in env or env[a.id][1] != k:
                fail(e, "argument of self.%s" % name)
            args.append(env[a.id][0])
        return ("(gen_%s m %s)" % (name.strip("_") if name != "_get" else "db_get", " ".join(args)), ret)

    # ---------------------------------------------------------------- pure expressions
    def pure(self, e, env):
        if is_name(e) and e.id in env:
            return env[e.id]
        if isinstance(e, ast.Call) and is_name(e.func, "len") and "len" not in env and len(e.args) == 1 and not e.keywords:
            v = self.pure(e.args[0], env)
            if v[1] != "LISTREC":
                fail(e, "len of " + v[1])
            return ("(Z.of_nat (length %s))" % v[0], "Z")
        if isinstance(e, ast.Call) and is_name(e.func, "sum") and "sum" not in env and len(e.args) == 1 and not e.keywords \
                and isinstance(e.args[0], ast.GeneratorExp):
            g = e.args[0]
            if len(g.generators) != 1 or g.generators[0].ifs or g.generators[0].is_async or not is_name(g.generators[0].target):
                fail(e, "generator shape")
            x = g.generators[0].target.id
            it = g.generators[0].iter
            if not (isinstance(it, ast.Call) and isinstance(it.func, ast.Attribute) and it.func.attr == "values" and not it.args and not it.keywords):
                fail(e, "generator iterable: <dict>.values() expected")
            src = it.func.value
            if isinstance(src, ast.Attribute) and src.attr == "_map" and is_name(src.value, "self"):
                lst, ety = "(map snd m)", "GVAL"
            elif is_name(src) and src.id in env and env[src.id][1] == "GDICT":
                lst, ety = "(map snd %s)" % env[src.id][0], "LISTREC"
            else:
                fail(e, "values() of a non-dict")
            v = self.fresh(x)
            env2 = dict(env)
            env2[x] = (v, ety)
            elt = self.pure(g.elt, env2)
            if elt[1] != "Z":
                fail(e, "sum of non-numbers")
            return ("(gen_sum (map (fun %s => %s) %s))" % (v, elt[0], lst), "Z")
        if isinstance(e, ast.IfExp) and isinstance(e.test, ast.Call) and is_name(e.test.func, "isinstance") and "isinstance" not in env \
                and len(e.test.args) == 2 and not e.test.keywords and is_name(e.test.args[0]) and e.test.args[0].id in env \
                and is_name(e.test.args[1]) and e.test.args[1].id in ("list", "dict") and e.test.args[1].id not in env:
            x = e.test.args[0].id
            if env[x][1] != "GVAL":
                fail(e, "isinstance on " + env[x][1])
            l, d = self.fresh(x + "_list"), self.fresh(x + "_dict")
            e_l, e_d = dict(env), dict(env)
            e_l[x] = (l, "LISTREC")
            e_d[x] = (d, "GDICT")
            yes, no = (e_l, e_d) if e.test.args[1].id == "list" else (e_d, e_l)
            a, b = self.pure(e.body, yes), self.pure(e.orelse, no)
            if a[1] != b[1]:
                fail(e, "branches of different types")
            tl, td = (a, b) if e.test.args[1].id == "list" else (b, a)
            return ("(match %s with GList %s => %s | GDict %s => %s end)" % (env[x][0], l, tl[0], d, td[0]), a[1])
        if isinstance(e, ast.Call) and isinstance(e.func, ast.Attribute) and e.func.attr == "dump" and not e.args and not e.keywords \
                and isinstance(e.func.value, ast.Attribute) and e.func.value.attr == "label":
            r = self.pure(e.func.value.value, env)
            if r[1] != "REC":
                fail(e, ".label of " + r[1])
            return ("(gen_dump (rc_label %s))" % r[0], "T")             # virtual dispatch of label.dump(): gen_dump
        if isinstance(e, ast.Compare) and len(e.ops) == 1:
            l, r = self.pure(e.left, env), self.pure(e.comparators[0], env)
            if l[1] == "T" and r[1] == "T":
                t = {ast.Eq: "(text_eqb %s %s)", ast.NotEq: "(negb (text_eqb %s %s))", ast.In: "(infix %s %s)", ast.NotIn: "(negb (infix %s %s))"}.get(type(e.ops[0]))
                if t is not None:
                    return (t % (l[0], r[0]), "B")
            fail(e, "comparison")
        fail(e, "read-side expression")

    # ---------------------------------------------------------------- monadic blocks
    def block(self, stmts, env, ret):
        if not stmts:
            fail(None, "method falls off its end")
        s, rest = stmts[0], stmts[1:]
        if isinstance(s, ast.Try):
            if s.orelse or s.finalbody or len(s.handlers) != 1 or len(s.body) != 1:
                fail(s, "try shape")
            b, h = s.body[0], s.handlers[0]
            if not (isinstance(b, ast.Assign) and len(b.targets) == 1 and is_name(b.targets[0])):
                fail(s, "try body: a single assignment expected")
            c = self.self_call(b.value, env, "_get")
            if c is None:
                fail(s, "try body: self._get(..) expected")
            if not (is_name(h.type) and h.type.id in self.caught_by and len(h.body) == 1 and isinstance(h.body[0], ast.Raise)):
                fail(s, "handler shape")
            handler = self.raise_term(h.body[0], h.name)
            pats = " | ".join("Err (%s) => %s" % (p, handler) for p in self.caught_by[h.type.id])
            v = self.fresh(b.targets[0].id)
            env2 = dict(env)
            env2[b.targets[0].id] = (v, c[1])
            return "(do %s <- (match %s with %s | x_ => x_ end); %s)" % (v, c[0], pats, self.block(rest, env2, ret))
        if isinstance(s, ast.Return) and s.value is not None:
            e = s.value
            if isinstance(e, ast.Call) and is_name(e.func, "iter") and "iter" not in env and len(e.args) == 1 and not e.keywords:
                v = self.pure(e.args[0], env)               # iter(list): the caller consumes it as the list
                if v[1] != "LISTREC" or ret != "LISTREC":
                    fail(s, "iter of " + v[1])
                return "(Ok %s)" % v[0]
            if isinstance(e, ast.Call) and ast.unparse(e.func) == "random.choice" and "random" not in env and len(e.args) == 1 and not e.keywords:
                v = self.pure(e.args[0], env)
                if v[1] != "LISTREC" or ret != "REC" or "pick" in env:
                    fail(s, "random.choice of " + v[1])
                return "(gen_random_choice %s pick)" % v[0]
            v = self.pure(e, env)
            if v[1] != ret:
                fail(s, "return of %s where %s is expected" % (v[1], ret))
            return "(Ok %s)" % v[0]
        if isinstance(s, ast.Raise):
            return self.raise_term(s, None)
        if isinstance(s, (ast.Assign, ast.AnnAssign)) and isinstance(s.value, ast.ListComp):
            t = s.targets[0] if isinstance(s, ast.Assign) and len(s.targets) == 1 else getattr(s, "target", None)
            lc = s.value
            if not is_name(t) or len(lc.generators) != 1 or lc.generators[0].is_async or not is_name(lc.generators[0].target):
                fail(s, "list comprehension shape")
            g = lc.generators[0]
            x = g.target.id
            if not is_name(lc.elt, x):
                fail(s, "list comprehension element: the loop variable expected")
            c = self.self_call(g.iter, env, "iter_values")
            if c is None:
                fail(s, "list comprehension iterable: self.iter_values(..) expected")
            it, xv, out = self.fresh("it"), self.fresh(x), self.fresh(t.id)
            env_x = dict(env)
            env_x[x] = (xv, "REC")
            conds = []
            for i in g.ifs:
                cv = self.pure(i, env_x)
                if cv[1] != "B":
                    fail(i, "filter condition")
                conds.append(cv[0])
            body = " && ".join(conds) if conds else "true"
            env2 = dict(env)
            env2[t.id] = (out, "LISTREC")
            return "(do %s <- %s; (let %s := filter (fun %s => %s) %s in %s))" % (it, c[0], out, xv, body, it, self.block(rest, env2, ret))
        if isinstance(s, ast.If) and not s.orelse:
            neg = isinstance(s.test, ast.UnaryOp) and isinstance(s.test.op, ast.Not)
            x = s.test.operand if neg else s.test
            if is_name(x) and x.id in env and env[x.id][1] == "LISTREC":
                a, b = self.block(list(s.body) + rest, env, ret), self.block(rest, env, ret)
                empty, nonempty = (a, b) if neg else (b, a)
                return "(match %s with [] => %s | _ :: _ => %s end)" % (env[x.id][0], empty, nonempty)
            fail(s, "if test")
        fail(s, "read-side statement")

    def raise_term(self, s, cause):
        if not (isinstance(s.exc, ast.Call) and is_name(s.exc.func, "DatabaseError")):
            fail(s, "raise")
        if (s.cause is None) != (cause is None) or (cause is not None and not is_name(s.cause, cause)):
            fail(s, "raise ... from")
        return "(Err DatabaseError)"

    def method(self, name, allowed, ret, extra=""):
        fn = self.methods[name]
        ps = self.params(fn, allowed)
        env = {p: (p + "_", kind) for p, kind, _ in ps}
        body = self.block(strip_doc(fn.body), env, ret)
        self.done[name] = ([k for _, k, _ in ps], ret)
        return "Definition gen_%s (m : gmap) %s%s : res (%s) :=\n  %s." % (
            name.strip("_"), " ".join("(%s_ : %s)" % (p, self.COQ[k]) for p, k, _ in ps), extra, self.COQ[ret], body)


def translate_read(dmeth, caught_by):
    for must in ("_get", "iter_values", "get_random", "__len__", "_replace"):
        if must not in dmeth:
            raise Unsupported("RecordsDatabase.%s not found" % must)
    out = [PRELUDE_RD]
    # _get once more, as the VALUE it returns (same source, same symbolic execution; the path is dropped)
    w = DbTr(dmeth)
    fn = dmeth["_get"]
    ps = w.params(fn)
    if [k for _, k, _ in ps] != ["KIND", "ODIR"]:
        fail(fn, "_get parameters")
    env = {p: (kind, p + "_") for p, kind, _ in ps}

    def ret_list(v, m):
        if v[0] == "LEAF" or (v[0] == "INNER" and v[3] == "GList"):
            return "(Ok %s)" % v[1]
        fail(fn, "_get returns a value that is not a record list")
    body = w.block(list(fn.body), env, "m", ret_list, lambda e, m: fail(fn, "_get falls off its end"))
    out.append("Definition gen_db_get (m : gmap) %s : res (list rec) :=\n  %s." % (" ".join("(%s_ : %s)" % (p, {"KIND": "kind", "ODIR": "option dir"}[k]) for p, k, _ in ps), body))
    r = RdTr(dmeth, caught_by)
    r.done["_get"] = (["KIND", "ODIR"], "LISTREC")
    kd = {"Type[T]": "KIND", "Type[Record]": "KIND", "Optional[Direction]": "ODIR", "str": "T"}
    out.append(r.method("iter_values", kd, "LISTREC"))
    if r.done["iter_values"][0] != ["KIND", "ODIR"]:
        fail(dmeth["iter_values"], "iter_values parameters")
    out.append(r.method("get_random", kd, "REC", extra=" (pick : nat)"))
    if r.done["get_random"][0] != ["T", "KIND", "ODIR"]:
        fail(dmeth["get_random"], "get_random parameters")
    # __len__
    fn = dmeth["__len__"]
    if [a.arg for a in fn.args.args] != ["self"] or fn.decorator_list or fn.args.kwonlyargs or fn.args.vararg or fn.args.kwarg:
        fail(fn, "__len__ signature")
    body = strip_doc(fn.body)
    if len(body) != 1 or not isinstance(body[0], ast.Return) or body[0].value is None:
        fail(fn, "__len__ body: a single return expected")
    v = r.pure(body[0].value, {})
    if v[1] != "Z":
        fail(fn, "__len__ result")
    out.append("Definition gen_len (m : gmap) : Z :=\n  %s." % v[0])
    # _replace(self, other): self._map = other._map
    fn = dmeth["_replace"]
    body = strip_doc(fn.body)
    if [a.arg for a in fn.args.args] != ["self", "other"] or fn.decorator_list or fn.args.defaults or fn.args.kwonlyargs or fn.args.vararg or fn.args.kwarg \
            or len(body) != 1 or not isinstance(body[0], ast.Assign) or ast.unparse(body[0]) != "self._map = other._map":
        fail(fn, "_replace: `self._map = other._map` expected")
    out.append("(* _replace(self, other): the new value of self._map *)\nDefinition gen_db_replace (m other : gmap) : gmap := other.")
    return out


def translate_load(fn):
    """Database.load as a state transformer with exceptions: gmap -> gmap * res unit.  Arguments are evaluated before the call they
    are passed to, so a raising parse_file leaves self._map as it is at that point."""
    a = fn.args
    if [x.arg for x in a.args] != ["self", "filepath"] or a.kwonlyargs or a.vararg or a.kwarg or fn.decorator_list or len(a.defaults) > 1:
        fail(fn, "load signature")

    def block(stmts, m, n):
        if not stmts:
            return "(%s, Ok tt)" % m
        s, rest = stmts[0], stmts[1:]
        if isinstance(s, ast.Assign) and ast.unparse(s) == "self._map = {}":
            return block(rest, "[]", n)
        if isinstance(s, ast.Expr) and isinstance(s.value, ast.Call):
            c = s.value
            if ast.unparse(c.func) == "self._replace" and len(c.args) == 1 and not c.keywords:
                if ast.unparse(c.args[0]) != "parse_file(always_path(filepath))":
                    fail(s, "argument of _replace: parse_file(always_path(filepath)) expected")
                v, m2 = "other_%d" % n, "map_%d" % n
                return "(match gen_open_parse_file file with Err e_ => (%s, Err e_) | Ok %s => (let %s := gen_db_replace %s %s in %s) end)" % (
                    m, v, m2, m, v, block(rest, m2, n + 1))
        fail(s, "load statement")
    return "Definition gen_Database_load (m : gmap) (file : list text) : gmap * res unit :=\n  %s." % block(strip_doc(fn.body), "m", 1)
