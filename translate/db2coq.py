"""Symbolic translation of RecordsDatabase.create / _get / add (records_database.py) into Gallina over a dictionary model
(used by file2coq.py; fail closed).  `self._map` is an association list kind -> gval, a gval is a list of records or an
association list dir -> list of records.  Python's reference semantics is rendered by tracking, for every value read out of the
map, the path it was read from: `.append` / `.setdefault` on such a value writes the new value back along that path.
dict primitives: gen_afind (lookup), gen_astore (d[k] = v: replace, or append a new key), gen_setdefault."""
import ast
from sig2coq import Unsupported, fail


def is_name(e, name=None):
    return isinstance(e, ast.Name) and (name is None or e.id == name)


def is_selfmap(e):
    return isinstance(e, ast.Attribute) and e.attr == "_map" and is_name(e.value, "self")


class DbTr:
    def __init__(self, methods):
        self.methods = methods
        self.n = 0

    def fresh(self, b):
        self.n += 1
        return "%s_%d" % (b, self.n)

    # values: ("KIND", t) ("ODIR", t) ("DIR", t) ("REC", t) ("NONE",)
    #         ("MAPVAL", t, key)            a gval that IS map[key]
    #         ("INNER", t, key, "GList"|"GDict")   the payload of map[key]
    #         ("LEAF", t, key, dterm, dkey) a record list that IS map[key][dkey]; dterm is the payload of map[key]
    def value(self, e, env):
        if is_name(e) and e.id in env:
            return env[e.id]
        if isinstance(e, ast.Constant) and e.value is None:
            return ("NONE",)
        if isinstance(e, ast.Call) and is_name(e.func, "type") and "type" not in env and len(e.args) == 1 and not e.keywords:
            v = self.value(e.args[0], env)
            if v[0] != "REC":
                fail(e, "type() of a non-record")
            return ("KIND", "(fst %s)" % v[1])
        fail(e, "database expression")

    def store(self, m, v, new):
        """map term after the object v (an alias into the map) has been replaced by `new`"""
        if v[0] == "INNER":
            return "(gen_astore gen_kind_eqb %s %s (%s %s))" % (m, v[2], v[3], new)
        if v[0] == "LEAF":
            return "(gen_astore gen_kind_eqb %s %s (GDict (gen_astore gen_dir_eqb %s %s %s)))" % (m, v[2], v[3], v[4], new)
        fail(None, "write through a value of kind " + v[0])

    def cond(self, test, env, m, then_k, else_k):
        if isinstance(test, ast.UnaryOp) and isinstance(test.op, ast.Not):
            return self.cond(test.operand, env, m, else_k, then_k)
        if isinstance(test, ast.Compare) and len(test.ops) == 1:
            op, l, r = test.ops[0], test.left, test.comparators[0]
            if isinstance(op, (ast.Is, ast.IsNot)) and is_name(l) and l.id in env and isinstance(r, ast.Constant) and r.value is None:
                v = env[l.id]
                a_none, a_some = (then_k, else_k) if isinstance(op, ast.Is) else (else_k, then_k)
                if v[0] == "ODIR":
                    inner = self.fresh(l.id)
                    env2 = dict(env)
                    env2[l.id] = ("DIR", inner)
                    return "(match %s with None => %s | Some %s => %s end)" % (v[1], a_none(env), inner, a_some(env2))
                if v[0] in ("DIR", "KIND", "REC"):
                    return a_some(env)
                fail(test, "`is None` on " + v[0])
            if isinstance(op, (ast.In, ast.NotIn)):
                k = self.value(l, env)
                a_in, a_out = (then_k, else_k) if isinstance(op, ast.In) else (else_k, then_k)
                if is_selfmap(r) and k[0] == "KIND":
                    return "(match gen_afind gen_kind_eqb %s %s with Some _ => %s | None => %s end)" % (m, k[1], a_in(env), a_out(env))
                if is_name(r) and r.id in env and env[r.id][0] == "INNER" and env[r.id][3] == "GDict" and k[0] == "DIR":
                    return "(match gen_afind gen_dir_eqb %s %s with Some _ => %s | None => %s end)" % (env[r.id][1], k[1], a_in(env), a_out(env))
                fail(test, "membership test")
        if isinstance(test, ast.Call) and is_name(test.func, "isinstance") and "isinstance" not in env and len(test.args) == 2 and not test.keywords \
                and is_name(test.args[0]) and test.args[0].id in env and is_name(test.args[1]) and test.args[1].id in ("list", "dict") and test.args[1].id not in env:
            x = test.args[0].id
            v = env[x]
            if v[0] != "MAPVAL":
                fail(test, "isinstance on " + v[0])
            l, d = self.fresh(x + "_list"), self.fresh(x + "_dict")
            e_l, e_d = dict(env), dict(env)
            e_l[x] = ("INNER", l, v[2], "GList")
            e_d[x] = ("INNER", d, v[2], "GDict")
            k_l, k_d = (then_k, else_k) if test.args[1].id == "list" else (else_k, then_k)
            return "(match %s with GList %s => %s | GDict %s => %s end)" % (v[1], l, k_l(e_l), d, k_d(e_d))
        fail(test, "database test")

    def setdefault_chain(self, e, env, m, k):
        """e = <obj>.setdefault(key, default); k(value, m') continues with the returned object"""
        if not (isinstance(e, ast.Call) and isinstance(e.func, ast.Attribute) and e.func.attr == "setdefault" and len(e.args) == 2 and not e.keywords):
            fail(e, "setdefault call")
        key = self.value(e.args[0], env)
        dflt = e.args[1]
        empty_dict = isinstance(dflt, ast.Dict) and not dflt.keys
        empty_list = isinstance(dflt, ast.List) and not dflt.elts
        if not (empty_dict or empty_list):
            fail(e, "setdefault default")
        obj = e.func.value
        if is_selfmap(obj):
            if key[0] != "KIND":
                fail(e, "map key")
            m2, r = self.fresh("map"), self.fresh("got")
            return "(let '(%s, %s) := gen_setdefault gen_kind_eqb %s %s %s in %s)" % (
                m2, r, m, key[1], "(GDict [])" if empty_dict else "(GList [])", k(("MAPVAL", r, key[1]), m2))

        def on_obj(v, m1):
            # the object must be a dict: a list has no setdefault (AttributeError)
            if v[0] != "MAPVAL" or key[0] != "DIR" or not empty_list:
                fail(e, "setdefault on " + v[0])
            d, d2, r = self.fresh("dict"), self.fresh("dict"), self.fresh("got")
            inner = ("INNER", d, v[2], "GDict")
            return "(match %s with GDict %s => (let '(%s, %s) := gen_setdefault gen_dir_eqb %s %s [] in %s) | GList _ => Err (Crash COther) end)" % (
                v[1], d, d2, r, d, key[1], k(("LEAF", r, v[2], d2, key[1]), self.store(m1, inner, d2)))
        return self.setdefault_chain(obj, env, m, on_obj)

    def block(self, stmts, env, m, k_ret, k_end):
        if not stmts:
            return k_end(env, m)
        s, rest = stmts[0], stmts[1:]
        cont = lambda env2, m2: self.block(rest, env2, m2, k_ret, k_end)
        if isinstance(s, ast.Expr) and isinstance(s.value, ast.Constant) and isinstance(s.value.value, str):
            return cont(env, m)
        if isinstance(s, ast.If):
            return self.cond(s.test, env, m, lambda e2: self.block(list(s.body) + rest, e2, m, k_ret, k_end),
                             lambda e2: self.block(list(s.orelse) + rest, e2, m, k_ret, k_end))
        if isinstance(s, ast.Raise):
            if isinstance(s.exc, ast.Call) and is_name(s.exc.func, "DatabaseError") and s.cause is None:
                return "(Err DatabaseError)"
            fail(s, "raise")
        if isinstance(s, ast.Return):
            if k_ret is None or s.value is None:
                fail(s, "return")
            e = s.value
            if is_name(e) and e.id in env:
                return k_ret(env[e.id], m)
            if isinstance(e, ast.Subscript) and is_name(e.value) and e.value.id in env:
                c, key = env[e.value.id], self.value(e.slice, env)
                if c[0] == "INNER" and c[3] == "GDict" and key[0] == "DIR":
                    l = self.fresh("got")
                    return "(match gen_afind gen_dir_eqb %s %s with Some %s => %s | None => Err (Crash CKey) end)" % (
                        c[1], key[1], l, k_ret(("LEAF", l, c[2], c[1], key[1]), m))
            fail(s, "return value")
        if isinstance(s, ast.Assign) and len(s.targets) == 1 and is_name(s.targets[0]):
            t, e = s.targets[0].id, s.value
            if t in env and env[t][0] in ("KIND", "ODIR", "DIR", "REC"):
                fail(s, "parameter reassigned")
            if isinstance(e, ast.Subscript) and is_selfmap(e.value):
                key = self.value(e.slice, env)
                if key[0] != "KIND":
                    fail(s, "map key")
                v = self.fresh(t)
                env2 = dict(env)
                env2[t] = ("MAPVAL", v, key[1])
                return "(match gen_afind gen_kind_eqb %s %s with Some %s => %s | None => Err (Crash CKey) end)" % (m, key[1], v, cont(env2, m))
            if isinstance(e, ast.Call) and isinstance(e.func, ast.Attribute) and is_name(e.func.value, "self") and e.func.attr in self.methods and e.func.attr != "add":
                def after(v, m2):
                    env2 = dict(env)
                    env2[t] = v
                    return cont(env2, m2)
                return self.call(e.func.attr, e, env, m, after)
            fail(s, "assignment")
        if isinstance(s, ast.Expr) and isinstance(s.value, ast.Call) and isinstance(s.value.func, ast.Attribute):
            c = s.value
            if c.func.attr == "setdefault":
                return self.setdefault_chain(c, env, m, lambda v, m2: cont(env, m2))
            if c.func.attr == "append" and is_name(c.func.value) and c.func.value.id in env and len(c.args) == 1 and not c.keywords:
                lst, x = env[c.func.value.id], self.value(c.args[0], env)
                if x[0] != "REC" or not (lst[0] == "LEAF" or (lst[0] == "INNER" and lst[3] == "GList")):
                    fail(s, "append")
                new = "(%s ++ [snd %s])" % (lst[1], x[1])
                env2 = dict(env)
                env2[c.func.value.id] = lst[:1] + (new,) + lst[2:]
                return cont(env2, self.store(m, lst, new))
        fail(s, "database statement")

    def call(self, name, e, env, m, k_ret):
        fn = self.methods[name]
        ps = self.params(fn)
        if e.keywords or len(e.args) > len(ps):
            fail(e, "method call arguments")
        env2 = {}
        for (p, kind, has_default), a in zip(ps, list(e.args) + [None] * (len(ps) - len(e.args))):
            if a is None:
                if not has_default:
                    fail(e, "missing argument")
                v = ("ODIR", "None")
            else:
                v = self.value(a, env)
                if v[0] == "NONE" and kind == "ODIR":
                    v = ("ODIR", "None")
                if v[0] == "DIR" and kind == "ODIR":
                    v = ("ODIR", "(Some %s)" % v[1])
            if v[0] != kind:
                fail(e, "argument %s: %s where %s is expected" % (p, v[0], kind))
            env2[p] = v
        return self.block(list(fn.body), env2, m, k_ret, lambda e3, m3: fail(fn, "method falls off its end"))

    def params(self, fn):
        a = fn.args
        if a.vararg or a.kwarg or a.kwonlyargs or a.posonlyargs or fn.decorator_list or not a.args or a.args[0].arg != "self":
            fail(fn, "method signature")
        out = []
        defaults = [None] * (len(a.args) - len(a.defaults)) + list(a.defaults)
        for x, d in list(zip(a.args, defaults))[1:]:
            ann = ast.unparse(x.annotation) if x.annotation is not None else "?"
            kind = {"Type[Record]": "KIND", "Type[T]": "KIND", "Optional[Direction]": "ODIR", "Record": "REC"}.get(ann)
            if kind is None or (d is not None and not (kind == "ODIR" and isinstance(d, ast.Constant) and d.value is None)):
                fail(fn, "parameter " + x.arg)
            out.append((x.arg, kind, d is not None))
        return out

    def method(self, name):
        fn = self.methods[name]
        ps = self.params(fn)
        ty = {"KIND": "kind", "ODIR": "option dir", "REC": "(kind * rec)"}
        env = {p: (kind, p + "_") for p, kind, _ in ps}
        body = self.block(list(fn.body), env, "m", None, lambda e, m: "(Ok %s)" % m)
        return "Definition gen_db_%s (m : gmap) %s : res gmap :=\n  %s." % (name, " ".join("(%s_ : %s)" % (p, ty[kind]) for p, kind, _ in ps), body)


PRELUDE_DB = r"""(* dictionaries as association lists in insertion order *)
Inductive gval := GList (l : list rec) | GDict (d : list (dir * list rec)).
Definition gmap := list (kind * gval).
Definition gen_dir_eqb (a b : dir) : bool := match a, b with Req, Req | Resp, Resp => true | _, _ => false end.
Fixpoint gen_afind {K V} (eqb : K -> K -> bool) (m : list (K * V)) (k : K) : option V :=
  match m with [] => None | (k', v) :: r => if eqb k k' then Some v else gen_afind eqb r k end.
Fixpoint gen_astore {K V} (eqb : K -> K -> bool) (m : list (K * V)) (k : K) (v : V) : list (K * V) :=
  match m with [] => [(k, v)] | (k', v') :: r => if eqb k k' then (k', v) :: r else (k', v') :: gen_astore eqb r k v end.
Definition gen_setdefault {K V} (eqb : K -> K -> bool) (m : list (K * V)) (k : K) (v0 : V) : list (K * V) * V :=
  match gen_afind eqb m k with Some v => (m, v) | None => (gen_astore eqb m k v0, v0) end."""


def translate_db(dcls_methods):
    for must in ("create", "_get", "add"):
        if must not in dcls_methods:
            raise Unsupported("RecordsDatabase.%s not found" % must)
    tr = DbTr(dcls_methods)
    return [PRELUDE_DB, tr.method("create"), tr.method("add")]
