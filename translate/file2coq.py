#!/venv/bin/python
"""Fail-closed translator for pyp0f's database FILE parser.   usage: file2coq.py <repo> <out.v>

Reads the CURRENT source of
  * database/labels/label.py   Label.parse, Label.dump, Label.is_user_app, module-level _parse_type, the dataclass fields of Label
  * database/labels/mtu.py     MTULabel.parse                 * database/labels/base.py   DatabaseLabel.dump (and the field `name`)
  * database/records/{mtu,tcp,http}.py   the `_label_cls` / `_signature_cls` class attributes (-> gen_label_cls_parse / gen_signature_cls_parse)
  * database/records/base.py   the dataclass fields of Record (label, signature, raw_signature, line_number)
  * database/records_database.py   RecordsDatabase.__init__ (shape), create / _get / add (via translate/db2coq.py: gen_db_create /
                               gen_db_add over a dictionary model `gmap`; the step function calls them)
  * database/records_database.py   READ side (db2coq.py): _get as a value (gen_db_get), iter_values, get_random (random.choice(l) is
                               ASSUMED to be l[pick] for an extra argument pick; IndexError past the end), __len__, _replace;
    database/database.py       Database.load (gen_Database_load : gmap -> list text -> gmap * res unit; always_path / open ASSUMED);
    parse/parser.py            the line loop as gen_loop, _parse_file as gen__parse_file, parse_file (text pinned; I/O ASSUMED)
  * database/parse/utils.py    parsing_error_wrapper (shape checked: try: yield / except <E> as e: raise ParsingError(str(e), <line>) from e;
                               the caught classes are <E> and its subclasses as declared in pyp0f/exceptions.py)
  * database/parse/parser.py   SKIPPED_PARAMS, SKIPPED_LINES, _parse_section_type, _parse_direction, ParserState, _parse_section, and
                               _parse_file: the initial values of its state variables (gen_st0), `enumerate(file, start=N)` (gen_first_line),
                               the BODY of the line loop as `gen_step_g : gst -> Z -> text -> res gst` over the generated state record
                               gst (database, state, label, direction, record class) and the real Python line (WITH its terminator),
                               and the final `return database` (gen_result)
and writes Gallina definitions (Gen/GeneratedFile.v) that Gen/GenFileP.v proves equal to the hand-written model Model/DbParse.v.
It reuses sig2coq.Tr (expressions over text, calls of the translated utils functions, the res monad) by subclassing; sig2coq.py itself
is not changed.

How Python is rendered
  * control flow: an `if` is rendered by duplicating the rest of the block into both branches (no joins); `continue` and the end of the loop
    body return the current values of the state variables; `raise ParsingError(msg, n)` is `Err (ParsingError n)` (the message is dropped),
    `raise FieldError(..)` is `Err FieldError`; `with parsing_error_wrapper(n): <assignments>` is `gen_parsing_error_wrapper n <block>`.
  * tests `x is None`, `x is not None`, `isinstance(x, Label)` (alone, negated, or as operands of and/or in an `if` test) are rendered as a
    `match` on the option / on the label constructor, which also narrows x for the code they guard (flow typing).
  * classes: record classes are the model's `kind` constructors, Direction members its `dir` constructors, ParserState members its `pstate`
    constructors (by NAME, table below; ParserState must be a Flag whose members are all `auto()`, so that `state in (A | B)` is membership
    in {A, B}), labels are the model's `label` (Label -> LOs, MTULabel -> LMtu; dataclass fields by name), records are `kind * rec`.
  * `label.sys = e` is rendered as a functional update of the variable `label`.  This is only sound while no record has captured the same
    label object (the file parser assigns sys only in NEED_SYS, i.e. before any record of that label exists); it is NOT checked here.

ASSUMED primitives (trusted, not translated)
  * HTTPSignature.parse (regular expressions over bytes)           := Model.SigParse.parse_http_sig
  * a Python dict is an insertion-ordered association list (gen_afind = lookup, gen_astore = `d[k] = v`, gen_setdefault) and a value read
    out of `self._map` aliases what is stored there (db2coq.py renders `.append` / `.setdefault` on such a value as a write-back along the
    path it was read from).  RecordsDatabase.create / _get / add themselves ARE translated (gen_db_create / gen_db_add) and the step
    function calls them; GenFileP.v relates the dictionary to the model's five optional lists through of_map, under the parser-state
    invariant DbParseP.Inv (canonical sections only, a section exists before anything is added to it): outside it Python and the model
    differ (add to a missing section raises DatabaseError, the model's push does nothing; create(TCPRecord, None) makes a plain list).
  * passing an Optional value where a dataclass field is declared non-Optional (`label=label` of a record while label may be None) is
    rendered as `Err (Crash COther)` for None (Python would store None; unreachable: NEED_SIG implies a label).
  * the str primitives of sig2coq (strip = Model.Text.strip, partition, split, indexing, slicing [1:-1] = slice_1_m1, join = Model.Text.join).
  * the iteration `for line_number, line in enumerate(file, start=N)`: the lines of the model come WITHOUT terminator; GenFileP.v
    hands `raw ++ "\n"` to gen_step_g.

Anything else: `UNSUPPORTED: <why>` and exit status 3.
"""
import ast
import os
import sys

sys.path.insert(0, os.path.dirname(os.path.abspath(__file__)))
import sig2coq                                                            # noqa: E402
import db2coq                                                             # noqa: E402
from sig2coq import Tr, Unsupported, fail, coq_str, Fn                    # noqa: E402

KINDS = {"MTURecord": "KMtu", "TCPRecord": "KTcp", "HTTPRecord": "KHttp"}
DIRS = {"CLIENT_TO_SERVER": "Req", "SERVER_TO_CLIENT": "Resp"}
PSTATES = {"NEED_SECTION": "NeedSection", "NEED_LABEL": "NeedLabel", "NEED_SYS": "NeedSys", "NEED_SIG": "NeedSig"}
SIGV = {"MTUSignature": ("SMtu", "gen_MTUSignature_parse"), "TCPSignature": ("STcp", "gen_TCPSignature_parse"),
        "HTTPSignature": ("SHttp", "gen_HTTPSignature_parse")}
LOS_FIELDS = ["is_generic", "os_class", "name", "flavor", "sys"]           # argument order of the model's LOs
LOS_TYPES = {"is_generic": "B", "os_class": "T", "name": "T", "flavor": "T", "sys": "LIST T"}
LOS_ANN = {"is_generic": "bool", "os_class": "str", "name": "str", "flavor": "str", "sys": "Tuple[str, ...]"}
REC_FIELDS = {"label": ("rc_label", "LABEL"), "signature": ("rc_sig", "SIGV"), "raw_signature": ("rc_raw", "T"), "line_number": ("rc_line", "Z")}
ROLE = {"DB": "g_db", "PS": "g_state", "OPT LABEL": "g_label", "OPT DIR": "g_dir", "OPT KIND": "g_cls"}
STATE_ANN = {"ParserState": "PS", "Optional[DatabaseLabel]": "OPT LABEL", "Optional[Direction]": "OPT DIR", "Optional[Type[Record]]": "OPT KIND"}

sig2coq.COQ_TY.update({"KIND": "kind", "DIR": "dir", "PS": "pstate", "DB": "gmap", "LABEL": "label", "SIGV": "sigv", "REC": "(kind * rec)",
                       "OPT KIND": "option kind", "OPT DIR": "option dir", "OPT LABEL": "option label", "PAIR KIND OPT DIR": "(kind * option dir)",
                       "SET T": "list text", "PSSET": "list pstate", "LOS": "label", "LMTU": "label", "FUN KIND": "(text -> res kind)",
                       "FUN DIR": "(text -> res dir)", "FUN B": "(text -> res bool)"})
COQ_TY = sig2coq.COQ_TY

def strip_doc(body):
    return [s for s in body if not (isinstance(s, ast.Expr) and isinstance(s.value, ast.Constant) and isinstance(s.value.value, str))]


def text_lit(s):
    """A str constant as a `text`; control characters are written as code points."""
    if all(32 <= ord(c) <= 126 and c != '"' for c in s):
        return coq_str(s)
    if any(ord(c) > 127 for c in s):
        raise Unsupported("non-ASCII string literal %r" % s)
    return "[%s]" % "; ".join(str(ord(c)) for c in s)


def is_name(e, name=None):
    return isinstance(e, ast.Name) and (name is None or e.id == name)


class FTr(Tr):
    def __init__(self, repo):
        Tr.__init__(self, repo)
        self.label_cls = {}        # kind ctor -> label class name
        self.sig_cls = {}          # kind ctor -> signature class name
        self.properties = {}       # Label property name -> generated function
        self.state_vars = []       # [(python name, declared type)]
        self.in_loop = False
        self.caught = []

    # ------------------------------------------------------------ types
    def widen(self, t, ty, want, node=None):
        """Pure conversion of a flow-typed value to a declared (wider) type."""
        if ty == want:
            return t
        if ty == "LOS" and want in ("LABEL", "OPT LABEL"):
            return self.widen("(LOs %s)" % t, "LABEL", want, node)
        if ty == "LMTU" and want in ("LABEL", "OPT LABEL"):
            return self.widen("(LMtu %s)" % t, "LABEL", want, node)
        if want == "OPT " + ty:
            return "(Some %s)" % t
        if ty == "NONE" and want.startswith("OPT "):
            return "None"
        fail(node, "a value of type %s where %s is declared" % (ty, want))

    def coerce(self, r, want, node):
        if r[2] == want:
            return r
        if r[2] in ("LOS", "LMTU", "NONE") or want == "OPT " + r[2]:
            return self.bind_all([r], lambda a: (False, self.widen(a[0], r[2], want, node), want))
        if r[2] == "OPT " + want:
            # Optional given where a non-Optional is declared: None is a crash (see the docstring)
            return self.bind_all([r], lambda a: (True, "(gen_unwrap %s)" % a[0], want))
        return Tr.coerce(self, r, want, node)

    def truthy(self, r, node):
        if r[2] in ("SET T",):
            return self.bind_all([r], lambda a: (False, "(match %s with [] => false | _ :: _ => true end)" % a[0], "B"))
        return Tr.truthy(self, r, node)

    # ------------------------------------------------------------ expressions
    def ex(self, e, env):
        if not self.file_mode:
            return Tr.ex(self, e, env)
        if isinstance(e, ast.Constant) and isinstance(e.value, str):
            return (False, text_lit(e.value), "T")
        if isinstance(e, ast.JoinedStr):
            fail(e, "an f-string as a value")
        if is_name(e) and e.id not in env and e.id in KINDS:
            return (False, KINDS[e.id], "KIND")
        if isinstance(e, ast.Attribute) and is_name(e.value):
            base = e.value.id
            if base == "ParserState" and base not in env:
                if e.attr not in self.ps_members:
                    fail(e, "unknown ParserState member")
                return (False, PSTATES[e.attr], "PS")
            if base == "Direction" and base not in env:
                if e.attr not in DIRS:
                    fail(e, "unknown Direction member")
                return (False, DIRS[e.attr], "DIR")
            if base in env and env[base][1] in ("LOS", "LMTU"):
                comps = env[base][0].split(" ")
                fields = LOS_FIELDS if env[base][1] == "LOS" else ["name"]
                if e.attr in fields:
                    return (False, comps[fields.index(e.attr)], LOS_TYPES[e.attr])
                if env[base][1] == "LOS" and e.attr in self.properties:
                    return (False, "(%s %s)" % (self.properties[e.attr], env[base][0]), "B")
                fail(e, "attribute of a label")
            fail(e, "attribute")
        if isinstance(e, ast.BinOp) and isinstance(e.op, ast.BitOr):
            l, r = self.ex(e.left, env), self.ex(e.right, env)
            if l[2] in ("PS", "PSSET") and r[2] in ("PS", "PSSET") and not l[0] and not r[0]:
                items = lambda x: [x[1]] if x[2] == "PS" else x[1][1:-1].split("; ")
                return (False, "[%s]" % "; ".join(items(l) + items(r)), "PSSET")
        if isinstance(e, ast.Set):
            rs = [self.ex(x, env) for x in e.elts]
            if not rs or any(r[0] or r[2] != "T" for r in rs):
                fail(e, "set literal")
            return (False, "[%s]" % "; ".join(r[1] for r in rs), "SET T")
        if isinstance(e, ast.IfExp):
            none_else = isinstance(e.orelse, ast.Constant) and e.orelse.value is None
            none_body = isinstance(e.body, ast.Constant) and e.body.value is None
            if none_else != none_body:
                c = self.truthy(self.ex(e.test, env), e.test)
                v = self.ex(e.body if none_else else e.orelse, env)
                if v[2].startswith("OPT ") or v[2] == "NONE":
                    fail(e, "conditional expression")
                some = self.bind_all([v], lambda a: (False, "(Some %s)" % a[0], "OPT " + v[2]))
                a, b = (some, (False, "None", some[2])) if none_else else ((False, "None", some[2]), some)
                if not some[0]:
                    return self.bind_all([c], lambda x: (False, "(if %s then %s else %s)" % (x[0], a[1], b[1]), some[2]))
                return self.bind_all([c], lambda x: (True, "(if %s then %s else %s)" % (x[0], self.to_m(a), self.to_m(b)), some[2]))
        if isinstance(e, ast.Tuple) and len(e.elts) == 2:
            rs = [self.ex(x, env) for x in e.elts]
            if (rs[0][2], rs[1][2]) == ("KIND", "OPT DIR"):
                return self.bind_all(rs, lambda a: (False, "(%s, %s)" % (a[0], a[1]), "PAIR KIND OPT DIR"))
            fail(e, "tuple of %s and %s" % (rs[0][2], rs[1][2]))
        return Tr.ex(self, e, env)

    def compare(self, e, env):
        if len(e.ops) == 1:
            op = e.ops[0]
            l, r = self.ex(e.left, env), self.ex(e.comparators[0], env)
            t = None
            if isinstance(op, (ast.In, ast.NotIn)):
                if l[2] == "T" and r[2] == "SET T":
                    t = "(existsb (text_eqb %s) %s)"
                elif l[2] == "PS" and r[2] == "PSSET":
                    t = "(existsb (gen_pstate_eqb %s) %s)"
                elif l[2] == "PS" and r[2] == "PS":
                    t = "(gen_pstate_eqb %s %s)"                      # Flag containment between single members
                neg = isinstance(op, ast.NotIn)
            elif isinstance(op, (ast.Eq, ast.NotEq, ast.Is, ast.IsNot)):
                if l[2] == "PS" and r[2] == "PS":
                    t = "(gen_pstate_eqb %s %s)"
                elif l[2] == "KIND" and r[2] == "KIND":
                    t = "(gen_kind_eqb %s %s)"
                elif l[2] == "B" and r[2] == "B" and isinstance(op, (ast.Eq, ast.NotEq)):
                    t = "(Bool.eqb %s %s)"
                neg = isinstance(op, (ast.NotEq, ast.IsNot))
            if t is not None:
                return self.bind_all([l, r], lambda a: (False, ("(negb %s)" % t if neg else t) % (a[0], a[1]), "B"))
            if {l[2], r[2]} & {"PS", "PSSET", "KIND", "DIR", "LABEL", "LOS", "LMTU", "DB", "REC", "SET T", "OPT KIND", "OPT LABEL"} and r[2] != "NONE":
                fail(e, "comparison of %s and %s" % (l[2], r[2]))
        return Tr.compare(self, e, env)

    def subscript(self, e, env):
        if isinstance(e.slice, ast.Slice) and e.slice.step is None and e.slice.lower is not None and e.slice.upper is not None:
            lo, hi = self.const(e.slice.lower), self.const(e.slice.upper)
            b = self.ex(e.value, env)
            if b[2] == "T" and lo and hi and lo[1] == "(1)" and hi[1] == "(-1)":
                return self.bind_all([b], lambda a: (False, "(slice_1_m1 %s)" % a[0], "T"))
            fail(e, "slice bounds")
        return Tr.subscript(self, e, env)

    def call(self, e, env):
        f = e.func
        if is_name(f, "bool") and "bool" not in env and len(e.args) == 1 and not e.keywords:
            return self.truthy(self.ex(e.args[0], env), e)
        if is_name(f, "tuple") and "tuple" not in env and len(e.args) == 1 and not e.keywords:
            r = self.ex(e.args[0], env)
            if not r[2].startswith("LIST "):
                fail(e, "tuple() of " + r[2])
            return r
        if is_name(f, "isinstance"):
            fail(e, "isinstance outside an if test")
        if isinstance(f, ast.Attribute) and f.attr == "join" and isinstance(f.value, ast.Constant) and isinstance(f.value.value, str) \
                and len(e.args) == 1 and not e.keywords and isinstance(e.args[0], (ast.Tuple, ast.List)):
            rs = [self.ex(x, env) for x in e.args[0].elts]
            if any(r[2] != "T" for r in rs):
                fail(e, "join of non-strings")
            sep = text_lit(f.value.value)
            return self.bind_all(rs, lambda a: (False, "(join %s [%s])" % (sep, "; ".join(a)), "T"))
        if isinstance(f, ast.Attribute) and f.attr == "strip" and not e.args and not e.keywords:
            r = self.ex(f.value, env)
            if r[2] != "T":
                fail(e, "strip of " + r[2])
            return self.bind_all([r], lambda a: (False, "(strip %s)" % a[0], "T"))
        # <record class>._label_cls.parse(v) / <record class>._signature_cls.parse(v)
        if isinstance(f, ast.Attribute) and f.attr == "parse" and isinstance(f.value, ast.Attribute) and f.value.attr in ("_label_cls", "_signature_cls") \
                and len(e.args) == 1 and not e.keywords:
            k = self.ex(f.value.value, env)
            v = self.ex(e.args[0], env)
            if k[2] != "KIND" or v[2] != "T":
                fail(e, "class-attribute parser of %s on %s" % (k[2], v[2]))
            fn, ty = ("gen_label_cls_parse", "LABEL") if f.value.attr == "_label_cls" else ("gen_signature_cls_parse", "SIGV")
            return self.bind_all([k, v], lambda a: (True, "(%s %s %s)" % (fn, a[0], a[1]), ty))
        # record_cls(label=.., signature=.., raw_signature=.., line_number=..)
        if is_name(f) and f.id in env and env[f.id][1] == "KIND":
            if e.args:
                fail(e, "record constructor with positional arguments")
            seen, rs = {}, []
            for kw in e.keywords:
                if kw.arg not in self.rec_fields or kw.arg in seen:
                    fail(e, "record constructor keyword")
                seen[kw.arg] = len(rs)
                rs.append(self.coerce(self.ex(kw.value, env), REC_FIELDS[kw.arg][1], kw.value))
            if set(seen) != set(self.rec_fields):
                fail(e, "record constructor keywords missing")
            kind = env[f.id][0]
            return self.bind_all(rs, lambda a: (False, "(%s, {| %s |})" % (kind, "; ".join("%s := %s" % (REC_FIELDS[k][0], a[seen[k]]) for k in sorted(seen))), "REC"))
        # cls(...) inside Label.parse / MTULabel.parse
        if is_name(f, "cls") and env.get("__class__") == "Label":
            if e.args:
                fail(e, "Label constructor with positional arguments")
            seen, rs = {}, []
            for kw in e.keywords:
                if kw.arg not in LOS_FIELDS or kw.arg in seen:
                    fail(e, "Label constructor keyword")
                seen[kw.arg] = len(rs)
                rs.append(self.coerce(self.ex(kw.value, env), LOS_TYPES[kw.arg], kw.value))
            for k in LOS_FIELDS:
                if k not in seen:
                    if k not in self.label_defaults:
                        fail(e, "Label constructor: no value for " + k)
                    seen[k] = len(rs)
                    rs.append((False, self.label_defaults[k], LOS_TYPES[k]))
            return self.bind_all(rs, lambda a: (False, "(LOs %s)" % " ".join(a[seen[k]] for k in LOS_FIELDS), "LABEL"))
        if is_name(f, "cls") and env.get("__class__") == "MTULabel":
            if len(e.args) == 1 and not e.keywords:
                v = e.args[0]
            elif not e.args and len(e.keywords) == 1 and e.keywords[0].arg == "name":
                v = e.keywords[0].value
            else:
                fail(e, "MTULabel constructor")
            r = self.coerce(self.ex(v, env), "T", v)
            return self.bind_all([r], lambda a: (False, "(LMtu %s)" % a[0], "LABEL"))
        return Tr.call(self, e, env)

    # ------------------------------------------------------------ tests with narrowing
    def cond(self, test, env, then_k, else_k):
        if isinstance(test, ast.BoolOp):
            first, rest = test.values[0], test.values[1:]
            more = rest[0] if len(rest) == 1 else ast.BoolOp(op=test.op, values=rest)
            if isinstance(test.op, ast.Or):
                return self.cond(first, env, then_k, lambda e2: self.cond(more, e2, then_k, else_k))
            return self.cond(first, env, lambda e2: self.cond(more, e2, then_k, else_k), else_k)
        if isinstance(test, ast.UnaryOp) and isinstance(test.op, ast.Not):
            return self.cond(test.operand, env, else_k, then_k)
        if isinstance(test, ast.Compare) and len(test.ops) == 1 and isinstance(test.ops[0], (ast.Is, ast.IsNot)) and is_name(test.left) \
                and isinstance(test.comparators[0], ast.Constant) and test.comparators[0].value is None and test.left.id in env:
            x = test.left.id
            t, ty = env[x]
            if ty.startswith("OPT "):
                inner = self.fresh(x)
                env_some = dict(env)
                env_some[x] = (inner, ty[4:])
                a_none, a_some = (then_k, else_k) if isinstance(test.ops[0], ast.Is) else (else_k, then_k)
                return "(match %s with None => %s | Some %s => %s end)" % (t, a_none(env), inner, a_some(env_some))
            if ty in ("KIND", "LABEL", "LOS", "LMTU", "DIR", "PS", "DB", "REC", "T", "Z"):       # cannot be None here
                return (else_k if isinstance(test.ops[0], ast.Is) else then_k)(env)
            fail(test, "`is None` on " + ty)
        if isinstance(test, ast.Call) and is_name(test.func, "isinstance") and "isinstance" not in env:
            if len(test.args) != 2 or test.keywords or not is_name(test.args[0]) or not is_name(test.args[1]) or test.args[0].id not in env:
                fail(test, "isinstance shape")
            x, cname = test.args[0].id, test.args[1].id
            if cname not in ("Label", "MTULabel") or cname in env:
                fail(test, "isinstance of an unknown class")
            t, ty = env[x]
            los = [self.fresh(x + "_" + f) for f in LOS_FIELDS]
            mtu = [self.fresh(x + "_name")]
            env_los, env_mtu = dict(env), dict(env)
            env_los[x] = (" ".join(los), "LOS")
            env_mtu[x] = (" ".join(mtu), "LMTU")
            k_los, k_mtu = (then_k, else_k) if cname == "Label" else (else_k, then_k)
            if ty == "LABEL":
                return "(match %s with LOs %s => %s | LMtu %s => %s end)" % (t, " ".join(los), k_los(env_los), mtu[0], k_mtu(env_mtu))
            if ty == "OPT LABEL":
                return "(match %s with Some (LOs %s) => %s | Some (LMtu %s) => %s | None => %s end)" % (
                    t, " ".join(los), k_los(env_los), mtu[0], k_mtu(env_mtu), else_k(env))
            if ty in ("LOS", "LMTU"):
                return (then_k if (ty == "LOS") == (cname == "Label") else else_k)(env)
            fail(test, "isinstance on " + ty)
        c = self.truthy(self.ex(test, env), test)
        if c[0]:
            v = self.fresh("c")
            return "(do %s <- %s; if %s then %s else %s)" % (v, c[1], v, then_k(env), else_k(env))
        return "(if %s then %s else %s)" % (c[1], then_k(env), else_k(env))

    def if_stmt(self, s, rest, env, ret_ty, k):
        if not self.file_mode:
            return Tr.if_stmt(self, s, rest, env, ret_ty, k)
        return self.cond(s.test, env, lambda e2: self.block(list(s.body) + list(rest), e2, ret_ty, k),
                         lambda e2: self.block(list(s.orelse) + list(rest), e2, ret_ty, k))

    file_mode = False

    # ------------------------------------------------------------ statements
    def raise_term(self, s, env):
        if isinstance(s.exc, ast.Call) and is_name(s.exc.func, "ParsingError") and s.cause is None:
            if len(s.exc.args) != 2 or s.exc.keywords:
                fail(s, "ParsingError arguments")
            n = self.ex(s.exc.args[1], env)
            if n[0] or n[2] != "Z":
                fail(s, "ParsingError line number")
            return "(Err (ParsingError %s))" % n[1]
        if isinstance(s.exc, ast.Call) and is_name(s.exc.func, "FieldError") and s.cause is None and self.file_mode:
            return "(Err FieldError)"
        if self.file_mode:
            fail(s, "raise")
        return Tr.raise_term(self, s, env)

    def state_term(self, env):
        return "(Ok {| %s |})" % "; ".join("%s := %s" % (ROLE[ty], self.widen(env[v][0], env[v][1], ty)) for v, ty in self.state_vars)

    def block(self, stmts, env, ret_ty, k):
        if not self.file_mode or not stmts:
            return Tr.block(self, stmts, env, ret_ty, k)
        s, rest = stmts[0], stmts[1:]
        cont = lambda env2: self.block(rest, env2, ret_ty, k)
        if isinstance(s, ast.Continue):
            if not self.in_loop:
                fail(s, "continue outside the line loop")
            return self.state_term(env)
        if isinstance(s, (ast.Break, ast.While, ast.For, ast.Try, ast.Global, ast.Nonlocal, ast.Delete, ast.FunctionDef, ast.ClassDef)):
            fail(s, "statement form")
        if isinstance(s, ast.Return):
            if self.in_loop:
                fail(s, "return inside the line loop")
            return Tr.block(self, stmts, env, ret_ty, k)
        if isinstance(s, ast.With):
            return self.with_stmt(s, env, ret_ty, cont)
        if isinstance(s, ast.Assign) and len(s.targets) == 1:
            t = s.targets[0]
            if is_name(t):
                r = self.ex(s.value, env)
                if r[2] in ("NONE", "PART", "PSSET", "SET T"):
                    fail(s, "assignment of a value of type " + r[2])
                if t.id in env:
                    old = env[t.id][1]
                    fam = lambda x: "LABEL" if x in ("LOS", "LMTU", "LABEL", "OPT LABEL") else x[4:] if x.startswith("OPT ") else x
                    if fam(old) != fam(r[2]):
                        fail(s, "variable %s of type %s is assigned a value of type %s" % (t.id, old, r[2]))
                return self.assign(t.id, r, env, cont)               # flow typing: the variable takes the type of the value
            if isinstance(t, ast.Attribute) and is_name(t.value) and t.value.id in env and env[t.value.id][1] == "LOS":
                if t.attr not in LOS_FIELDS:
                    fail(s, "assignment to an unknown label attribute")
                r = self.coerce(self.ex(s.value, env), LOS_TYPES[t.attr], s.value)
                x = t.value.id
                comps = env[x][0].split(" ")
                nv = self.fresh(x + "_" + t.attr)
                comps[LOS_FIELDS.index(t.attr)] = nv
                env2 = dict(env)
                env2[x] = (" ".join(comps), "LOS")
                if r[0]:
                    return "(do %s <- %s; %s)" % (nv, r[1], cont(env2))
                return "(let %s := %s in %s)" % (nv, r[1], cont(env2))
            if isinstance(t, ast.Attribute):
                fail(s, "attribute assignment")
        if isinstance(s, ast.Expr) and isinstance(s.value, ast.Call) and isinstance(s.value.func, ast.Attribute) and is_name(s.value.func.value) \
                and s.value.func.value.id in env and env[s.value.func.value.id][1] == "DB":
            c = s.value
            db = c.func.value.id
            if c.func.attr not in ("create", "add"):
                fail(s, "database method")
            given = {}
            for name, a in zip(["first", "direction"], c.args):
                given[name] = a
            for kw in c.keywords:
                if kw.arg != "direction" or "direction" in given:
                    fail(s, "database method keyword")
                given["direction"] = kw.value
            if len(c.args) > 2 or "first" not in given:
                fail(s, "database method arguments")
            a0 = self.ex(given["first"], env)
            a1 = self.ex(given["direction"], env) if "direction" in given else (False, "None", "OPT DIR")
            if a1[2] == "DIR":
                a1 = self.coerce(a1, "OPT DIR", s)
            if a1[2] == "NONE":
                a1 = (False, "None", "OPT DIR")
            want0 = "KIND" if c.func.attr == "create" else "REC"
            if a0[2] != want0 or a1[2] != "OPT DIR":
                fail(s, "database.%s on %s, %s" % (c.func.attr, a0[2], a1[2]))
            r = self.bind_all([a0, a1], lambda a: (True, "(gen_db_%s %s %s %s)" % (c.func.attr, env[db][0], a[0], a[1]), "DB"))
            return self.assign(db, r, env, cont)
        if isinstance(s, ast.Expr) and not (isinstance(s.value, ast.Constant) and isinstance(s.value.value, str)):
            fail(s, "expression statement")
        if isinstance(s, (ast.AugAssign, ast.AnnAssign)):
            fail(s, "statement form")
        return Tr.block(self, stmts, env, ret_ty, k)

    def unpack(self, t, value, env, cont):
        r = self.ex(value, env)
        if r[2] == "PAIR KIND OPT DIR":
            if len(t.elts) != 2 or not all(is_name(x) for x in t.elts):
                fail(t, "pair unpacking")
            env2 = dict(env)
            vs = []
            for x, ty in zip(t.elts, ["KIND", "OPT DIR"]):
                v = self.fresh(x.id)
                vs.append(v)
                if x.id != "_":
                    env2[x.id] = (v, ty)
            body = cont(env2)
            return self.bind_all([r], lambda a: (True, "(let '(%s, %s) := %s in %s)" % (vs[0], vs[1], a[0], body), "?"))[1]
        return Tr.unpack(self, t, value, env, cont)

    def with_stmt(self, s, env, ret_ty, cont):
        if len(s.items) != 1 or s.items[0].optional_vars is not None:
            fail(s, "with shape")
        c = s.items[0].context_expr
        if not (isinstance(c, ast.Call) and is_name(c.func, "parsing_error_wrapper") and "parsing_error_wrapper" not in env and len(c.args) == 1 and not c.keywords):
            fail(s, "context manager")
        n = self.ex(c.args[0], env)
        if n[0] or n[2] != "Z":
            fail(s, "parsing_error_wrapper argument")
        for x in s.body:
            for sub in ast.walk(x):
                if isinstance(sub, (ast.Return, ast.Continue, ast.Break, ast.With, ast.Yield)):
                    fail(s, "control transfer inside a with block")
        vs = self.assigned(s.body)
        if not vs:
            fail(s, "with block without assignments")
        tys = {}

        def end(envx):
            for v in vs:
                tys[v] = envx[v][1]
            outs = [envx[v][0] for v in vs]
            return "(Ok (%s))" % ", ".join(outs) if len(outs) != 1 else "(Ok %s)" % outs[0]
        body = self.block(list(s.body), env, ret_ty, end)
        env2 = dict(env)
        names = []
        for v in vs:
            if tys[v] in ("LOS", "LMTU"):
                fail(s, "a destructured label leaves a with block")
            nv = self.fresh(v)
            names.append(nv)
            env2[v] = (nv, tys[v])
        return self.bind_pat(names, "(gen_parsing_error_wrapper %s %s)" % (n[1], body), cont(env2))

    def bind_pat(self, names, m, body):
        if len(names) == 1:
            return "(do %s <- %s; %s)" % (names[0], m, body)
        return "(do (%s) <- %s; %s)" % (", ".join(names), m, body)


# ====================================================================================================================
PRELUDE = r"""(* GENERATED by translate/file2coq.py from pyp0f/database/{parse/parser.py,parse/utils.py,labels/*.py,records/*.py} -- do not edit *)
From Coq Require Import String.
From PV Require Import Model.Prelude Model.Bits Model.Sig Model.Text Model.SigParse Model.DbParse Gen.GeneratedSig.
Local Open Scope string_scope.
Local Open Scope Z_scope.
Local Open Scope list_scope.

(* fixed glue *)
Definition gen_kind_eqb (a b : kind) : bool := match a, b with KMtu, KMtu | KTcp, KTcp | KHttp, KHttp => true | _, _ => false end.
Definition gen_pstate_eqb (a b : pstate) : bool :=
  match a, b with NeedSection, NeedSection | NeedLabel, NeedLabel | NeedSys, NeedSys | NeedSig, NeedSig => true | _, _ => false end.
Definition gen_unwrap {A} (o : option A) : res A := match o with Some a => Ok a | None => Err (Crash COther) end.
(* ASSUMED primitive (see the docstring of file2coq.py) *)
Definition gen_HTTPSignature_parse : text -> res http_sig := parse_http_sig.
"""


def load(repo, rel):
    return ast.parse(open(os.path.join(repo, rel), encoding="utf-8").read())


def find_class(mod, name):
    cs = [n for n in mod.body if isinstance(n, ast.ClassDef) and n.name == name]
    if len(cs) != 1:
        raise Unsupported("class %s not found" % name)
    return cs[0]


def methods(cls):
    out = {}
    for n in cls.body:
        if isinstance(n, ast.FunctionDef):
            if n.name in out:
                raise Unsupported("method %s.%s defined twice" % (cls.name, n.name))
            out[n.name] = n
        elif isinstance(n, (ast.AsyncFunctionDef, ast.ClassDef)):
            raise Unsupported("unexpected member of class " + cls.name)
    return out


def decorators(fn):
    return [ast.unparse(d) for d in fn.decorator_list]


def check_dataclass(cls, bases):
    if sorted(decorators(cls)) != ["add_slots", "dataclass"]:
        fail(cls, "class decorators")
    if [ast.unparse(b) for b in cls.bases] != bases or [k for k in cls.keywords if k.arg != "metaclass"]:
        fail(cls, "class bases")
    for n in cls.body:
        if isinstance(n, ast.Assign) or not isinstance(n, (ast.AnnAssign, ast.FunctionDef, ast.Expr)):
            fail(n, "unexpected member of class " + cls.name)


def fields(cls):
    out = []
    for n in cls.body:
        if isinstance(n, ast.AnnAssign):
            if not is_name(n.target):
                fail(n, "field")
            if ast.unparse(n.annotation).startswith("ClassVar"):
                if n.value is not None:
                    fail(n, "class variable with a value")
                continue
            out.append((n.target.id, ast.unparse(n.annotation), n.value))
    return out


def module_names(mod, allowed_defs):
    """Fail closed on module-level statements that could rebind what we translate."""
    for n in mod.body:
        if isinstance(n, (ast.Import, ast.ImportFrom)):
            continue
        if isinstance(n, ast.Expr) and isinstance(n.value, ast.Constant):
            continue
        if isinstance(n, (ast.FunctionDef, ast.ClassDef)) and n.name in allowed_defs:
            continue
        if isinstance(n, ast.Assign) and len(n.targets) == 1 and is_name(n.targets[0]) and n.targets[0].id in allowed_defs:
            continue
        fail(n, "unexpected module-level statement")
    seen = set()
    for n in mod.body:
        for name in ([n.name] if isinstance(n, (ast.FunctionDef, ast.ClassDef)) else [n.targets[0].id] if isinstance(n, ast.Assign) else
                     [a.asname or a.name for a in n.names] if isinstance(n, (ast.Import, ast.ImportFrom)) else []):
            if name in seen:
                fail(n, "module-level name %s bound twice" % name)
            seen.add(name)


def imports_of(mod):
    out = {}
    for n in mod.body:
        if isinstance(n, ast.ImportFrom):
            for a in n.names:
                out[a.asname or a.name] = ("." * n.level + (n.module or ""), a.name)
        elif isinstance(n, ast.Import):
            for a in n.names:
                out[a.asname or a.name] = (a.name, None)
    return out


def need_import(mod, name, module, what):
    imp = imports_of(mod)
    if imp.get(name) != (module, name):
        raise Unsupported("%s: the name %s must be imported from %s (found %r)" % (what, name, module, imp.get(name)))


def main():
    repo, out = sys.argv[1], sys.argv[2]
    tr = FTr(repo)
    parts = [PRELUDE]

    # ---- the utils functions sig2coq translates (their signatures are needed to call them; their text is in GeneratedSig.v)
    wc = load(repo, "pyp0f/database/parse/wildcard.py")
    for n in wc.body:
        if isinstance(n, ast.Assign) and is_name(n.targets[0], "_WILDCARD_FIELD"):
            tr.globals["_WILDCARD_FIELD"] = tr.ex(n.value, {})[1:]
    for n in wc.body:
        if isinstance(n, ast.FunctionDef) and n.name == "is_wildcard":
            tr.function(n)
    utils = load(repo, "pyp0f/database/parse/utils.py")
    ufns = {n.name: n for n in utils.body if isinstance(n, ast.FunctionDef)}
    for name in ["split_parts", "parse_from_options", "parse_from_numerical_options", "parse_number_in_range",
                 "fixed_options_parser", "fixed_numerical_options_parser", "range_number_parser"]:
        if name not in ufns:
            raise Unsupported("utils.%s not found" % name)
        tr.function(ufns[name])
    tr.n = 0
    tr.loops = 0
    tr.file_mode = True

    # ---- exceptions.py: the class hierarchy
    exc = load(repo, "pyp0f/exceptions.py")
    parent = {}
    for n in exc.body:
        if isinstance(n, ast.ClassDef):
            if len(n.bases) != 1 or not is_name(n.bases[0]) or n.keywords or n.decorator_list:
                fail(n, "exception class shape")
            parent[n.name] = n.bases[0].id
        elif not (isinstance(n, ast.Expr) and isinstance(n.value, ast.Constant)):
            fail(n, "unexpected statement in exceptions.py")
    ERR = {"FieldError": "FieldError", "ParsingError": "ParsingError _", "DatabaseError": "DatabaseError", "PacketError": "PacketError"}
    for must in ERR:
        if must not in parent:
            raise Unsupported("exception class %s not found" % must)
    if set(parent) != set(ERR) | {"P0fError"} or parent["P0fError"] != "Exception":
        raise Unsupported("exceptions.py declares classes the model does not know: %s" % sorted(parent))

    def subclass_of(c, base):
        while c in parent:
            if c == base:
                return True
            c = parent[c]
        return c == base
    pe = find_class(exc, "ParsingError")
    pm = methods(pe)
    if list(pm) != ["__init__"] or [a.arg for a in pm["__init__"].args.args] != ["self", "message", "line_number"] or pm["__init__"].args.defaults:
        fail(pe, "ParsingError.__init__ shape")

    # ---- utils.parsing_error_wrapper
    need_import(utils, "FieldError", "pyp0f.exceptions", "utils.py")
    need_import(utils, "ParsingError", "pyp0f.exceptions", "utils.py")
    if "parsing_error_wrapper" not in ufns:
        raise Unsupported("parsing_error_wrapper not found")
    w = ufns["parsing_error_wrapper"]
    if decorators(w) != ["contextlib.contextmanager"] or [a.arg for a in w.args.args] != ["line_number"] or w.args.defaults or w.args.kwonlyargs \
            or w.args.vararg or w.args.kwarg:
        fail(w, "parsing_error_wrapper signature")
    wb = strip_doc(w.body)
    ok = len(wb) == 1 and isinstance(wb[0], ast.Try) and not wb[0].orelse and not wb[0].finalbody and len(wb[0].handlers) == 1 \
        and len(wb[0].body) == 1 and isinstance(wb[0].body[0], ast.Expr) and isinstance(wb[0].body[0].value, ast.Yield) and wb[0].body[0].value.value is None
    if not ok:
        fail(w, "parsing_error_wrapper body")
    h = wb[0].handlers[0]
    if not (is_name(h.type) and h.type.id in ERR and h.name and len(h.body) == 1 and isinstance(h.body[0], ast.Raise)):
        fail(h, "parsing_error_wrapper handler")
    r = h.body[0]
    if not (isinstance(r.exc, ast.Call) and is_name(r.exc.func, "ParsingError") and len(r.exc.args) == 2 and not r.exc.keywords
            and ast.unparse(r.exc.args[0]) == "str(%s)" % h.name and is_name(r.cause, h.name)):
        fail(r, "parsing_error_wrapper re-raise")
    ln = tr.ex(r.exc.args[1], {"line_number": ("line_number", "Z")})
    if ln[0] or ln[2] != "Z":
        fail(r, "ParsingError line number")
    caught = [c for c in ERR if subclass_of(c, h.type.id)]
    parts.append("Definition gen_parsing_error_wrapper {A} (line_number : Z) (m : res A) : res A :=\n  match m with %s | x => x end."
                 % " | ".join("Err (%s) => Err (ParsingError %s)" % (ERR[c], ln[1]) for c in caught))

    # ---- labels
    base = load(repo, "pyp0f/database/labels/base.py")
    module_names(base, {"DatabaseLabel"})
    dbl = find_class(base, "DatabaseLabel")
    check_dataclass(dbl, [])
    if [(f[0], f[1]) for f in fields(dbl)] != [("name", "str")] or fields(dbl)[0][2] is not None:
        fail(dbl, "DatabaseLabel fields")
    dm = methods(dbl)
    if set(dm) != {"parse", "dump"}:
        fail(dbl, "DatabaseLabel methods")

    def pure_method(fn, cname, comps, ty, ret_ann, decos):
        if decorators(fn) != decos or [a.arg for a in fn.args.args] != ["self"] or fn.args.kwonlyargs or fn.args.vararg or fn.args.kwarg:
            fail(fn, "method signature")
        if fn.returns is None or ast.unparse(fn.returns) != ret_ann:
            fail(fn, "method return annotation")
        body = strip_doc(fn.body)
        if len(body) != 1 or not isinstance(body[0], ast.Return) or body[0].value is None:
            fail(fn, "method body: a single return is expected")
        r = tr.ex(body[0].value, {"self": (" ".join(comps), ty)})
        want = {"str": "T", "bool": "B"}[ret_ann]
        if r[0] or r[2] != want:
            fail(fn, "method result")
        return r[1]

    lab = load(repo, "pyp0f/database/labels/label.py")
    module_names(lab, {"Label", "_parse_type"})
    need_import(lab, "DatabaseLabel", ".base", "label.py")
    need_import(lab, "fixed_options_parser", "pyp0f.database.parse.utils", "label.py")
    need_import(lab, "split_parts", "pyp0f.database.parse.utils", "label.py")
    lcls = find_class(lab, "Label")
    check_dataclass(lcls, ["DatabaseLabel"])
    fl = fields(lcls)
    if [f[0] for f in fl] != ["is_generic", "os_class", "flavor", "sys"] or any(f[1] != LOS_ANN[f[0]] for f in fl):
        fail(lcls, "Label fields")
    tr.label_defaults = {}
    for name, _, dv in fl:
        if dv is not None:
            if name == "sys" and isinstance(dv, ast.Tuple) and not dv.elts:
                tr.label_defaults[name] = "[]"
            else:
                fail(dv, "default value of a Label field")
    lm = methods(lcls)
    if set(lm) != {"is_user_app", "parse", "dump"}:
        fail(lcls, "Label methods")
    for n in lab.body:
        if isinstance(n, ast.Assign) and is_name(n.targets[0], "_parse_type"):
            r = tr.ex(n.value, {})
            if r[0] or r[2] != "FUN B":
                fail(n, "_parse_type")
            parts.append("Definition gen_parse_type : text -> res bool := %s." % r[1])
            tr.globals["_parse_type"] = ("gen_parse_type", "FUN B")
    if "_parse_type" not in tr.globals:
        raise Unsupported("_parse_type not found")
    los_params = "(self_is_generic : bool) (self_os_class self_name self_flavor : text) (self_sys : list text)"
    los_comps = ["self_" + f for f in LOS_FIELDS]
    t = pure_method(lm["is_user_app"], "Label", los_comps, "LOS", "bool", ["property"])
    parts.append("Definition gen_Label_is_user_app %s : bool :=\n  %s." % (los_params, t))
    tr.properties["is_user_app"] = "gen_Label_is_user_app"
    t = pure_method(lm["dump"], "Label", los_comps, "LOS", "str", [])
    parts.append("Definition gen_Label_dump %s : text :=\n  %s." % (los_params, t))
    t = pure_method(dm["dump"], "DatabaseLabel", ["self_name"], "LMTU", "str", [])
    parts.append("Definition gen_DatabaseLabel_dump (self_name : text) : text :=\n  %s." % t)

    def parse_method(fn, cname):
        if decorators(fn) != ["classmethod"] or [a.arg for a in fn.args.args] != ["cls", "raw_label"] or fn.args.kwonlyargs or fn.args.vararg or fn.args.kwarg \
                or fn.args.defaults or ast.unparse(fn.args.args[1].annotation or ast.Name(id="?")) != "str":
            fail(fn, "parse signature")
        return "Definition gen_%s_parse (raw_label : text) : res label :=\n  %s." % (
            cname, tr.block(strip_doc(fn.body), {"raw_label": ("raw_label", "T"), "__class__": cname}, "LABEL", None))
    parts.append(parse_method(lm["parse"], "Label"))
    mtu = load(repo, "pyp0f/database/labels/mtu.py")
    module_names(mtu, {"MTULabel"})
    need_import(mtu, "DatabaseLabel", ".base", "mtu.py")
    mcls = find_class(mtu, "MTULabel")
    check_dataclass(mcls, ["DatabaseLabel"])
    if fields(mcls) or set(methods(mcls)) != {"parse"}:
        fail(mcls, "MTULabel members")                                         # in particular: no own dump -> DatabaseLabel.dump
    parts.append(parse_method(methods(mcls)["parse"], "MTULabel"))
    parts.append("(* virtual dispatch of label.dump(): MTULabel inherits DatabaseLabel.dump, Label overrides it *)\n"
                 "Definition gen_dump (l : label) : text :=\n  match l with LMtu name => gen_DatabaseLabel_dump name\n"
                 "  | LOs is_generic os_class name flavor sys_ => gen_Label_dump is_generic os_class name flavor sys_ end.")
    linit = load(repo, "pyp0f/database/labels/__init__.py")
    li = imports_of(linit)
    if li.get("Label") != (".label", "Label") or li.get("MTULabel") != (".mtu", "MTULabel") or li.get("DatabaseLabel") != (".base", "DatabaseLabel"):
        raise Unsupported("labels/__init__.py does not export the label classes from their modules")

    # ---- records
    rbase = load(repo, "pyp0f/database/records/base.py")
    rcls = find_class(rbase, "Record")
    rf = [f[0] for f in fields(rcls)]
    if sorted(rf) != sorted(REC_FIELDS) or any(f[2] is not None for f in fields(rcls)) or sorted(decorators(rcls)) != ["add_slots", "dataclass"]:
        fail(rcls, "Record fields")
    if [m for m in methods(rcls) if m.startswith("__")]:
        fail(rcls, "Record defines special methods")
    tr.rec_fields = rf
    rinit = imports_of(load(repo, "pyp0f/database/records/__init__.py"))
    sinit = imports_of(load(repo, "pyp0f/database/signatures/__init__.py"))
    for pyname, ctor in KINDS.items():
        modname = ctor[1:].lower()
        if rinit.get(pyname) != ("." + modname, pyname):
            raise Unsupported("records/__init__.py does not export %s from .%s" % (pyname, modname))
        rm = load(repo, "pyp0f/database/records/%s.py" % modname)
        module_names(rm, {pyname})
        c = find_class(rm, pyname)
        if sorted(decorators(c)) != ["add_slots", "dataclass"] or len(c.bases) != 1 or not ast.unparse(c.bases[0]).startswith("Record["):
            fail(c, "record class shape")
        attrs = {}
        for n in c.body:
            if isinstance(n, ast.Assign) and len(n.targets) == 1 and is_name(n.targets[0]) and is_name(n.value) and n.targets[0].id not in attrs:
                attrs[n.targets[0].id] = n.value.id
            elif not (isinstance(n, ast.Expr) and isinstance(n.value, ast.Constant)):
                fail(n, "unexpected member of a record class")
        if set(attrs) != {"_label_cls", "_signature_cls"}:
            fail(c, "record class attributes")
        if attrs["_label_cls"] not in ("Label", "MTULabel") or attrs["_signature_cls"] not in SIGV:
            fail(c, "unknown label / signature class")
        need_import(rm, attrs["_label_cls"], "pyp0f.database.labels", modname + ".py")
        need_import(rm, attrs["_signature_cls"], "pyp0f.database.signatures", modname + ".py")
        if sinit.get(attrs["_signature_cls"]) != ("." + {"MTUSignature": "mtu", "TCPSignature": "tcp", "HTTPSignature": "http"}[attrs["_signature_cls"]], attrs["_signature_cls"]):
            raise Unsupported("signatures/__init__.py does not export %s from its module" % attrs["_signature_cls"])
        tr.label_cls[ctor] = attrs["_label_cls"]
        tr.sig_cls[ctor] = attrs["_signature_cls"]
    order = ["KMtu", "KTcp", "KHttp"]
    parts.append("Definition gen_label_cls_parse (k : kind) : text -> res label :=\n  match k with %s end."
                 % " | ".join("%s => gen_%s_parse" % (k, tr.label_cls[k]) for k in order))
    parts.append("Definition gen_signature_cls_parse (k : kind) (v : text) : res sigv :=\n  match k with %s end."
                 % " | ".join("%s => (do x <- %s v; Ok (%s x))" % (k, SIGV[tr.sig_cls[k]][1], SIGV[tr.sig_cls[k]][0]) for k in order))

    # ---- records_database.py: create / _get / add, translated over a dictionary model (db2coq.py); the step function calls them
    rdb = load(repo, "pyp0f/database/records_database.py")
    dcls = find_class(rdb, "RecordsDatabase")
    dmeth = methods(dcls)
    init = dmeth.get("__init__")
    if init is None or ast.unparse(ast.Module(body=strip_doc(init.body), type_ignores=[])) != "self._map: RecordsMapping = items or {}" \
            or [a.arg for a in init.args.args] != ["self", "items"] or len(init.args.defaults) != 1 or ast.unparse(init.args.defaults[0]) != "None":
        raise Unsupported("RecordsDatabase.__init__: `self._map = items or {}` with items=None expected")
    parts.extend(db2coq.translate_db(dmeth))

    # ---- parser.py
    ps = load(repo, "pyp0f/database/parse/parser.py")
    module_names(ps, {"SKIPPED_PARAMS", "SKIPPED_LINES", "_parse_section_type", "_parse_direction", "ParserState", "parse_file", "_parse_file", "_parse_section"})
    for name, module in [("fixed_options_parser", "pyp0f.database.parse.utils"), ("parsing_error_wrapper", "pyp0f.database.parse.utils"),
                         ("split_parts", "pyp0f.database.parse.utils"), ("Label", "pyp0f.database.labels"),
                         ("MTURecord", "pyp0f.database.records"), ("TCPRecord", "pyp0f.database.records"), ("HTTPRecord", "pyp0f.database.records"),
                         ("RecordsDatabase", "pyp0f.database.records_database"), ("FieldError", "pyp0f.exceptions"), ("ParsingError", "pyp0f.exceptions"),
                         ("Direction", "pyp0f.net.packet"), ("Flag", "enum"), ("auto", "enum")]:
        need_import(ps, name, module, "parser.py")
    pst = find_class(ps, "ParserState")
    if [ast.unparse(b) for b in pst.bases] != ["Flag"] or pst.keywords or pst.decorator_list:
        fail(pst, "ParserState must be a plain Flag")
    tr.ps_members = []
    for n in pst.body:
        if isinstance(n, ast.Assign) and len(n.targets) == 1 and is_name(n.targets[0]) and ast.unparse(n.value) == "auto()" and n.targets[0].id not in tr.ps_members:
            tr.ps_members.append(n.targets[0].id)
        else:
            fail(n, "ParserState member")
    if set(tr.ps_members) != set(PSTATES):
        fail(pst, "ParserState members differ from the model's pstate")
    pnet = load(repo, "pyp0f/net/packet.py")
    dcl = find_class(pnet, "Direction")
    dmem = [n.targets[0].id for n in dcl.body if isinstance(n, ast.Assign) and is_name(n.targets[0])]
    if sorted(dmem) != sorted(DIRS) or [ast.unparse(b) for b in dcl.bases] not in (["Enum"], ["IntEnum"], ["enum.Enum"]):
        fail(dcl, "Direction members")
    vals = [ast.unparse(n.value) for n in dcl.body if isinstance(n, ast.Assign)]
    if len(set(vals)) != len(vals) and "auto()" not in vals:
        fail(dcl, "Direction members are aliases")

    glob = {}
    for n in ps.body:
        if isinstance(n, ast.Assign):
            glob[n.targets[0].id] = n.value
    for name in ("SKIPPED_PARAMS", "SKIPPED_LINES"):
        if name not in glob:
            raise Unsupported(name + " not found")
        r = tr.ex(glob[name], {})
        if r[0] or r[2] != "SET T":
            fail(glob[name], name + " must be a set of strings")
        parts.append("Definition gen_%s : list text := %s." % (name, r[1]))
        tr.globals[name] = ("gen_" + name, "SET T")
    for name, ty in (("_parse_section_type", "KIND"), ("_parse_direction", "DIR")):
        if name not in glob:
            raise Unsupported(name + " not found")
        r = tr.ex(glob[name], {})
        if r[0] or r[2] != "FUN " + ty:
            fail(glob[name], name + " must be a fixed_options_parser over " + ty)
        parts.append("Definition gen_%s : text -> res %s := %s." % (name.strip("_"), COQ_TY[ty], r[1]))
        tr.globals[name] = ("gen_" + name.strip("_"), "FUN " + ty)
    pfns = {n.name: n for n in ps.body if isinstance(n, ast.FunctionDef)}
    for must in ("_parse_section", "_parse_file", "parse_file"):
        if must not in pfns:
            raise Unsupported(must + " not found")
    f = pfns["_parse_section"]
    if [a.arg for a in f.args.args] != ["line"] or ast.unparse(f.args.args[0].annotation or ast.Name(id="?")) != "str" or f.args.defaults or f.args.kwonlyargs \
            or f.args.vararg or f.args.kwarg or f.decorator_list or ast.unparse(f.returns or ast.Name(id="?")) != "Tuple[Type[Record], Optional[Direction]]":
        fail(f, "_parse_section signature")
    parts.append("Definition gen_parse_section (line : text) : res (kind * option dir) :=\n  %s."
                 % tr.block(strip_doc(f.body), {"line": ("line", "T")}, "PAIR KIND OPT DIR", None))
    tr.fns["_parse_section"] = Fn("parse_section", [("line", "T", None, False)], "PAIR KIND OPT DIR", False)

    # ---- _parse_file
    f = pfns["_parse_file"]
    if [a.arg for a in f.args.args] != ["file"] or f.args.defaults or f.args.kwonlyargs or f.args.vararg or f.args.kwarg or f.decorator_list:
        fail(f, "_parse_file signature")
    body = strip_doc(f.body)
    loops = [i for i, s in enumerate(body) if isinstance(s, ast.For)]
    if len(loops) != 1 or loops[0] != len(body) - 2 or not isinstance(body[-1], ast.Return):
        fail(f, "_parse_file: expected <initialisations>; for ...; return")
    inits, loop, ret = body[:-2], body[-2], body[-1]
    init_terms = {}
    for s in inits:
        if isinstance(s, ast.AnnAssign) and is_name(s.target) and s.value is not None:
            ty = STATE_ANN.get(ast.unparse(s.annotation))
            if ty is None:
                fail(s, "state variable annotation")
            r = tr.ex(s.value, {})
            term = tr.widen(r[1], r[2], ty, s)
        elif isinstance(s, ast.Assign) and len(s.targets) == 1 and is_name(s.targets[0]) and ast.unparse(s.value) == "RecordsDatabase()":
            ty, term = "DB", "[]"                                          # RecordsDatabase(): self._map = items or {} with items = None (checked above)
            s.target = s.targets[0]
        else:
            fail(s, "_parse_file initialisation")
        if s.target.id in init_terms or ty in [t for _, t in tr.state_vars] or s.target.id == "file":
            fail(s, "two state variables of the same name / type")
        tr.state_vars.append((s.target.id, ty))
        init_terms[s.target.id] = term
    if sorted(t for _, t in tr.state_vars) != sorted(ROLE):
        fail(f, "_parse_file: the state variables must be one each of " + ", ".join(sorted(ROLE)))
    parts.append("Record gst := { %s }." % "; ".join("%s : %s" % (ROLE[ty], COQ_TY[ty]) for _, ty in tr.state_vars))
    parts.append("Definition gen_st0 : gst := {| %s |}." % "; ".join("%s := %s" % (ROLE[ty], init_terms[v]) for v, ty in tr.state_vars))
    if loop.orelse or not (isinstance(loop.target, ast.Tuple) and len(loop.target.elts) == 2 and all(is_name(x) for x in loop.target.elts)):
        fail(loop, "line loop target")
    it = loop.iter
    if not (isinstance(it, ast.Call) and is_name(it.func, "enumerate") and len(it.args) == 1 and is_name(it.args[0], "file")
            and len(it.keywords) == 1 and it.keywords[0].arg == "start"):
        fail(loop, "line loop iterator: enumerate(file, start=N) expected")
    start = tr.const(it.keywords[0].value)
    if start is None or start[2] != "Z":
        fail(loop, "enumerate start")
    parts.append("Definition gen_first_line : Z := %s." % start[1])
    num, line = loop.target.elts[0].id, loop.target.elts[1].id
    names = [v for v, _ in tr.state_vars]
    if num in names or line in names or num == line or "_" in (num, line):
        fail(loop, "line loop target shadows a state variable")
    env = {num: ("line_number", "Z"), line: ("line", "T")}
    for v, ty in tr.state_vars:
        env[v] = ("(%s st)" % ROLE[ty], ty)
    tr.in_loop = True
    term = tr.block(list(loop.body), env, "GST", lambda e: tr.state_term(e))
    tr.in_loop = False
    parts.append("(* the body of `for line_number, line in enumerate(file, start=..)`; `line` is the Python line, terminator included *)\n"
                 "Definition gen_step_g (st : gst) (line_number : Z) (line : text) : res gst :=\n  %s." % term)
    if not is_name(ret.value) or ret.value.id not in names:
        fail(ret, "_parse_file must return a state variable")
    rty = dict(tr.state_vars)[ret.value.id]
    parts.append("Definition gen_result (st : gst) : %s := %s st." % (COQ_TY[rty], ROLE[rty]))

    # ---- the loop itself, _parse_file and parse_file (I/O assumed: `file` is the list of lines text-mode iteration yields)
    if rty != "DB":
        fail(ret, "_parse_file must return the database")
    parts.append("(* `for line_number, line in enumerate(file, start=gen_first_line)`: enumerate counts up by one *)\n"
                 "Fixpoint gen_loop (st : gst) (line_number : Z) (file : list text) : res gst :=\n"
                 "  match file with [] => Ok st | line :: rest => (do st' <- gen_step_g st line_number line; gen_loop st' (line_number + 1) rest) end.")
    parts.append("Definition gen__parse_file (file : list text) : res gmap :=\n  (do st <- gen_loop gen_st0 gen_first_line file; Ok (gen_result st)).")
    f = pfns["parse_file"]
    pinned = ("try:\n    file = open(filepath, mode='r', encoding='utf-8')\nexcept (OSError, ValueError) as e:\n"
              "    raise DatabaseError(\"Can't open database file for parsing\") from e\n"
              "try:\n    with file:\n        return _parse_file(file)\n"
              "except (OSError, UnicodeDecodeError) as e:\n    raise DatabaseError(\"Can't read database file for parsing\") from e")
    if [a.arg for a in f.args.args] != ["filepath"] or f.args.defaults or f.args.kwonlyargs or f.args.vararg or f.args.kwarg or f.decorator_list \
            or ast.unparse(ast.Module(body=strip_doc(f.body), type_ignores=[])) != pinned:
        fail(f, "parse_file: `file = open(filepath, mode='r', encoding='utf-8')` guarded by except (OSError, ValueError), then `with file: return _parse_file(file)` inside try/except (OSError, UnicodeDecodeError) expected")
    need_import(ps, "DatabaseError", "pyp0f.exceptions", "parser.py")
    parts.append("(* parse_file(filepath): ASSUMED I/O -- open() succeeds and iterating the file yields the lines `file`; OSError /\n"
                 "   UnicodeDecodeError (-> DatabaseError) are not modelled *)\n"
                 "Definition gen_open_parse_file (file : list text) : res gmap := gen__parse_file file.")

    # ---- the READ side of RecordsDatabase and Database.load
    caught_by = {c: [ERR[x] for x in ERR if subclass_of(x, c)] for c in ERR}
    need_import(rdb, "DatabaseError", "pyp0f.exceptions", "records_database.py")
    ri = imports_of(rdb)
    if ri.get("random") != ("random", None):
        raise Unsupported("records_database.py: `import random` expected")
    for n in rdb.body:
        if isinstance(n, (ast.FunctionDef, ast.ClassDef)) and n.name != "RecordsDatabase":
            fail(n, "unexpected definition in records_database.py")
        if isinstance(n, ast.Assign) and not (len(n.targets) == 1 and is_name(n.targets[0]) and n.targets[0].id in ("T", "RecordsByDirection", "RecordsMapping")):
            fail(n, "unexpected module-level assignment in records_database.py")
    parts.extend(db2coq.translate_read(dmeth, caught_by))
    dbm = load(repo, "pyp0f/database/database.py")
    module_names(dbm, {"DEFAULT_DATABASE_PATH", "Database", "DATABASE"})
    need_import(dbm, "parse_file", "pyp0f.database.parse.parser", "database.py")
    need_import(dbm, "RecordsDatabase", "pyp0f.database.records_database", "database.py")
    need_import(dbm, "always_path", "pyp0f.utils.path", "database.py")
    dc = find_class(dbm, "Database")
    if [ast.unparse(b) for b in dc.bases] != ["RecordsDatabase"] or dc.keywords or dc.decorator_list or list(methods(dc)) != ["load"]:
        fail(dc, "class Database(RecordsDatabase) with the single method load expected")
    for n in dc.body:
        if not isinstance(n, ast.FunctionDef) and not (isinstance(n, ast.Expr) and isinstance(n.value, ast.Constant)):
            fail(n, "unexpected member of class Database")
    parts.append("(* Database.load(filepath): always_path / open ASSUMED; the argument of _replace is evaluated before _replace runs *)\n"
                 + db2coq.translate_load(methods(dc)["load"]))
    open(out, "w").write("\n\n".join(parts) + "\n")


if __name__ == "__main__":
    try:
        main()
    except Unsupported as e:
        print("UNSUPPORTED: %s" % e)
        sys.exit(3)
    except Exception as e:  # fail closed
        print("UNSUPPORTED: the source has a shape the translator does not handle (%s: %s)" % (type(e).__name__, str(e)[:200]))
        sys.exit(3)
