(* Extraction of the executable models for the correspondence check.
   Only ExtrOcamlBasic is used: bool/option/unit/list/prod/sumbool/sumor map to OCaml's,
   Z/N/positive/nat stay extracted inductives.  No Extract Constant of our own. *)
From PV Require Import Model.Prelude Model.Bits Model.Sig Model.Matcher Model.Select Model.Uptime Model.Mtu Model.Options Model.Wire Model.Text Model.SigParse Model.DbParse Model.Dump Model.HttpRead Model.HttpMatch Model.DbState Model.Api Model.Imperson Spec.C05.
Require Extraction ExtrOcamlBasic.
Extraction Language OCaml.
Set Extraction Output Directory ".".
Extraction "model.ml" tcp_match win_multi fp_tcp uptime fp_mtu imp_mtu parse_options parse_packet sig_of parse_file parse_text file_lines db_len parse_tcp_sig parse_http_sig parse_mtu_sig parse_os_label dump_label dump_layout dump_quirks parse_layout parse_quirks lookup candidates read_payload fp_http history loader0 run_ops empty_db imp_tcp enc_out supported_b coherent_b oracle.
