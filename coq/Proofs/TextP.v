(* Facts about the Python string primitives of Model/Text.v. *)
From Coq Require Import Lia.
From PV Require Import Model.Prelude Model.Text.

Theorem text_eqb_eq : forall a b, text_eqb a b = true <-> a = b.
Proof.
  induction a as [|x a IH]; intros [|y b]; cbn [text_eqb]; try (split; congruence).
  rewrite andb_true_iff, Z.eqb_eq, IH.
  split; [intros [-> ->]; reflexivity | intros H; inversion H; auto].
Qed.

Theorem text_eqb_refl : forall a, text_eqb a a = true.
Proof. intro a. apply text_eqb_eq. reflexivity. Qed.

Theorem starts_with_app : forall p r, starts_with p (p ++ r) = true.
Proof.
  induction p as [|x p IH]; intro r; cbn [starts_with app]; [reflexivity|].
  rewrite Z.eqb_refl, IH. reflexivity.
Qed.

Theorem starts_with_spec : forall p t, starts_with p t = true <-> exists r, t = p ++ r.
Proof.
  intros p t. split.
  - revert t. induction p as [|x p IH]; intros t H.
    + exists t. reflexivity.
    + destruct t as [|y t]; cbn [starts_with] in H; [discriminate|].
      apply andb_true_iff in H. destruct H as [Hxy Hp]. apply Z.eqb_eq in Hxy. subst y.
      destruct (IH t Hp) as [r ->]. exists r. reflexivity.
  - intros [r ->]. apply starts_with_app.
Qed.

Theorem split_on_nonempty : forall sep t, split_on sep t <> [].
Proof.
  intros sep t. destruct t as [|c r]; cbn [split_on]; [discriminate|].
  destruct (c =? sep); [discriminate|].
  destruct (split_on sep r); discriminate.
Qed.

Lemma join_cons_head sep c h tl : join sep ((c :: h) :: tl) = c :: join sep (h :: tl).
Proof. destruct tl; reflexivity. Qed.

Theorem join_split : forall sep t, join [sep] (split_on sep t) = t.
Proof.
  intros sep t. induction t as [|c r IH]; cbn [split_on]; [reflexivity|].
  destruct (c =? sep) eqn:E.
  - apply Z.eqb_eq in E. subst c.
    destruct (split_on sep r) as [|h tl] eqn:S; [exfalso; exact (split_on_nonempty _ _ S)|].
    change (join [sep] ([] :: h :: tl)) with ([] ++ [sep] ++ join [sep] (h :: tl)).
    cbn [app]. f_equal. exact IH.
  - destruct (split_on sep r) as [|h tl] eqn:S; [exfalso; exact (split_on_nonempty _ _ S)|].
    rewrite join_cons_head. f_equal. exact IH.
Qed.

Theorem split_on_pieces_free : forall sep t, Forall (fun p => mem sep p = false) (split_on sep t).
Proof.
  intros sep t. induction t as [|c r IH]; cbn [split_on].
  - constructor; [reflexivity | constructor].
  - destruct (c =? sep) eqn:E.
    + constructor; [reflexivity | exact IH].
    + destruct (split_on sep r) as [|h tl]; [repeat constructor|].
      * unfold mem. cbn [existsb]. rewrite Z.eqb_sym, E. reflexivity.
      * inversion IH as [|? ? Hh Htl]; subst. constructor; [|exact Htl].
        unfold mem in *. cbn [existsb]. rewrite Z.eqb_sym, E. exact Hh.
Qed.

Lemma split_on_app_sep sep x t :
  mem sep x = false -> split_on sep (x ++ sep :: t) = x :: split_on sep t.
Proof.
  induction x as [|c x IH]; intro H; cbn [app split_on].
  - rewrite Z.eqb_refl. reflexivity.
  - unfold mem in H. cbn [existsb] in H. apply orb_false_iff in H. destruct H as [Hc Hx].
    rewrite Z.eqb_sym, Hc. rewrite (IH Hx). reflexivity.
Qed.

Lemma split_on_free sep x : mem sep x = false -> split_on sep x = [x].
Proof.
  induction x as [|c x IH]; intro H; cbn [split_on]; [reflexivity|].
  unfold mem in H. cbn [existsb] in H. apply orb_false_iff in H. destruct H as [Hc Hx].
  rewrite Z.eqb_sym, Hc. rewrite (IH Hx). reflexivity.
Qed.

Theorem split_join : forall sep l, l <> [] -> Forall (fun p => mem sep p = false) l -> split_on sep (join [sep] l) = l.
Proof.
  intros sep l. induction l as [|x l IH]; intros Hne Hall; [congruence|].
  inversion Hall as [|? ? Hx Hl]; subst.
  destruct l as [|y l].
  - cbn [join]. apply split_on_free. exact Hx.
  - change (join [sep] (x :: y :: l)) with (x ++ sep :: join [sep] (y :: l)).
    rewrite (split_on_app_sep _ _ _ Hx). rewrite IH; [reflexivity | discriminate | exact Hl].
Qed.

(* decimal printing and int() *)

Lemma dec_f_digits fuel : forall n, 0 <= n -> Forall (fun c => is_digit c = true) (dec_f fuel n).
Proof.
  induction fuel as [|f IH]; intros n Hn; cbn [dec_f]; [constructor|].
  destruct (n <? 10) eqn:E.
  - apply Z.ltb_lt in E. constructor; [|constructor]. unfold is_digit. lia.
  - apply Z.ltb_ge in E. apply Forall_app. split.
    + apply IH. apply Z.div_pos; lia.
    + constructor; [|constructor]. unfold is_digit.
      pose proof (Z.mod_pos_bound n 10 ltac:(lia)). lia.
Qed.

Lemma mem_Forall (P : Z -> Prop) c t : Forall P t -> mem c t = true -> P c.
Proof.
  intros H Hm. unfold mem in Hm. apply existsb_exists in Hm. destruct Hm as [x [Hin Hx]].
  apply Z.eqb_eq in Hx. subst x. rewrite Forall_forall in H. apply H. exact Hin.
Qed.

Theorem dec_digits_only : forall n c, 0 <= n -> mem c (dec n) = true -> 48 <= c <= 57.
Proof.
  intros n c Hn Hm.
  pose proof (mem_Forall _ c _ (dec_f_digits 20 n Hn) Hm) as H. cbv beta in H.
  unfold is_digit in H. lia.
Qed.

Lemma dec_f_nonempty f n : dec_f (S f) n <> [].
Proof.
  cbn [dec_f]. destruct (n <? 10); [discriminate|].
  intro H. apply app_eq_nil in H. destruct H as [_ H]. discriminate.
Qed.

Theorem dec_nonempty : forall n, 0 <= n -> dec n <> [].
Proof. intros n _. apply dec_f_nonempty. Qed.

Definition dstep (a c : Z) : Z := a * 10 + (c - 48).

Lemma digits_fold t : forall acc, Forall (fun c => is_digit c = true) t ->
  digits t acc true = Some (fold_left dstep t acc).
Proof.
  induction t as [|c r IH]; intros acc H; cbn [digits fold_left]; [reflexivity|].
  inversion H as [|? ? Hc Hr]; subst. rewrite Hc. apply IH. exact Hr.
Qed.

Lemma digits_fold_ne t acc st : Forall (fun c => is_digit c = true) t -> t <> [] ->
  digits t acc st = Some (fold_left dstep t acc).
Proof.
  intros H Hne. destruct t as [|c r]; [congruence|].
  inversion H as [|? ? Hc Hr]; subst. cbn [digits fold_left]. rewrite Hc.
  apply digits_fold. exact Hr.
Qed.

Lemma dec_f_value fuel : forall n, 0 <= n < 10 ^ Z.of_nat fuel ->
  fold_left dstep (dec_f fuel n) 0 = n.
Proof.
  induction fuel as [|f IH]; intros n Hn.
  - change (10 ^ Z.of_nat 0) with 1 in Hn. cbn [dec_f fold_left]. lia.
  - cbn [dec_f]. destruct (n <? 10) eqn:E.
    + cbn [fold_left]. unfold dstep. lia.
    + apply Z.ltb_ge in E. rewrite fold_left_app. cbn [fold_left].
      rewrite IH.
      * unfold dstep. pose proof (Z.div_mod n 10 ltac:(lia)). lia.
      * rewrite Nat2Z.inj_succ, Z.pow_succ_r in Hn by lia.
        split; [apply Z.div_pos; lia|]. apply Z.div_lt_upper_bound; lia.
Qed.

Lemma lstrip_by_none f t : Forall (fun c => f c = false) t -> lstrip_by f t = t.
Proof.
  intro H. destruct t as [|c r]; [reflexivity|]. cbn [lstrip_by].
  inversion H as [|? ? Hc Hr]; subst. rewrite Hc. reflexivity.
Qed.

Lemma strip_by_none f t : Forall (fun c => f c = false) t -> strip_by f t = t.
Proof.
  intro H. unfold strip_by. rewrite (lstrip_by_none f t H).
  rewrite lstrip_by_none; [apply rev_involutive|].
  rewrite Forall_forall in *. intros x Hx. apply H. apply in_rev. exact Hx.
Qed.

Theorem py_int_dec : forall n, 0 <= n < 10 ^ 20 -> py_int (dec n) = Some n.
Proof.
  intros n Hn.
  assert (Hd : Forall (fun c => is_digit c = true) (dec n)) by (apply dec_f_digits; lia).
  assert (Hne : dec n <> []) by (apply dec_nonempty; lia).
  unfold py_int.
  assert (Hm : map to_ascii_c (dec n) = dec n).
  { clear Hne. induction Hd as [|c r Hc _ IH]; [reflexivity|]. cbn [map]. rewrite IH. f_equal.
    unfold to_ascii_c. unfold is_digit in Hc. destruct (c <? 127) eqn:E; [reflexivity|lia]. }
  rewrite Hm. unfold py_int_ascii. rewrite strip_by_none.
  2:{ eapply Forall_impl; [|exact Hd]. intros c Hc. cbv beta in Hc.
      unfold is_digit in Hc. unfold is_space_bytes. lia. }
  destruct (dec n) as [|c r] eqn:D; [congruence|].
  assert (Hc : is_digit c = true) by (inversion Hd; assumption).
  unfold is_digit in Hc.
  destruct (c =? 43) eqn:E1; [lia|]. destruct (c =? 45) eqn:E2; [lia|].
  rewrite (digits_fold_ne _ 0 false Hd) by discriminate.
  rewrite <- D. unfold dec. rewrite dec_f_value; [reflexivity|].
  change (Z.of_nat 20) with 20. exact Hn.
Qed.

(* ---------- str.encode(): UTF-8 ---------- *)

Theorem utf8_app : forall a b, utf8 (a ++ b) = utf8 a ++ utf8 b.
Proof. intros a b. unfold utf8. apply flat_map_app. Qed.

Lemma utf8_cons c t : utf8 (c :: t) = enc_c c ++ utf8 t.
Proof. reflexivity. Qed.

Local Ltac Zify.zify_post_hook ::= Z.to_euclidean_division_equations.

(* an ASCII code point is its own encoding *)
Lemma enc_c_ascii c : c < 128 -> enc_c c = [c].
Proof. intro H. unfold enc_c. destruct (c <? 128) eqn:E; [reflexivity | lia]. Qed.

(* every byte of the encoding of a non-ASCII code point is >= 128 (whatever the integer) *)
Lemma enc_c_high c : 128 <= c -> Forall (fun b => 128 <= b) (enc_c c).
Proof.
  intro H. unfold enc_c.
  destruct (c <? 128) eqn:E1; [lia|].
  destruct (c <? 2048) eqn:E2; [repeat constructor; lia|].
  destruct (c <? 65536) eqn:E3; repeat constructor; lia.
Qed.

Lemma enc_c_nonempty c : enc_c c <> [].
Proof.
  unfold enc_c. destruct (c <? 128); [discriminate|]. destruct (c <? 2048); [discriminate|].
  destruct (c <? 65536); discriminate.
Qed.

Lemma enc_c_bytes c : 0 <= c < 1114112 -> Forall (fun b => 0 <= b < 256) (enc_c c).
Proof.
  intro H. unfold enc_c.
  destruct (c <? 128) eqn:E1; [repeat constructor; lia|].
  destruct (c <? 2048) eqn:E2; [repeat constructor; lia|].
  destruct (c <? 65536) eqn:E3; repeat constructor; lia.
Qed.

Theorem utf8_bytes : forall t, Forall (fun c => 0 <= c < 1114112) t -> Forall (fun b => 0 <= b < 256) (utf8 t).
Proof.
  intros t H. induction H as [|c t Hc Ht IH]; [constructor|].
  rewrite utf8_cons. apply Forall_app. split; [apply enc_c_bytes; exact Hc | exact IH].
Qed.

(* UTF-8 is a prefix code *)
Lemma cons_eq_inv {A} (a b : A) x y : a :: x = b :: y -> a = b /\ x = y.
Proof. intro H. inversion H. split; reflexivity. Qed.

Lemma enc_c_prefix a b x y : 0 <= a < 1114112 -> 0 <= b < 1114112 ->
  enc_c a ++ x = enc_c b ++ y -> a = b /\ x = y.
Proof.
  intros Ha Hb. unfold enc_c.
  destruct (a <? 128) eqn:A1; [|destruct (a <? 2048) eqn:A2; [|destruct (a <? 65536) eqn:A3]];
  (destruct (b <? 128) eqn:B1; [|destruct (b <? 2048) eqn:B2; [|destruct (b <? 65536) eqn:B3]]);
  cbn [app]; intro H;
  repeat match type of H with _ :: _ = _ :: _ => apply cons_eq_inv in H; let E := fresh "E" in destruct H as [E H] end;
  first [ exfalso; lia | split; [lia | exact H] ].
Qed.

Theorem utf8_injective : forall a b, Forall (fun c => 0 <= c < 1114112) a -> Forall (fun c => 0 <= c < 1114112) b -> utf8 a = utf8 b -> a = b.
Proof.
  intros a b Ha. revert b. induction Ha as [|c a Hc Ha IH]; intros b Hb H.
  - destruct b as [|d b]; [reflexivity|]. rewrite utf8_cons in H. change (utf8 []) with (@nil Z) in H.
    symmetry in H. apply app_eq_nil in H. destruct H as [H _]. exfalso. exact (enc_c_nonempty _ H).
  - destruct b as [|d b].
    + rewrite utf8_cons in H. change (utf8 []) with (@nil Z) in H.
      apply app_eq_nil in H. destruct H as [H _]. exfalso. exact (enc_c_nonempty _ H).
    + inversion Hb as [|? ? Hd Hb']; subst. rewrite !utf8_cons in H.
      destruct (enc_c_prefix _ _ _ _ Hc Hd H) as [-> Ht]. f_equal. apply IH; assumption.
Qed.

Print Assumptions text_eqb_eq.
Print Assumptions text_eqb_refl.
Print Assumptions starts_with_app.
Print Assumptions starts_with_spec.
Print Assumptions split_on_nonempty.
Print Assumptions join_split.
Print Assumptions split_on_pieces_free.
Print Assumptions split_join.
Print Assumptions dec_digits_only.
Print Assumptions dec_nonempty.
Print Assumptions py_int_dec.
Print Assumptions utf8_app.
Print Assumptions utf8_bytes.
Print Assumptions utf8_injective.
