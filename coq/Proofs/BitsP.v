(* Bit masks as finite sets. *)
From Coq Require Import Lia.
From PV Require Import Model.Prelude Model.Bits.

Lemma testbit_mask_of l k : N.testbit (mask_of l) k = existsb (N.eqb k) l.
Proof.
  induction l as [|a l IH]; cbn [mask_of existsb].
  - apply (N.bits_0 k).
  - rewrite N.lor_spec, IH. f_equal.
    rewrite N.shiftl_1_l, N.pow2_bits_eqb. rewrite N.eqb_sym. reflexivity.
Qed.

Lemma eq0_bits a : a = 0%N <-> forall k, N.testbit a k = false.
Proof.
  split.
  - intros -> k; apply (N.bits_0 k).
  - intros H. apply N.bits_inj. intro k. rewrite H, (N.bits_0 k). reflexivity.
Qed.

Lemma existsb_eqb_In k l : existsb (N.eqb k) l = true <-> In k l.
Proof.
  rewrite existsb_exists. split.
  - intros [x [Hin Hx]]. apply N.eqb_eq in Hx. subst; exact Hin.
  - intros H. exists k. split; [exact H | apply N.eqb_refl].
Qed.

Lemma hasq_mask_of l k : hasq k (mask_of l) = true <-> In k l.
Proof. unfold hasq. rewrite testbit_mask_of. apply existsb_eqb_In. Qed.

Lemma hasq_setq k j m : hasq k (setq j m) = hasq k m || N.eqb k j.
Proof.
  unfold hasq, setq. rewrite N.lor_spec, N.shiftl_1_l, N.pow2_bits_eqb, N.eqb_sym. reflexivity.
Qed.

Lemma hasq_setq_if b k j m : hasq k (setq_if b j m) = hasq k m || (b && N.eqb k j).
Proof. destruct b; cbn [setq_if andb]; [apply hasq_setq | rewrite orb_false_r; reflexivity]. Qed.

Lemma hasq_0 k : hasq k 0 = false.
Proof. apply (N.bits_0 k). Qed.

Lemma list_eqb_eq a b : list_eqb a b = true <-> a = b.
Proof.
  revert b; induction a as [|x a IH]; intros [|y b]; cbn [list_eqb]; try (split; congruence).
  rewrite andb_true_iff, Z.eqb_eq, IH.
  split; [intros [-> ->]; reflexivity | intros H; inversion H; auto].
Qed.

Lemma list_eqb_refl a : list_eqb a a = true.
Proof. apply list_eqb_eq; reflexivity. Qed.

(* [find] returns the first element satisfying the test. *)
Lemma find_first {A} (f : A -> bool) l x :
  find f l = Some x <->
  exists pre post, l = pre ++ x :: post /\ f x = true /\ forall y, In y pre -> f y = false.
Proof.
  induction l as [|a l IH]; cbn [find].
  - split; [discriminate | intros (pre & post & H & _); destruct pre; discriminate].
  - destruct (f a) eqn:Fa.
    + split.
      * intros H; inversion H; subst. exists [], l. repeat split; auto. intros y [].
      * intros (pre & post & H & Fx & Hpre). destruct pre as [|b pre]; cbn in H; inversion H; subst.
        -- reflexivity.
        -- rewrite (Hpre b (or_introl eq_refl)) in Fa. discriminate.
    + rewrite IH. split.
      * intros (pre & post & -> & Fx & Hpre). exists (a :: pre), post. repeat split; auto.
        intros y [<-|Hy]; auto.
      * intros (pre & post & H & Fx & Hpre). destruct pre as [|b pre]; cbn in H; inversion H; subst.
        -- rewrite Fx in Fa; discriminate.
        -- exists pre, post. repeat split; auto. intros y Hy. apply Hpre. right; exact Hy.
Qed.

Lemma find_none_iff {A} (f : A -> bool) l :
  find f l = None <-> forall y, In y l -> f y = false.
Proof.
  split; [apply find_none|].
  induction l as [|a l IH]; cbn [find]; [reflexivity|]. intros H.
  rewrite (H a (or_introl eq_refl)). apply IH. intros y Hy. apply H. right; exact Hy.
Qed.
